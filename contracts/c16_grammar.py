"""Reference grammar for symbolic-dimension expressions (the *specification* the parser is proved against).

Standard arithmetic notation (Python's): lowest to highest precedence
    expr    := term  (('+' | '-') term)*            left associative
    term    := unary (('*' | '/' | '//' | '%') unary)*  left associative
    unary   := '-' unary | power                    unary minus binds *less* tightly than '**'  (-x**2 = -(x**2))
    power   := primary ('**' unary)?                right associative
    primary := NUMBER | IDENT | IDENT '(' [expr (',' expr)*] ')' | '(' expr ')'
over a token stream tok(0..NT-1) (kind, value).  For every nonterminal X and start index i the grammar defines
X_ok(i) (a phrase of X starts at i), X_e(i) (the SymPy term it means) and X_n(i) (index after the phrase).
`a // b` means floor(a / b), `a % b` means Mod(a, b) (a - b*floor(a/b)).

The definitions are recursive; each is revealed only at the indices a contract names (`U_X(i)`: trigger-controlled
unfolding, one level), so the solver never instantiates them in a loop."""
import z3

from pyvc.types import BOOL, INT, STR, Ref, TRef, Ty, V, VStr


class TArr(Ty):
    """A raw z3 array Int -> Ref (the backing array of an argument list), compared by array equality."""

    def sorts(self):
        return [z3.ArraySort(z3.IntSort(), Ref)]

    def wrap(self, comps):
        return VArr(comps[0])


class VArr(V):
    ty = TArr()

    def __init__(self, z):
        self.z = z

    def comps(self):
        return [self.z]


class Grammar:
    def __init__(self, eng, code_table):
        S = STR.sorts()[0]
        I, B, R = z3.IntSort(), z3.BoolSort(), Ref
        A = z3.ArraySort(I, R)
        self.eng = eng
        self.tok_kind = z3.Function("tok_kind", I, S)
        self.tok_isint = z3.Function("tok_isint", I, B)
        self.tok_s = z3.Function("tok_s", I, S)
        self.tok_n = z3.Function("tok_n", I, I)
        self.NT = z3.Int("NT")
        self.LEXERR = z3.Bool("LEXERR")
        c = eng.ctor
        f = {}
        for X in ("expr", "term", "unary", "power", "primary", "call"):
            f[X] = (z3.Function(X + "_ok", I, B), z3.Function(X + "_e", I, R), z3.Function(X + "_n", I, I))
        for X in ("efold", "tfold"):
            f[X] = (z3.Function(X + "_ok", I, R, B), z3.Function(X + "_e", I, R, R), z3.Function(X + "_n", I, R, I))
        self.afold = (z3.Function("afold_ok", I, I, A, B), z3.Function("afold_len", I, I, A, I),
                      z3.Function("afold_arr", I, I, A, A), z3.Function("afold_n", I, I, A, I))
        self.f = f
        self.U = {X: z3.Function("U_" + X, I, B) for X in ("expr", "term", "unary", "power", "primary", "call")}
        self.U.update({X: z3.Function("U_" + X, I, R, B) for X in ("efold", "tfold")})
        self.U["afold"] = z3.Function("U_afold", I, I, A, B)
        self.EMPTY = z3.K(I, z3.Const("null", R))
        self.code_table = code_table
        i, j, n = z3.Ints("gi gj gn")
        acc = z3.Const("gacc", R)
        arr = z3.Const("garr", A)

        def lit(s):
            return VStr(s).z

        def K(k, kind):
            return z3.And(k >= 0, k < self.NT, self.tok_kind(k) == lit(kind))

        def OP(k, *ops):
            return z3.And(K(k, "OP"), z3.Not(self.tok_isint(k)), z3.Or([self.tok_s(k) == lit(o) for o in ops]))
        self.K, self.OP = K, OP
        ok, e, nx = (lambda X, *a: f[X][0](*a)), (lambda X, *a: f[X][1](*a)), (lambda X, *a: f[X][2](*a))

        def define(X, vars_, d_ok, d_e, d_n):
            u = self.U[X](*vars_)
            body = z3.And(u, ok(X, *vars_) == d_ok, z3.Implies(d_ok, z3.And(e(X, *vars_) == d_e, nx(X, *vars_) == d_n)))
            eng.axioms.append(z3.ForAll(list(vars_), body, patterns=[u]))

        # primary
        num, par = K(i, "NUMBER"), K(i, "LPAREN")
        is_call = z3.And(K(i, "IDENT"), K(i + 1, "LPAREN"))
        ident = z3.And(K(i, "IDENT"), z3.Not(K(i + 1, "LPAREN")))
        define("primary", [i],
               z3.If(num, True, z3.If(is_call, ok("call", i), z3.If(ident, True,
                     z3.If(par, z3.And(ok("expr", i + 1), K(nx("expr", i + 1), "RPAREN")), False)))),
               z3.If(num, c["lit"](self.tok_n(i)), z3.If(is_call, e("call", i), z3.If(ident, c["sym"](self.tok_s(i)), e("expr", i + 1)))),
               z3.If(num, i + 1, z3.If(is_call, nx("call", i), z3.If(ident, i + 1, nx("expr", i + 1) + 1))))
        # call: IDENT at i, LPAREN at i+1
        name = self.tok_s(i)
        intable = z3.Or([name == lit(k) for k, _ in code_table] or [z3.BoolVal(False)])
        fid = lit("?")
        for k, fn in reversed(code_table):
            fid = z3.If(name == lit(k), lit(fn), fid)
        noargs = K(i + 2, "RPAREN")
        j1 = nx("expr", i + 2)
        a1 = z3.Store(self.EMPTY, 0, e("expr", i + 2))
        aok, alen, aarr, an = self.afold
        end = z3.If(noargs, i + 2, an(j1, 1, a1))
        define("call", [i],
               z3.And(intable, z3.If(noargs, True, z3.And(i + 2 < self.NT, ok("expr", i + 2), aok(j1, 1, a1), K(an(j1, 1, a1), "RPAREN")))),
               eng.sympy_app(fid, z3.If(noargs, 0, alen(j1, 1, a1)), z3.If(noargs, self.EMPTY, aarr(j1, 1, a1))),
               end + 1)
        # argument list fold
        comma = K(j, "COMMA")
        j2 = nx("expr", j + 1)
        a2 = z3.Store(arr, n, e("expr", j + 1))
        u = self.U["afold"](j, n, arr)
        d_ok = z3.If(comma, z3.And(ok("expr", j + 1), aok(j2, n + 1, a2)), True)
        eng.axioms.append(z3.ForAll([j, n, arr], z3.And(
            u, aok(j, n, arr) == d_ok,
            z3.Implies(d_ok, z3.And(alen(j, n, arr) == z3.If(comma, alen(j2, n + 1, a2), n),
                                    aarr(j, n, arr) == z3.If(comma, aarr(j2, n + 1, a2), arr),
                                    an(j, n, arr) == z3.If(comma, an(j2, n + 1, a2), j)))), patterns=[u]))
        # power / unary
        pw = z3.And(ok("primary", i), OP(nx("primary", i), "**"))
        k1 = nx("primary", i) + 1
        define("power", [i],
               z3.If(pw, ok("unary", k1), ok("primary", i)),
               z3.If(pw, c["pow"](e("primary", i), e("unary", k1)), e("primary", i)),
               z3.If(pw, nx("unary", k1), nx("primary", i)))
        neg = OP(i, "-")
        define("unary", [i],
               z3.If(neg, ok("unary", i + 1), ok("power", i)),
               z3.If(neg, c["neg"](e("unary", i + 1)), e("power", i)),
               z3.If(neg, nx("unary", i + 1), nx("power", i)))
        # term / expr with their folds
        for X, sub, F, ops in (("term", "unary", "tfold", ("*", "/", "//", "%")), ("expr", "term", "efold", ("+", "-"))):
            define(X, [i], z3.And(ok(sub, i), ok(F, nx(sub, i), e(sub, i))), e(F, nx(sub, i), e(sub, i)), nx(F, nx(sub, i), e(sub, i)))
            isop = OP(j, *ops)
            r = e(sub, j + 1)
            if X == "term":
                comb = z3.If(self.tok_s(j) == lit("*"), c["mul"](acc, r), z3.If(self.tok_s(j) == lit("/"), c["div"](acc, r),
                             z3.If(self.tok_s(j) == lit("//"), c["floor"](c["div"](acc, r)), c["mod"](acc, r))))
            else:
                comb = z3.If(self.tok_s(j) == lit("+"), c["add"](acc, r), c["sub"](acc, r))
            jn = nx(sub, j + 1)
            define(F, [j, acc],
                   z3.If(isop, z3.And(ok(sub, j + 1), ok(F, jn, comb)), True),
                   z3.If(isop, e(F, jn, comb), acc),
                   z3.If(isop, nx(F, jn, comb), j))
        # lexical facts of the token stream (contract of the tokenizer)
        eng.axioms.append(z3.ForAll([i], self.tok_isint(i) == (self.tok_kind(i) == lit("NUMBER")), patterns=[self.tok_isint(i)]))
        eng.axioms.append(self.NT >= 0)
        # expose to the spec language
        for X, (a, b, cc) in f.items():
            eng.spec_ufuncs[X + "_ok"] = (a, BOOL)
            eng.spec_ufuncs[X + "_e"] = (b, TRef("SymExpr"))
            eng.spec_ufuncs[X + "_n"] = (cc, INT)
        for X, uf in self.U.items():
            eng.spec_ufuncs["U_" + X] = (uf, BOOL)
        eng.spec_ufuncs["afold_ok"] = (aok, BOOL)
        eng.spec_ufuncs["afold_len"] = (alen, INT)
        eng.spec_ufuncs["afold_n"] = (an, INT)
        eng.spec_ufuncs["afold_arr"] = (aarr, TArr())
