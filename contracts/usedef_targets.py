"""Use-def consistency (C01 clause 1: `a value's recorded uses are exactly the (node, input index) pairs where it appears`) for
the node-side mutators, shared by C01 (invariant on every exit) and C06 (a rejected call changes nothing).

I1:  forall v, n, i.  Usage(n, i) in v._uses   <=>   0 <= i < len(n._inputs) and n._inputs[i] is v
with the well-formedness that distinct values own distinct `_uses` dictionaries."""
from pyvc.core import FnDecl
from pyvc.engine import Target
from pyvc.sem_stmt import LoopSpec
from pyvc.types import INT, TRef
from . import schema

CORE = schema.CORE

SPEC = '''
def uses_wf():
    return (forall(lambda v=Value: nonnull(v._uses) and allocated(v._uses)) and
            forall(lambda v=Value, u=Usage: implies(u in box(v._uses), nonnull(u.node) and allocated(u.node) and isinstance(u.node, Node))) and
            forall(lambda v=Value, w=Value: implies(v is not w, v._uses is not w._uses)))

def I1():
    return forall(lambda v=Value, n=Node, i=int: iff(Usage(n, i) in box(v._uses), 0 <= i and i < len(n._inputs) and n._inputs[i] is v))

def I1_except(node, lo, hi):
    return forall(lambda v=Value, n=Node, i=int: implies(not (n is node and lo <= i and i < hi),
                  iff(Usage(n, i) in box(v._uses), 0 <= i and i < len(n._inputs) and n._inputs[i] is v)))
'''


def build(eng, prop):
    schema.core_ir(eng)
    eng.spec_fn(SPEC)
    USES = eng.classes["Value"].fields["_uses"].cls
    mod = ["Node._inputs", f"{USES}.$v", "Node.device_configurations"]
    unchanged = "unchanged('Node._inputs', %r)" % f"{USES}.$v"
    exc = ["uses_wf()", "I1()"] if prop == "C01" else [unchanged]
    # annotations of a value that left the node are dropped (C19): touches nothing of the use-def state
    eng.functions[f"{CORE}.Node._drop_sharding_for_value"] = FnDecl(
        f"{CORE}.Node._drop_sharding_for_value", "contract", CORE, "Node._drop_sharding_for_value", requires=[], ensures=[],
        modifies=["Node.device_configurations"])
    for meth in ("_add_usage", "_remove_usage"):
        pass
    eng.add_target(Target("Node.replace_input_with", mod=CORE, qual="Node.replace_input_with", self_cls="Node",
        params=dict(index=INT, value=TRef("Value")), requires=["uses_wf()", "I1()"],
        ensures=["uses_wf()", "I1()", "0 <= index and index < len(self._inputs)", "len(self._inputs) == old(len(self._inputs))", "self._inputs[index] is value",
                 # the usage (self, index) now belongs to exactly the new value; only that usage is added / removed anywhere
                 "forall(lambda v=Value: (Usage(self, index) in box(v._uses)) == (v is value))", 
                 "forall(lambda v=Value, u=Usage: implies(not (u.node is self and u.idx == index), (u in box(v._uses)) == old(u in box(v._uses))))", 
                 "forall(lambda j=int: implies(0 <= j and j < len(self._inputs) and j != index, self._inputs[j] is old(self._inputs[j])))",
                 # no other node's inputs change
                 "forall(lambda n=Node: implies(n is not self, n._inputs == old(n._inputs)))"],
        raises={"ValueError": exc}, modifies=mod + ["$alloc"]))
    # resize_inputs uses replace_input_with through its contract
    rc = FnDecl(f"{CORE}.Node.replace_input_with", "contract", CORE, "Node.replace_input_with",
        requires=["uses_wf()", "I1()"],
        ensures=["uses_wf()", "I1()", "0 <= index and index < len(self._inputs)", "len(self._inputs) == old(len(self._inputs))", "self._inputs[index] is value",
                 "forall(lambda v=Value: (Usage(self, index) in box(v._uses)) == (v is value))", 
                 "forall(lambda v=Value, u=Usage: implies(not (u.node is self and u.idx == index), (u in box(v._uses)) == old(u in box(v._uses))))", 
                 "forall(lambda j=int: implies(0 <= j and j < len(self._inputs) and j != index, self._inputs[j] is old(self._inputs[j])))",
                 "forall(lambda n=Node: implies(n is not self, n._inputs == old(n._inputs)))"],
        raises={"ValueError": [unchanged, "index < 0 or index >= len(self._inputs)"]}, modifies=mod)

    def setup(e, p, env):
        e.functions[f"{CORE}.Node.replace_input_with"] = rc
    eng.add_target(Target("Node.resize_inputs", mod=CORE, qual="Node.resize_inputs", self_cls="Node", params=dict(new_size=INT), setup=setup,
        requires=["uses_wf()", "I1()"],
        loops={0: LoopSpec(invariant=["uses_wf()", "I1()", "implies(k > 0, new_size >= 0)", "implies(k == 0, %s)" % unchanged, "len(self._inputs) == current_size", "current_size == old(len(self._inputs))",
                                      "forall(lambda j=int: implies(0 <= j and j < new_size, self._inputs[j] is old(self._inputs[j])))",
                                      "forall(lambda j=int: implies(new_size <= j and j < new_size + k, self._inputs[j] is None))",
                                      "forall(lambda n=Node: implies(n is not self, n._inputs == old(n._inputs)))"],
                           modifies=mod)},
        ensures=["uses_wf()", "I1()", "len(self._inputs) == new_size",
                 "forall(lambda j=int: implies(0 <= j and j < new_size and j < old(len(self._inputs)), self._inputs[j] is old(self._inputs[j])))",
                 "forall(lambda j=int: implies(old(len(self._inputs)) <= j and j < new_size, self._inputs[j] is None))"],
        raises={"ValueError": exc}, modifies=mod + ["$alloc"]))
    # Value.replace_all_uses_with (the rewiring primitive of the passes), for a value that is not a graph output: afterwards
    # every former use reads the replacement, the value itself has no uses left, nothing else moved - and I1 still holds
    USAGE = eng.classes["Usage"].record
    from pyvc.types import BOOL, TSeq
    eng.add_target(Target("Value.replace_all_uses_with", mod=CORE, qual="Value.replace_all_uses_with", self_cls="Value", setup=setup,
        params=dict(replacement=TRef("Value"), replace_graph_outputs=BOOL),
        requires=["uses_wf()", "I1()", "not self._is_graph_output", "nonnull(replacement)", "replacement is not self"],
        loops={1: LoopSpec(invariant=[
                    "uses_wf()", "I1()",
                    # uses not yet visited are still uses of self; visited ones now read the replacement
                    "forall(lambda j=int: implies(k <= j and j < len(it), it[j] in box(self._uses)))",
                    # ... and are in range, so the index check of replace_input_with cannot fire inside the loop
                    "forall(lambda j=int: implies(k <= j and j < len(it), 0 <= it[j].idx and it[j].idx < len(it[j].node._inputs)))",
                    "forall(lambda n=Node, i=int: implies(0 <= i and i < len(n._inputs) and old(n._inputs[i]) is self and not (Usage(n, i) in box(self._uses)), "
                    "n._inputs[i] is replacement))",
                    "forall(lambda u=Usage: implies(u in box(self._uses), k <= keypos(it, u) and keypos(it, u) < len(it) and it[keypos(it, u)] == u))",
                    "forall(lambda j=int: implies(0 <= j and j < len(it), keypos(it, it[j]) == j))",
                    "forall(lambda n=Node: len(n._inputs) == old(len(n._inputs)))",
                    "forall(lambda n=Node, i=int: implies(0 <= i and i < len(n._inputs) and old(n._inputs[i]) is not self, n._inputs[i] is old(n._inputs[i])))"],
                  modifies=mod)},
        ensures=["uses_wf()", "I1()",
                 "forall(lambda n=Node, i=int: implies(0 <= i and i < len(n._inputs), n._inputs[i] is not self))",
                 "forall(lambda n=Node, i=int: implies(0 <= i and i < old(len(n._inputs)) and old(n._inputs[i]) is self, n._inputs[i] is replacement))",
                 "forall(lambda n=Node, i=int: implies(0 <= i and i < old(len(n._inputs)) and old(n._inputs[i]) is not self, n._inputs[i] is old(n._inputs[i])))"],
        raises={"ValueError": exc}, modifies=mod + ["$alloc"],
        dead=["graph = self.graph", "assert graph is not None", "if not replace_graph_outputs", "raise ValueError", "for i, output in enumerate(graph.outputs)",
              "if output is self", "graph.outputs[i] = replacement"]))


def add_resize_outputs_effect_target(eng):
    """Node.resize_outputs: `a rejected edit changes nothing` - every ValueError exit (a removed output still has uses)
    precedes the first store: the outputs tuple, the producer/index slots of every pre-existing value and the device
    configurations are what they were.  Effect contract in lenient mode (validate-before-mutate)."""
    def setup(e, p, env):
        e.lenient = True
    t = Target("Node.resize_outputs[effects]", mod=CORE, qual="Node.resize_outputs", self_cls="Node", params=dict(new_size=INT),
               requires=[], ensures=[], setup=setup,
               raises={"ValueError": ["unchanged_old('Node._outputs', 'Value._producer', 'Value._index', 'Node.device_configurations')", "ir_clean()"]},
               raises_default=[], assert_mode="raise")
    t.local_containers = ("removed_outputs", "new_outputs")
    # the two loops AFTER the validation loop are the mutation: they may write the detached outputs' slots and this node's
    # annotations (the validation loop keeps the default frame: it must be store-free)
    # (keyed by ordinal: the validation loop is loop 0 and must not inherit this frame even if it is rewritten to iterate the
    #  same variable)
    mutation = LoopSpec(invariant=[], modifies=["Value._producer", "Value._index", "Node.device_configurations", "$alloc"])
    t.loops = {1: mutation, 2: mutation}
    eng.add_target(t)


def add_graph_nodelist_effect_targets(eng):
    """Graph.append / extend / insert_after / insert_before / remove: `a rejected edit changes nothing` - every ValueError exit
    (a node of another graph, a node that is not in this graph, an unsafe removal) precedes the first store and the first call
    that could change IR state: the graph reference of every pre-existing node, every node's inputs and the name authority's
    counters are what they were, and no IR-mutating call has run.  Effect contracts in lenient mode (validate-before-mutate);
    what a successful call does to the node list is the DoublyLinkedSet contract (C11)."""
    from pyvc.types import BOOL, TSeq

    from pyvc.core import Exc
    from pyvc.types import VOpaque, VRef

    def ir_mutator(what):
        def impl(e, p, args, kwargs, node):
            # an IR mutation: the path is dirty from here on, the IR heap is arbitrary afterwards, and the call may raise
            p.ghost["$ir_dirty"] = f"{what} at L{node.lineno}"
            e.havoc_heap(p, None)
            return [(p, VOpaque("result of " + what)), (p.copy(), Exc("AnyException", f"L{node.lineno}:{what}"))]
        return impl

    def setup(e, p, env):
        e.lenient = True
        NA = "onnx_ir._name_authority"
        for m in ("register_or_name_node", "register_or_name_value"):
            e.functions[f"{NA}.NameAuthority.{m}"] = FnDecl(f"NameAuthority.{m}", "builtin", impl=ir_mutator(f"name authority {m}"))
        LLM = "onnx_ir._linked_list"
        for m in ("append", "extend", "remove", "insert_after", "insert_before"):
            e.functions[f"{LLM}.DoublyLinkedSet.{m}"] = FnDecl(f"DoublyLinkedSet.{m}", "builtin", impl=ir_mutator(f"node list {m}"))
        e.functions[f"{CORE}.Node.graph#setter"] = FnDecl("Node.graph=", "builtin", impl=ir_mutator("Node.graph setter"))
        e.functions[f"{CORE}.Node.replace_input_with"] = FnDecl("Node.replace_input_with", "builtin", impl=ir_mutator("replace_input_with"))
        orig_iter = e.iter_extra

        def iter_extra(v, p2):
            if isinstance(v, VRef) and v.cls in ("GraphOutputs", "GraphInputs"):
                return e.to_seq(e.read_field(p2, v, "data"), p2)
            return orig_iter(v, p2)
        e.iter_extra = iter_extra
    exc = {"ValueError": ["unchanged_old('Node._graph', 'Node._inputs', 'Node._name', 'Value._name', 'NameAuthority._node_counter', "
                          "'NameAuthority._value_counter')", "ir_clean()"]}
    N = TRef("Node")
    for meth, params, containers, dead in (
            ("append", dict(node=N), (), ()),
            ("extend", dict(nodes=TSeq(N)), ("nodes",), ()),
            ("insert_after", dict(node=N, new_nodes=TSeq(N)), ("new_nodes",), ("new_nodes = (new_nodes,)",)),
            ("insert_before", dict(node=N, new_nodes=TSeq(N)), ("new_nodes",), ("new_nodes = (new_nodes,)",)),
            ("remove", dict(nodes=TSeq(N), safe=BOOL), ("nodes_set", "graph_outputs"), ("nodes_set: AbstractSet[Node] = {nodes}",))):
        t = Target(f"Graph.{meth}[effects]", mod=CORE, qual=f"Graph.{meth}", self_cls="Graph", params=params, requires=[], ensures=[],
                   setup=setup, raises=exc, raises_default=[], assert_mode="raise")
        t.local_containers = containers
        t.dead = list(dead)
        if meth == "remove":
            # loop 0 validates (default frame: store-free, checked); loops 1 and 2 are the mutation
            t.loops = {1: LoopSpec(invariant=[], modifies=None), 2: LoopSpec(invariant=[], modifies=None)}
        eng.add_target(t)
