"""C16, character level: the tokenizer of _symbolic_shapes.py against a reference lexing (maximal munch), on the character model
of pyvc/charmodel.py.

get_token(), from a position p in the text:
  * skips exactly the white space in front: s = the first position >= p that is not white space (or the end);
  * at the end returns None;
  * a digit starts a NUMBER: the maximal run of digits [s, e), payload int(text[s:e]), position e;
  * a letter or '_' starts an IDENT: the maximal run of letters, digits, '_' and '.', payload that run, position e;
  * '//' and '**' are two-character operators (preferred over their one-character prefixes); '+', '-', '*', '/', '%' are
    one-character operators; '(' ')' ',' their own kinds; each advances by exactly its length;
  * anything else raises ValueError and consumes nothing beyond the white space.
A sign is never part of a NUMBER: what a token is depends on the characters from s on only, not on earlier tokens."""
import z3

from pyvc.charmodel import CHAR, TEXT, LexerMixin, is_char, is_text
from pyvc.core import Unsupported
from pyvc.engine import Engine, Target
from pyvc.sem_stmt import LoopSpec
from pyvc.types import BOOL, INT, VBool, VInt, VNone, VStr, VTup, fresh_name

SS = "onnx_ir._symbolic_shapes"


class LexEngine(LexerMixin, Engine):
    """spec helpers over a token (None or a (kind, payload) tuple)"""

    def _tok(self, node, p):
        (q, r), = self.ev(node.args[0], p)
        return r

    def sp_tokkind(self, node, p):
        r = self._tok(node, p)
        want = node.args[1].value
        if isinstance(r, VTup) and len(r.items) == 2:
            return [(p, VBool(self.py_eq(r.items[0], VStr(want), p)))]
        return [(p, VBool(False))]

    def sp_tokint(self, node, p):
        r = self._tok(node, p)
        if isinstance(r, VTup) and isinstance(r.items[1], VInt):
            return [(p, r.items[1])]
        return [(p, VInt(z3.Int(fresh_name("no_int_payload"))))]

    def _payload(self, node, p):
        r = self._tok(node, p)
        return r.items[1] if isinstance(r, VTup) and len(r.items) == 2 else None

    def sp_toklo(self, node, p):
        x = self._payload(node, p)
        return [(p, VInt(x.fields["lo"].z) if x is not None and is_text(x) else VInt(z3.Int(fresh_name("no_text_payload"))))]

    def sp_tokhi(self, node, p):
        x = self._payload(node, p)
        return [(p, VInt(x.fields["hi"].z) if x is not None and is_text(x) else VInt(z3.Int(fresh_name("no_text_payload"))))]

    def sp_tokistext(self, node, p):
        x = self._payload(node, p)
        return [(p, VBool(x is not None and is_text(x)))]

    def sp_tokcode(self, node, p):
        """code point of a one-character payload (a character of the text, or a one-character literal)"""
        x = self._payload(node, p)
        if x is not None and is_char(x):
            return [(p, x.fields["code"])]
        if isinstance(x, VStr):
            s = self._const(x)
            if s is not None and len(s) == 1:
                return [(p, VInt(ord(s)))]
        return [(p, VInt(z3.Int(fresh_name("no_char_payload"))))]


SPEC = '''
def cd(t, i):
    return t.text[i].code

def ident_start(c):
    return ch_isalpha(c) or c == 95

def ident_part(c):
    return ch_isalpha(c) or ch_isdigit(c) or c == 95 or c == 46

def tz_wf(t):
    return t.length == len(t.text) and 0 <= t.pos and t.pos <= t.length and t.text.lo == 0 and t.text.hi >= 0

def skipped(t, p0, s):
    return (p0 <= s and s <= t.length and forall(lambda i=int: implies(p0 <= i and i < s, ch_isspace(cd(t, i)))) and
            (s == t.length or not ch_isspace(cd(t, s))))

def one_char_op(c):
    return c == 43 or c == 45 or c == 42 or c == 47 or c == 37

def two_char_op(t, s):
    return s + 1 < t.length and ((cd(t, s) == 47 and cd(t, s + 1) == 47) or (cd(t, s) == 42 and cd(t, s + 1) == 42))
'''


def build_lexer(eng):
    eng.init_char_model()
    eng.declare_class_from_source(SS, "_ExpressionTokenizer", fields={"text": TEXT, "pos": INT, "length": INT})
    eng.spec_fn(SPEC)
    frame = "self.text.base == old(self.text.base) and self.text.lo == old(self.text.lo) and self.text.hi == old(self.text.hi) and self.length == old(self.length)"
    eng.add_target(Target("_ExpressionTokenizer._skip_whitespace", mod=SS, qual="_ExpressionTokenizer._skip_whitespace", self_cls="_ExpressionTokenizer",
        params={}, requires=["tz_wf(self)"],
        loops={0: LoopSpec(invariant=["tz_wf(self)", "old(self.pos) <= self.pos", frame,
                                      "forall(lambda i=int: implies(old(self.pos) <= i and i < self.pos, ch_isspace(cd(self, i))))"],
                           modifies=["_ExpressionTokenizer.pos"])},
        ensures=["tz_wf(self)", "skipped(self, old(self.pos), self.pos)", frame], modifies=["_ExpressionTokenizer.pos"]))
    from pyvc.core import FnDecl
    skip_c = FnDecl(f"{SS}._ExpressionTokenizer._skip_whitespace", "contract", SS, "_ExpressionTokenizer._skip_whitespace",
                    requires=["tz_wf(self)"], ensures=["tz_wf(self)", "skipped(self, old(self.pos), self.pos)", frame],
                    modifies=["_ExpressionTokenizer.pos"])

    def setup(e, p, env):
        e.functions[f"{SS}._ExpressionTokenizer._skip_whitespace"] = skip_c
    S = "g_s"
    number = (f"implies({S} < self.length and ch_isdigit(cd(self, {S})), tokkind(result, 'NUMBER') and {S} < self.pos and self.pos <= self.length and "
              f"forall(lambda i=int: implies({S} <= i and i < self.pos, ch_isdigit(cd(self, i)))) and "
              "(self.pos == self.length or not ch_isdigit(cd(self, self.pos))) and "
              f"tokint(result) == numval(self.text.base, {S}, self.pos))")
    ident = (f"implies({S} < self.length and not ch_isdigit(cd(self, {S})) and ident_start(cd(self, {S})), tokkind(result, 'IDENT') and "
             f"tokistext(result) and toklo(result) == {S} and tokhi(result) == self.pos and {S} < self.pos and self.pos <= self.length and "
             f"forall(lambda i=int: implies({S} <= i and i < self.pos, ident_part(cd(self, i)))) and "
             "(self.pos == self.length or not ident_part(cd(self, self.pos))))")
    other = f"{S} < self.length and not ch_isdigit(cd(self, {S})) and not ident_start(cd(self, {S}))"
    two = (f"implies({other} and two_char_op(self, {S}), tokkind(result, 'OP') and tokistext(result) and toklo(result) == {S} and "
           f"tokhi(result) == {S} + 2 and self.pos == {S} + 2)")
    one = (f"implies({other} and not two_char_op(self, {S}), self.pos == {S} + 1 and tokcode(result) == cd(self, {S}) and "
           f"iff(tokkind(result, 'OP'), one_char_op(cd(self, {S}))) and iff(tokkind(result, 'LPAREN'), cd(self, {S}) == 40) and "
           f"iff(tokkind(result, 'RPAREN'), cd(self, {S}) == 41) and iff(tokkind(result, 'COMMA'), cd(self, {S}) == 44))")
    eng.add_target(Target("_ExpressionTokenizer.get_token", mod=SS, qual="_ExpressionTokenizer.get_token", self_cls="_ExpressionTokenizer",
        params={}, setup=setup, requires=["tz_wf(self)"],
        ghost_init="g_s = self.pos",
        ghost=[("self._skip_whitespace()", "after", "g_s = self.pos")],
        loops={"while self.pos < self.length and self.text[self.pos].isdigit()": LoopSpec(
                   invariant=["tz_wf(self)", frame, "g_s <= self.pos", "at_loop(self.pos) == g_s",
                              "forall(lambda i=int: implies(g_s <= i and i < self.pos, ch_isdigit(cd(self, i))))"],
                   modifies=["_ExpressionTokenizer.pos"]),
               "while self.pos < self.length and (self.text[self.pos].isalnum() or self.text[self.pos] in '_.')": LoopSpec(
                   invariant=["tz_wf(self)", frame, "g_s <= self.pos", "at_loop(self.pos) == g_s",
                              "forall(lambda i=int: implies(g_s <= i and i < self.pos, ident_part(cd(self, i))))"],
                   modifies=["_ExpressionTokenizer.pos"])},
        ensures=["tz_wf(self)", frame, f"skipped(self, old(self.pos), {S})",
                 f"iff(result is None, {S} == self.length)", f"implies(result is None, self.pos == {S})",
                 number, ident, two, one],
        # a rejected character consumes nothing beyond the white space; a digit run that int() rejects is the only other ValueError
        raises={"ValueError": ["tz_wf(self)", frame, f"skipped(self, old(self.pos), {S})",
                               f"self.pos == {S} or ch_isdigit(cd(self, {S}))",
                               f"implies(self.pos == {S}, {S} < self.length and not ch_isdigit(cd(self, {S})) and not ident_start(cd(self, {S})) and "
                               f"not two_char_op(self, {S}) and not one_char_op(cd(self, {S})) and cd(self, {S}) != 40 and cd(self, {S}) != 41 and cd(self, {S}) != 44)"]},
        modifies=["_ExpressionTokenizer.pos"]))
