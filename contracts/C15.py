"""C15 — generated names never collide: NameAuthority under contract (freshness against everything registered or
generated before, names only accumulate, explicit names never altered); NameFixPass and rename_values: bounded."""
import z3

from pyvc.core import ClassDecl, FnDecl
from pyvc.engine import Engine, Target
from pyvc.sem_stmt import LoopSpec
from pyvc.types import *  # noqa: F401,F403
from pyvc.types import BOOL, INT, STR, TOpt, TRef, TSeq, VStr, VInt, fresh_name
from . import schema

NA = "onnx_ir._name_authority"
LEVEL = "proof"
TRUSTED = ["f-strings are deterministic functions of their formatted values (uninterpreted)"]
NOT_DECIDED = ["termination of the candidate loop (needs injectivity of the name format and finiteness of the seen set)",
               "NameFixPass end to end and rename_values (closures, traversal callbacks, nested dict/list bookkeeping): bounded stand-in"]
BOUNDED = [{"name": "C15 NameFixPass on models with missing/duplicated names across scopes; rename_values over all target assignments (bounded)",
            "script": "bounded_names.py", "args": []}]


class NameEngine(Engine):
    def fstring_model(self, node, p):
        """f"val_{c}" / f"node_{op}_{c}": an uninterpreted function of the formatted values (per template)."""
        import ast
        parts = [v for v in node.values if isinstance(v, ast.FormattedValue)]
        tmpl = "".join(v.value if isinstance(v, ast.Constant) else "{}" for v in node.values)
        res = self.ev_list([v.value for v in parts], p)
        if len(res) != 1 or isinstance(res[0][1], Exception):
            return None
        q, vs = res[0]
        comps = [c for v in vs for c in v.comps()]
        if not comps or any(v.ty is None for v in vs):
            return None
        f = self.ufunc("fmt!" + "".join(ch if ch.isalnum() else "_" for ch in tmpl), [c.sort() for c in comps], STR.sorts()[0])
        return [(q, VStr(f(*comps)))]


ENGINE_CLASS = NameEngine


def build(eng, tier):
    SETN = eng.SET(TOpt(STR))
    eng.declare_class_from_source(NA, "NameAuthority", fields={
        "_value_counter": INT, "_node_counter": INT, "_value_names": SETN, "_node_names": SETN})
    eng.add_class(ClassDecl("Value", fields={"_name": TOpt(STR)}))
    eng.add_class(ClassDecl("Node", fields={"_name": TOpt(STR), "_op_type": STR}))
    # Value.name / Node.name as seen by the authority: plain accessors of _name (the real setter's extra bookkeeping for
    # initializers is covered by C01/C06)
    for cls in ("Value", "Node"):
        eng.method_models = dict(eng.method_models)
    eng.spec_fn('''
def names_grow(s):
    return forall(lambda x=optstr: implies(x in old(box(s)), x in box(s)))
''')
    setf = f"{SETN.cls}.$v"
    for kind, counter, names, params, extra in (
            ("value", "_value_counter", "_value_names", {}, []),
            ("node", "_node_counter", "_node_names", {"op_type": STR}, [])):
        eng.add_target(Target(f"NameAuthority._unique_{kind}_name", mod=NA, qual=f"NameAuthority._unique_{kind}_name",
            self_cls="NameAuthority", params=params, requires=[f"nonnull(self.{names})"],
            loops={0: LoopSpec(invariant=[f"self.{counter} >= old(self.{counter})", f"unchanged({setf!r}, 'NameAuthority.{names}')"],
                               modifies=[f"NameAuthority.{counter}"])},
            ensures=[f"result not in box(self.{names})",                 # never a name registered or generated before
                     # the property asks that counters never shrink (a strict increase is an artefact of the loop shape)
                     f"self.{counter} >= old(self.{counter})", f"unchanged({setf!r}, 'NameAuthority.{names}')"],
            modifies=[f"NameAuthority.{counter}"]))
    # register_or_name_*: attribute `name` of the argument is modelled by the field _name (getter/setter)
    class_name_prop(eng, "Value")
    class_name_prop(eng, "Node")
    for kind, cls, names in (("value", "Value", "_value_names"), ("node", "Node", "_node_names")):
        arg = kind
        eng.add_target(Target(f"NameAuthority.register_or_name_{kind}", mod=NA, qual=f"NameAuthority.register_or_name_{kind}",
            self_cls="NameAuthority", params={arg: TRef(cls)},
            requires=[f"nonnull(self.{names})", f"nonnull({arg})",
                      "self._value_names is not self._node_names"],
            loops={},
            ensures=[f"{arg}._name is not None", f"{arg}._name in box(self.{names})", f"names_grow(self.{names})",
                     # an explicitly given name is never altered
                     f"implies(old({arg}._name) is not None, {arg}._name == old({arg}._name))",
                     # a generated one differs from everything seen before
                     f"implies(old({arg}._name) is None, {arg}._name not in old(box(self.{names})))",
                     f"forall(lambda x=optstr: implies(x in box(self.{names}), x in old(box(self.{names})) or x == {arg}._name))"],
            modifies=[f"NameAuthority._{kind}_counter", setf, f"{cls}._name"]))
        # the inner candidate loop is used through the contract proved above
    for kind, counter, names in (("value", "_value_counter", "_value_names"), ("node", "_node_counter", "_node_names")):
        eng.functions[f"{NA}.NameAuthority._unique_{kind}_name"] = FnDecl(
            f"{NA}.NameAuthority._unique_{kind}_name", "contract", NA, f"NameAuthority._unique_{kind}_name",
            requires=[f"nonnull(self.{names})"],
            ensures=[f"result not in box(self.{names})", f"self.{counter} >= old(self.{counter})"], ret=STR,
            modifies=[f"NameAuthority.{counter}"])


def class_name_prop(eng, cls):
    """obj.name <-> obj._name for the synthetic Value/Node classes of this check."""
    def getter(e, p, args, kwargs, node):
        return [(p, e.read_field(p, args[0], "_name"))]
    orig_attr = eng.attr_extra

    def attr_extra(p, v, name, node, cls=cls, orig=orig_attr):
        if v.cls == cls and name == "name":
            return [(p, eng.read_field(p, v, "_name"))]
        if v.cls == cls and name == "op_type":
            return [(p, eng.read_field(p, v, "_op_type"))]
        return orig(p, v, name, node)
    eng.attr_extra = attr_extra
    orig_set = eng.setattr_extra

    def setattr_extra(p, obj, name, val, node, cls=cls, orig=orig_set):
        from pyvc.sem_stmt import NEXT
        if obj.cls == cls and name == "name":
            eng.write_field(p, obj, "_name", val)
            return [(p, NEXT)]
        return orig(p, obj, name, val, node)
    eng.setattr_extra = setattr_extra

