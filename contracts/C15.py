"""C15 — generated names never collide: NameAuthority under contract (freshness against everything registered or
generated before, names only accumulate, explicit names never altered); NameFixPass and rename_values: bounded."""
import z3

from pyvc.core import ClassDecl, FnDecl
from pyvc.engine import Engine, Target
from pyvc.sem_stmt import LoopSpec
from pyvc.types import *  # noqa: F401,F403
from pyvc.types import BOOL, INT, STR, TOpt, TRef, TSeq, VStr, VInt, fresh_name
from . import schema

NA = "onnx_ir._name_authority"
LEVEL = "proof"
TRUSTED = ["f-strings are deterministic functions of their formatted values (uninterpreted)"]
NOT_DECIDED = ["termination of the candidate loop (needs injectivity of the name format and finiteness of the seen set)",
               "NameFixPass: the per-value / per-node kernels (_find_and_record_next_unique_name, _fix_duplicate_*_name, _assign_*_name) are PROVED "
               "(a name not used before is kept, a new name is never one used before nor one reserved for an unvisited object); the traversal "
               "(scope stack, visiting order) and rename_values' success half: bounded stand-in"]
BOUNDED = [{"name": "C15 NameFixPass on models with missing/duplicated names across scopes; rename_values over all target assignments (bounded)",
            "script": "bounded_names.py", "args": []}]


class NameEngine(Engine):
    def fstring_model(self, node, p):
        """f"val_{c}" / f"node_{op}_{c}": an uninterpreted function of the formatted values (per template)."""
        import ast
        parts = [v for v in node.values if isinstance(v, ast.FormattedValue)]
        tmpl = "".join(v.value if isinstance(v, ast.Constant) else "{}" for v in node.values)
        res = self.ev_list([v.value for v in parts], p)
        if len(res) != 1 or isinstance(res[0][1], Exception):
            return None
        q, vs = res[0]
        comps = [c for v in vs for c in v.comps()]
        if not comps or any(v.ty is None for v in vs):
            return None
        f = self.ufunc("fmt!" + "".join(ch if ch.isalnum() else "_" for ch in tmpl), [c.sort() for c in comps], STR.sorts()[0])
        return [(q, VStr(f(*comps)))]


ENGINE_CLASS = NameEngine


def build(eng, tier):
    SETN = eng.SET(TOpt(STR))
    eng.declare_class_from_source(NA, "NameAuthority", fields={
        "_value_counter": INT, "_node_counter": INT, "_value_names": SETN, "_node_names": SETN})
    eng.add_class(ClassDecl("Value", fields={"_name": TOpt(STR)}))
    eng.add_class(ClassDecl("Node", fields={"_name": TOpt(STR), "_op_type": STR}))
    # Value.name / Node.name as seen by the authority: plain accessors of _name (the real setter's extra bookkeeping for
    # initializers is covered by C01/C06)
    for cls in ("Value", "Node"):
        eng.method_models = dict(eng.method_models)
    eng.spec_fn('''
def names_grow(s):
    return forall(lambda x=optstr: implies(x in old(box(s)), x in box(s)))
''')
    setf = f"{SETN.cls}.$v"
    for kind, counter, names, params, extra in (
            ("value", "_value_counter", "_value_names", {}, []),
            ("node", "_node_counter", "_node_names", {"op_type": STR}, [])):
        eng.add_target(Target(f"NameAuthority._unique_{kind}_name", mod=NA, qual=f"NameAuthority._unique_{kind}_name",
            self_cls="NameAuthority", params=params, requires=[f"nonnull(self.{names})"],
            loops={0: LoopSpec(invariant=[f"self.{counter} >= old(self.{counter})", f"unchanged({setf!r}, 'NameAuthority.{names}')"],
                               modifies=[f"NameAuthority.{counter}"])},
            ensures=[f"result not in box(self.{names})",                 # never a name registered or generated before
                     # the property asks that counters never shrink (a strict increase is an artefact of the loop shape)
                     f"self.{counter} >= old(self.{counter})", f"unchanged({setf!r}, 'NameAuthority.{names}')"],
            modifies=[f"NameAuthority.{counter}"]))
    # register_or_name_*: attribute `name` of the argument is modelled by the field _name (getter/setter)
    class_name_prop(eng, "Value")
    class_name_prop(eng, "Node")
    for kind, cls, names in (("value", "Value", "_value_names"), ("node", "Node", "_node_names")):
        arg = kind
        eng.add_target(Target(f"NameAuthority.register_or_name_{kind}", mod=NA, qual=f"NameAuthority.register_or_name_{kind}",
            self_cls="NameAuthority", params={arg: TRef(cls)},
            requires=[f"nonnull(self.{names})", f"nonnull({arg})",
                      "self._value_names is not self._node_names"],
            loops={},
            ensures=[f"{arg}._name is not None", f"{arg}._name in box(self.{names})", f"names_grow(self.{names})",
                     # an explicitly given name is never altered
                     f"implies(old({arg}._name) is not None, {arg}._name == old({arg}._name))",
                     # a generated one differs from everything seen before
                     f"implies(old({arg}._name) is None, {arg}._name not in old(box(self.{names})))",
                     f"forall(lambda x=optstr: implies(x in box(self.{names}), x in old(box(self.{names})) or x == {arg}._name))"],
            modifies=[f"NameAuthority._{kind}_counter", setf, f"{cls}._name"]))
        # the inner candidate loop is used through the contract proved above
    for kind, counter, names in (("value", "_value_counter", "_value_names"), ("node", "_node_counter", "_node_names")):
        eng.functions[f"{NA}.NameAuthority._unique_{kind}_name"] = FnDecl(
            f"{NA}.NameAuthority._unique_{kind}_name", "contract", NA, f"NameAuthority._unique_{kind}_name",
            requires=[f"nonnull(self.{names})"],
            ensures=[f"result not in box(self.{names})", f"self.{counter} >= old(self.{counter})"], ret=STR,
            modifies=[f"NameAuthority.{counter}"])


def class_name_prop(eng, cls):
    """obj.name <-> obj._name for the synthetic Value/Node classes of this check."""
    def getter(e, p, args, kwargs, node):
        return [(p, e.read_field(p, args[0], "_name"))]
    orig_attr = eng.attr_extra

    def attr_extra(p, v, name, node, cls=cls, orig=orig_attr):
        if v.cls == cls and name == "name":
            return [(p, eng.read_field(p, v, "_name"))]
        if v.cls == cls and name == "op_type":
            return [(p, eng.read_field(p, v, "_op_type"))]
        return orig(p, v, name, node)
    eng.attr_extra = attr_extra
    orig_set = eng.setattr_extra

    def setattr_extra(p, obj, name, val, node, cls=cls, orig=orig_set):
        from pyvc.sem_stmt import NEXT
        if obj.cls == cls and name == "name":
            eng.write_field(p, obj, "_name", val)
            return [(p, NEXT)]
        return orig(p, obj, name, val, node)
    eng.setattr_extra = setattr_extra



# ------------------------------------------------------------------------------------------------------------------
# NameFixPass kernels (passes/common/naming.py): the per-value / per-node steps and the candidate loop
NM = "onnx_ir.passes.common.naming"


def add_namefix_targets(eng):
    """`After the name-fixing pass ... value names are unique within every graph ..., names that were already unique are kept`:
    the kernels every value and node goes through.
      _find_and_record_next_unique_name : the result is not a name used before, is recorded, is the preferred name itself or
                                          not a reserved name (a name still carried by an object that has not been visited);
                                          nothing else is added to the used set, the reserved set is untouched.
      _fix_duplicate_value/node_name    : a name not used before is KEPT (returns False, the name is recorded); otherwise the
                                          new name is not a name used before (returns True).
      _assign_value/node_name           : the new name is not a name used before.
    The traversal (scopes pushed/popped, inputs/outputs/initializers first) is the bounded stand-in's."""
    SETS = eng.SET(TOpt(STR))        # names read from Value.name / Node.name are Optional[str]
    CNT = eng.COUNTER(STR)
    eng.declare_class_from_source(NM, "NameFixPass", fields={"_name_generator": TRef("NameGen"), "_reserved_value_names": SETS, "_reserved_node_names": SETS})
    eng.add_class(ClassDecl("NameGen"))
    eng.method_models = dict(eng.method_models)
    for m in ("generate_value_name", "generate_node_name"):
        eng.method_models[("NameGen", m)] = FnDecl(f"NameGenerator.{m}", "contract", None, None, params=["self", "obj"], requires=[], ensures=[],
                                                  ret=STR, modifies=[], pure=True)
    used_grows = ("forall(lambda x=optstr: iff(x in box(used_names), old(x in box(used_names)) or x == result))")
    find_ens = ["not old(result in box(used_names))", "result in box(used_names)", used_grows,
                "result == preferred_name or not (result in box(reserved_names))",
                "unchanged(%r) or used_names is reserved_names" % (SETS.cls + ".$v") if False else "forall(lambda x=optstr: (x in box(reserved_names)) == old(x in box(reserved_names))) or used_names is reserved_names"]
    eng.add_target(Target("_find_and_record_next_unique_name", mod=NM, qual="_find_and_record_next_unique_name",
        params=dict(preferred_name=STR, used_names=SETS, counter=CNT, reserved_names=SETS),
        requires=["nonnull(used_names)", "nonnull(counter)", "nonnull(reserved_names)", "used_names is not reserved_names"],
        loops={0: LoopSpec(invariant=["unchanged(%r)" % (SETS.cls + ".$v"), "nonnull(used_names)", "nonnull(reserved_names)"], modifies=[CNT.cls + ".$v"])},
        ensures=find_ens, modifies=[SETS.cls + ".$v", CNT.cls + ".$v"]))
    find_c = FnDecl(f"{NM}._find_and_record_next_unique_name", "contract", NM, "_find_and_record_next_unique_name",
        requires=["nonnull(used_names)", "nonnull(counter)", "nonnull(reserved_names)", "used_names is not reserved_names"],
        ensures=find_ens, ret=STR, modifies=[SETS.cls + ".$v", CNT.cls + ".$v"])

    def setup(e, p, env):
        e.functions[f"{NM}._find_and_record_next_unique_name"] = find_c
        e.global_overrides[(NM, "logger")] = __import__("pyvc.types", fromlist=["VOpaque"]).VOpaque("logger")
    for kind, cls, res in (("value", "Value", "_reserved_value_names"), ("node", "Node", "_reserved_node_names")):
        obj = kind
        pre = ["nonnull(%s)" % obj, "nonnull(used_names)", "nonnull(counter)", f"nonnull(self.{res})", f"used_names is not self.{res}",
               "nonnull(self._name_generator)"]
        kept = (f"implies(not old({obj}._name in box(used_names)), result == False and {obj}._name == old({obj}._name) and "
                f"forall(lambda x=optstr: iff(x in box(used_names), old(x in box(used_names)) or x == old({obj}._name))))")
        renamed = (f"implies(old({obj}._name in box(used_names)), result == True and {obj}._name is not None and "
                   f"forall(lambda x=optstr: implies(x == {obj}._name, not old(x in box(used_names)))) and {obj}._name in box(used_names))")
        eng.add_target(Target(f"NameFixPass._fix_duplicate_{kind}_name", mod=NM, qual=f"NameFixPass._fix_duplicate_{kind}_name", self_cls="NameFixPass",
            params={obj: TRef(cls), "used_names": SETS, "counter": CNT}, setup=setup,
            requires=pre + [f"{obj}._name is not None and some({obj}._name) != ''"],
            ensures=[kept, renamed], raises={"AssertionError": []},
            modifies=[SETS.cls + ".$v", CNT.cls + ".$v", f"{cls}._name"]))
        eng.add_target(Target(f"NameFixPass._assign_{kind}_name", mod=NM, qual=f"NameFixPass._assign_{kind}_name", self_cls="NameFixPass",
            params={obj: TRef(cls), "used_names": SETS, "counter": CNT}, setup=setup,
            requires=pre + [f"{obj}._name is None or some({obj}._name) == ''"],
            ensures=["result == True", f"{obj}._name is not None", f"forall(lambda x=optstr: implies(x == {obj}._name, not old(x in box(used_names))))",
                     f"{obj}._name in box(used_names)"],
            raises={"AssertionError": []}, modifies=[SETS.cls + ".$v", CNT.cls + ".$v", f"{cls}._name"]))


_build15 = build


def build(eng, tier):
    _build15(eng, tier)
    add_namefix_targets(eng)
