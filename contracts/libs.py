"""Assumed contracts of library functions (trusted; listed in evidence)."""
import z3
from pyvc.types import STR, VStr, VBool, VInt, VNone, VOpaque, fresh_name, VRef


def _ss():
    return STR.sorts()[0]


def uf_str(name, arity):
    def model(eng, p, args, kwargs, node):
        f = eng.ufunc(name, [_ss()] * arity, _ss())
        zs = []
        for a in args[:arity]:
            if isinstance(a, VStr):
                zs.append(a.z)
            else:
                zs.append(z3.Const(fresh_name("pathlike"), _ss()))
        eng.assumptions_used.add(f"{name}: deterministic function of its string arguments (library contract, trusted)")
        return [(p, VStr(f(*zs)))]
    return model


def install_os_path(eng):
    eng.lib_models.update({
        "os.path.join": uf_str("os.path.join", 2),
        "os.path.normpath": uf_str("os.path.normpath", 1),
        "os.path.basename": uf_str("os.path.basename", 1),
        "os.path.dirname": uf_str("os.path.dirname", 1),
        "os.path.abspath": uf_str("os.path.abspath", 1),
        "os.path.realpath": uf_str("os.path.realpath", 1),
        "os.path.normcase": uf_str("os.path.normcase", 1),
        "os.fspath": uf_str("os.fspath", 1),
    })
