"""C16 — symbolic dimensions compute with exact integer/rational semantics.

Deductive part (relative to the assumed SymPy algebra of pyvc/symmodel.py):
 * every arithmetic dunder of SymbolicDim (+, -, *, //, /, %, unary -, floor, ceil, trunc; int operands on either
   side) returns a dimension whose expression *denotes*, under every binding, the exact result of the operator applied
   to the operands' denotations; unknown (None) dimensions propagate;
 * the recursive-descent parser gives every token sequence the meaning the reference grammar (standard precedence
   and associativity) assigns to it - one modular contract per _parse_* function.
evaluate / simplify / the SymPy printer (str) and hence print -> parse are SymPy itself: bounded stand-in only."""
import z3

from pyvc.core import ClassDecl, FnDecl
from pyvc.engine import Engine, Target
from pyvc.sem_stmt import LoopSpec
from pyvc.symmodel import SymEngine, TBeta
from pyvc.types import *  # noqa: F401,F403
from pyvc.types import BOOL, INT, STR, TOpt, TRef, TSeq

CORE = "onnx_ir._core"
SS = "onnx_ir._symbolic_shapes"
LEVEL = "proof"
ENGINE_CLASS = SymEngine
TRUSTED = ["SymPy algebra (pyvc/symmodel.py): each SymPy constructor used denotes the standard arithmetic operation",
           "parse_symbolic_expression(text) is a deterministic function of text (its own contract is proved separately)"]
NOT_DECIDED = ["SymbolicDim.evaluate / simplify / free_symbols, Shape.evaluate / simplify, str(expr) (SymPy printer) and therefore "
               "print -> parse -> evaluate: SymPy itself, bounded stand-in only",
               "the tokenizer's character-level behaviour (unicode classes): bounded stand-in only"]
BOUNDED = [{"name": "C16 expression trees x bindings vs exact Fraction arithmetic; print->parse->evaluate; grammar strings vs reference evaluator (bounded)",
            "script": "bounded_symbolic.py", "args": []}]

SPEC = '''
def dim_ok(d):
    return nonnull(d) and iff(d._value is None, d._expr_cache is None)

def unknown(d):
    return d._value is None

def known_expr(d):
    return ite(d._expr_cache is None, parse_of(some(d._value)), d._expr_cache)
'''


def build(eng, tier):
    eng.add_class(ClassDecl("SymbolicDim", mod=None))
    eng.classes.pop("SymbolicDim")
    eng.declare_class_from_source(CORE, "SymbolicDim", fields={"_value": TOpt(STR), "_expr_cache": TRef("SymExpr")}, bases=[])
    parse_of = z3.Function("parse_of", STR.sorts()[0], Ref)
    print_of = z3.Function("print_of", Ref, STR.sorts()[0])
    eng.spec_ufuncs["parse_of"] = (parse_of, TRef("SymExpr"))
    eng.spec_fn(SPEC)
    eng.functions[f"{SS}.parse_symbolic_expression"] = FnDecl(
        f"{SS}.parse_symbolic_expression", "contract", SS, "parse_symbolic_expression", params=["value"],
        requires=[], ensures=["nonnull(result)", "result is parse_of(value)"], raises={"ValueError": []},
        ret=TRef("SymExpr"), modifies=[])
    DIM = TRef("SymbolicDim")
    from pyvc.types import VOpaque
    eng.global_overrides[(CORE, "NotImplemented")] = VOpaque("NotImplemented")
    # exact arithmetic meaning of each operator (taken from the property statement), over the reals:
    #   x, y = denotations of the operands under an arbitrary binding b
    OPS = {
        "__add__": ("x + y", True, True), "__radd__": ("y + x", True, False),
        "__sub__": ("x - y", True, True), "__rsub__": ("y - x", True, False),
        "__mul__": ("x * y", True, True), "__rmul__": ("y * x", True, False),
        "__floordiv__": ("floor_(rdiv(x, y))", True, True),
        "__truediv__": ("rdiv(x, y)", True, True), "__rtruediv__": ("rdiv(y, x)", True, False),
        "__mod__": ("x - y * floor_(rdiv(x, y))", True, True),
    }
    nonzero = {"__floordiv__": "y", "__truediv__": "y", "__rtruediv__": "x", "__mod__": "y"}
    for meth, (formula, with_int, with_dim) in OPS.items():
        for kind in (["int"] if with_int else []) + (["dim"] if with_dim else []):
            X = "den(old(known_expr(self)), b)"
            Y = "real(other)" if kind == "int" else "den(old(known_expr(other)), b)"
            f = formula.replace("x", "§X").replace("y", "§Y").replace("§X", X).replace("§Y", Y)
            nz = nonzero.get(meth)
            guard = "True" if nz is None else (f"{X if nz == 'x' else Y} != real(0)")
            req = ["dim_ok(self)"] + (["dim_ok(other)"] if kind == "dim" else [])
            unk = "old(unknown(self))" + (" or old(unknown(other))" if kind == "dim" else "")
            eng.add_target(Target(f"SymbolicDim.{meth}[{kind}]", mod=CORE, qual=f"SymbolicDim.{meth}", self_cls="SymbolicDim",
                params={"other": INT if kind == "int" else DIM}, requires=req,
                ensures=["dim_ok(result)", "fresh(result)",
                         f"implies({unk}, unknown(result))",
                         f"implies(not ({unk}), not unknown(result) and nonnull(result._expr_cache) and "
                         f"forall(lambda b=beta: implies({guard}, den(result._expr_cache, b) == {f})))",
                         # the operands are not changed (their cached expression may be filled in: same denotation by definition)
                         "self._value == old(self._value)"],
                raises={"ValueError": []}))
            eng.targets[-1].cover_group = f"SymbolicDim.{meth}"
        # any other operand type: NotImplemented (Python then tries the reflected operation / raises TypeError)
        eng.add_target(Target(f"SymbolicDim.{meth}[other]", mod=CORE, qual=f"SymbolicDim.{meth}", self_cls="SymbolicDim",
            params={"other": STR}, requires=["dim_ok(self)", "not unknown(self)"], ensures=["self._value == old(self._value)"],
            raises={"ValueError": []}))
        eng.targets[-1].cover_group = f"SymbolicDim.{meth}"
    UN = {"__neg__": "-x", "__floor__": "floor_(x)", "__ceil__": "-floor_(-x)",
          "__trunc__": "ite(x >= real(0), floor_(x), -floor_(-x))"}
    for meth, formula in UN.items():
        X = "den(old(known_expr(self)), b)"
        eng.add_target(Target(f"SymbolicDim.{meth}", mod=CORE, qual=f"SymbolicDim.{meth}", self_cls="SymbolicDim",
            params={}, requires=["dim_ok(self)"],
            ensures=["dim_ok(result)", "fresh(result)", "implies(old(unknown(self)), unknown(result))",
                     "implies(not old(unknown(self)), not unknown(result) and nonnull(result._expr_cache) and "
                     f"forall(lambda b=beta: den(result._expr_cache, b) == {formula.replace('x', X)}))",
                     "self._value == old(self._value)"],
            raises={"ValueError": []}))
