"""C16 — symbolic dimensions compute with exact integer/rational semantics.

Deductive part (relative to the assumed SymPy algebra of pyvc/symmodel.py):
 * every arithmetic dunder of SymbolicDim (+, -, *, //, /, %, unary -, floor, ceil, trunc; int operands on either
   side) returns a dimension whose expression *denotes*, under every binding, the exact result of the operator applied
   to the operands' denotations; unknown (None) dimensions propagate;
 * the recursive-descent parser gives every token sequence the meaning the reference grammar (standard precedence
   and associativity) assigns to it - one modular contract per _parse_* function.
evaluate / simplify / the SymPy printer (str) and hence print -> parse are SymPy itself: bounded stand-in only."""
import z3

from pyvc.core import ClassDecl, FnDecl
from pyvc.engine import Engine, Target
from pyvc.sem_stmt import LoopSpec
from pyvc.symmodel import ParserMixin, SymEngine, TBeta, TTokVal, VFnTable, VTokVal
from pyvc.types import *  # noqa: F401,F403
from pyvc.types import BOOL, INT, STR, TOpt, TRef, TSeq

CORE = "onnx_ir._core"
SS = "onnx_ir._symbolic_shapes"
LEVEL = "proof"
REPLAY_UNDISCHARGED = True      # an obligation that fails to discharge is replayed by the directed bounded search


class C16Engine(ParserMixin, SymEngine):
    def __init__(self, prop):
        super().__init__(prop)
        self.init_parser_model()

    def sp_tokat(self, node, p):
        """tokat(k): the k-th token of the stream as the Python value get_token() returns (None at/after the end)."""
        from pyvc.types import VOpt, VTup, VStr
        g = self.grammar

        def k(q, v):
            i = v.z
            return [(q, VOpt(z3.Or(i < 0, i >= g.NT), VTup([VStr(g.tok_kind(i)), VTokVal(g.tok_isint(i), g.tok_s(i), g.tok_n(i))])))]
        return self.bind(self.ev(node.args[0], p), k)

    def sp_lexerr(self, node, p):
        from pyvc.types import VBool
        return [(p, VBool(self.grammar.LEXERR))]

    def sp_NT(self, node, p):
        from pyvc.types import VInt
        return [(p, VInt(self.grammar.NT))]

    def sp_is_tok(self, node, p):
        """is_tok(k, kind): token k exists and has this kind."""
        from pyvc.types import VBool
        return self.bind(self.ev_list(node.args, p), lambda q, vs: [(q, VBool(self.grammar.K(vs[0].z, node.args[1].value)))])


ENGINE_CLASS = C16Engine
# the tokenizer at character level (contracts/c16_lexer.py) runs in its own engine: the parser targets model the same class
# through a ghost token stream
from .c16_lexer import LexEngine, build_lexer  # noqa: E402
SUB_ENGINES = [(LexEngine, lambda eng, tier: build_lexer(eng))]
TRUSTED = ["SymPy algebra (pyvc/symmodel.py): each SymPy constructor used denotes the standard arithmetic operation",
           "parse_symbolic_expression(text) is a deterministic function of text (its own contract is proved separately)"]
NOT_DECIDED = ["SymbolicDim.evaluate / simplify / free_symbols, Shape.evaluate / simplify, str(expr) (SymPy printer) and therefore "
               "print -> parse -> evaluate: SymPy itself, bounded stand-in only",
               "the tokenizer is PROVED against a reference lexing at character level (contracts/c16_lexer.py: maximal munch, white space, "
               "two-character operators first, no signed numbers) relative to the character model of pyvc/charmodel.py; what "
               "str.isdigit/isalpha/isspace answer for a given code point: bounded stand-in only"]
BOUNDED = [{"name": "C16 expression trees x bindings vs exact Fraction arithmetic; print->parse->evaluate; grammar strings vs reference evaluator (bounded)",
            "script": "bounded_symbolic.py", "args": []}]

SPEC = '''
def dim_ok(d):
    return nonnull(d) and iff(d._value is None, d._expr_cache is None)

def unknown(d):
    return d._value is None

def known_expr(d):
    return ite(d._expr_cache is None, parse_of(some(d._value)), d._expr_cache)
'''


def build(eng, tier):
    eng.add_class(ClassDecl("SymbolicDim", mod=None))
    eng.classes.pop("SymbolicDim")
    eng.declare_class_from_source(CORE, "SymbolicDim", fields={"_value": TOpt(STR), "_expr_cache": TRef("SymExpr")}, bases=[])
    parse_of = z3.Function("parse_of", STR.sorts()[0], Ref)
    print_of = z3.Function("print_of", Ref, STR.sorts()[0])
    eng.spec_ufuncs["parse_of"] = (parse_of, TRef("SymExpr"))
    eng.spec_fn(SPEC)
    eng.functions[f"{SS}.parse_symbolic_expression"] = FnDecl(
        f"{SS}.parse_symbolic_expression", "contract", SS, "parse_symbolic_expression", params=["value"],
        requires=[], ensures=["nonnull(result)", "result is parse_of(value)"], raises={"ValueError": []},
        ret=TRef("SymExpr"), modifies=[])
    DIM = TRef("SymbolicDim")
    from pyvc.types import VOpaque
    eng.global_overrides[(CORE, "NotImplemented")] = VOpaque("NotImplemented")
    # exact arithmetic meaning of each operator (taken from the property statement), over the reals:
    #   x, y = denotations of the operands under an arbitrary binding b
    OPS = {
        "__add__": ("x + y", True, True), "__radd__": ("y + x", True, False),
        "__sub__": ("x - y", True, True), "__rsub__": ("y - x", True, False),
        "__mul__": ("x * y", True, True), "__rmul__": ("y * x", True, False),
        "__floordiv__": ("floor_(rdiv(x, y))", True, True),
        "__truediv__": ("rdiv(x, y)", True, True), "__rtruediv__": ("rdiv(y, x)", True, False),
        "__mod__": ("x - y * floor_(rdiv(x, y))", True, True),
    }
    nonzero = {"__floordiv__": "y", "__truediv__": "y", "__rtruediv__": "x", "__mod__": "y"}
    for meth, (formula, with_int, with_dim) in OPS.items():
        for kind in (["int"] if with_int else []) + (["dim"] if with_dim else []):
            X = "den(old(known_expr(self)), b)"
            Y = "real(other)" if kind == "int" else "den(old(known_expr(other)), b)"
            f = formula.replace("x", "§X").replace("y", "§Y").replace("§X", X).replace("§Y", Y)
            nz = nonzero.get(meth)
            guard = "True" if nz is None else (f"{X if nz == 'x' else Y} != real(0)")
            req = ["dim_ok(self)"] + (["dim_ok(other)"] if kind == "dim" else [])
            unk = "old(unknown(self))" + (" or old(unknown(other))" if kind == "dim" else "")
            eng.add_target(Target(f"SymbolicDim.{meth}[{kind}]", mod=CORE, qual=f"SymbolicDim.{meth}", self_cls="SymbolicDim",
                params={"other": INT if kind == "int" else DIM}, requires=req,
                ensures=["dim_ok(result)", "fresh(result)",
                         f"implies({unk}, unknown(result))",
                         f"implies(not ({unk}), not unknown(result) and nonnull(result._expr_cache) and "
                         f"forall(lambda b=beta: implies({guard}, den(result._expr_cache, b) == {f})))",
                         # the operands are not changed (their cached expression may be filled in: same denotation by definition)
                         "self._value == old(self._value)"],
                raises={"ValueError": []}))
            eng.targets[-1].cover_group = f"SymbolicDim.{meth}"
        # any other operand type: NotImplemented (Python then tries the reflected operation / raises TypeError)
        eng.add_target(Target(f"SymbolicDim.{meth}[other]", mod=CORE, qual=f"SymbolicDim.{meth}", self_cls="SymbolicDim",
            params={"other": STR}, requires=["dim_ok(self)", "not unknown(self)"], ensures=["self._value == old(self._value)"],
            raises={"ValueError": []}))
        eng.targets[-1].cover_group = f"SymbolicDim.{meth}"
    UN = {"__neg__": "-x", "__floor__": "floor_(x)", "__ceil__": "-floor_(-x)",
          "__trunc__": "ite(x >= real(0), floor_(x), -floor_(-x))"}
    for meth, formula in UN.items():
        X = "den(old(known_expr(self)), b)"
        eng.add_target(Target(f"SymbolicDim.{meth}", mod=CORE, qual=f"SymbolicDim.{meth}", self_cls="SymbolicDim",
            params={}, requires=["dim_ok(self)"],
            ensures=["dim_ok(result)", "fresh(result)", "implies(old(unknown(self)), unknown(result))",
                     "implies(not old(unknown(self)), not unknown(result) and nonnull(result._expr_cache) and "
                     f"forall(lambda b=beta: den(result._expr_cache, b) == {formula.replace('x', X)}))",
                     "self._value == old(self._value)"],
            raises={"ValueError": []}))
    build_parser(eng, tier)


# ------------------------------------------------------------------------------------------------------------------
# The parser: one modular contract per _parse_* function against the reference grammar (contracts/c16_grammar.py)

REQUIRED_FUNCTIONS = {"max": "Max", "Max": "Max", "min": "Min", "Min": "Min", "floor": "floor", "sqrt": "sqrt", "mod": "Mod", "Mod": "Mod"}

PSPEC = '''
def pos(s):
    return s.tokenizer.g_idx - 1

def P_ok(s):
    return nonnull(s.tokenizer) and s.tokenizer.g_idx >= 1 and s.current_token == tokat(s.tokenizer.g_idx - 1)
'''


def read_function_table():
    """_ALLOWED_FUNCTIONS as written in the real source: [(name, sympy function name)]."""
    import ast
    from pyvc import extract
    _, tree = extract.load_module(SS)
    for n in tree.body:
        tgt = n.target if isinstance(n, ast.AnnAssign) else (n.targets[0] if isinstance(n, ast.Assign) else None)
        if isinstance(tgt, ast.Name) and tgt.id == "_ALLOWED_FUNCTIONS" and isinstance(n.value, ast.Dict):
            out = []
            for k, v in zip(n.value.keys, n.value.values):
                if not (isinstance(k, ast.Constant) and isinstance(v, ast.Attribute) and isinstance(v.value, ast.Name) and v.value.id == "sympy"):
                    raise ValueError("unexpected entry in _ALLOWED_FUNCTIONS: " + ast.unparse(k))
                out.append((k.value, v.attr))
            return out
    raise ValueError("_ALLOWED_FUNCTIONS not found")


def build_parser(eng, tier):
    from pyvc.core import Exc
    from pyvc.types import TTup, VInt, VNone, VOpt, VStr, VTup
    from .c16_grammar import Grammar
    table = read_function_table()
    g = eng.grammar = Grammar(eng, table)
    # the function table must give every documented function its standard meaning (static obligation on the real dict)
    have = dict(table)
    for k, fn in REQUIRED_FUNCTIONS.items():
        eng.add_static(f"_ALLOWED_FUNCTIONS/{k}", have.get(k) == fn, f"function table maps {k!r} to sympy.{have.get(k)} (documented meaning: sympy.{fn})",
                       backend="table comparison on the real source")
    eng.global_overrides[(SS, "_ALLOWED_FUNCTIONS")] = VFnTable(table)
    TOK = TOpt(TTup([STR, TTokVal()]))
    eng.declare_class_from_source(SS, "_ExpressionTokenizer", fields={"text": STR, "pos": INT, "length": INT, "g_idx": INT}, bases=[])
    eng.declare_class_from_source(SS, "_ExpressionParser", fields={"tokenizer": TRef("_ExpressionTokenizer"), "text": STR, "current_token": TOK}, bases=[])
    eng.spec_fn(PSPEC)

    def get_token(e, p, args, kwargs, node):
        """Contract of the tokenizer as the parser sees it: the k-th call returns the k-th token of the stream, then
        None for ever - or raises ValueError at the first character that starts no token (LEXERR)."""
        tk = args[0]
        idx = e.read_field(p, tk, "g_idx")
        outs = []
        pin, pout = e.fork(p, z3.And(idx.z >= 0, idx.z < g.NT), "tok")
        if pin is not None:
            e.write_field(pin, tk, "g_idx", VInt(idx.z + 1))
            i = idx.z
            outs.append((pin, VOpt(False, VTup([VStr(g.tok_kind(i)), VTokVal(g.tok_isint(i), g.tok_s(i), g.tok_n(i))]))))
        if pout is not None:
            perr, pend = e.fork(pout, g.LEXERR, "lexerr")
            if perr is not None:
                outs.append((perr, Exc("ValueError", f"L{node.lineno}:get_token")))
            if pend is not None:
                e.write_field(pend, tk, "g_idx", VInt(idx.z + 1))
                outs.append((pend, VNone()))
        return outs
    eng.functions[f"{SS}._ExpressionTokenizer.get_token"] = FnDecl(f"{SS}._ExpressionTokenizer.get_token", "builtin", impl=get_token)
    MOD = ["_ExpressionParser.current_token", "_ExpressionTokenizer.g_idx"]
    FUNCS = {"_parse_expr": "expr", "_parse_term": "term", "_parse_unary": "unary", "_parse_power": "power", "_parse_primary": "primary"}

    def contract(X, at="old(pos(self))", pre=()):
        return dict(requires=["P_ok(self)"] + list(pre),
                    ensures=["P_ok(self)", f"{X}_ok({at})", f"result is {X}_e({at})", "nonnull(result)", f"pos(self) == {X}_n({at})",
                             "self.tokenizer is old(self.tokenizer)"],
                    raises={"ValueError": [f"not {X}_ok({at}) or lexerr()"]})
    for meth, X in FUNCS.items():
        c = contract(X)
        eng.functions[f"{SS}._ExpressionParser.{meth}"] = FnDecl(f"{SS}._ExpressionParser.{meth}", "contract", SS, f"_ExpressionParser.{meth}",
                                                                  ret=TRef("SymExpr"), modifies=MOD, **c)
    callpre = ["pos(self) >= 1", "is_tok(pos(self) - 1, 'IDENT')", "name == tokat(pos(self) - 1)[1]", "is_tok(pos(self), 'LPAREN')"]
    cc = contract("call", at="old(pos(self)) - 1", pre=callpre)
    eng.functions[f"{SS}._ExpressionParser._parse_function_call"] = FnDecl(
        f"{SS}._ExpressionParser._parse_function_call", "contract", SS, "_ExpressionParser._parse_function_call",
        ret=TRef("SymExpr"), modifies=MOD, **cc)
    LEXPR = eng.LIST(TRef("SymExpr"))
    loops = {
        "_parse_expr": {0: LoopSpec(invariant=["P_ok(self)", "self.tokenizer is old(self.tokenizer)", "U_efold(pos(self), left)", "nonnull(left)",
                                               "efold_ok(pos(self), left) == old(expr_ok(pos(self)))",
                                               "implies(old(expr_ok(pos(self))), efold_e(pos(self), left) is old(expr_e(pos(self))) and "
                                               "efold_n(pos(self), left) == old(expr_n(pos(self))))"], modifies=MOD)},
        "_parse_term": {0: LoopSpec(invariant=["P_ok(self)", "self.tokenizer is old(self.tokenizer)", "U_tfold(pos(self), left)", "nonnull(left)",
                                               "tfold_ok(pos(self), left) == old(term_ok(pos(self)))",
                                               "implies(old(term_ok(pos(self))), tfold_e(pos(self), left) is old(term_e(pos(self))) and "
                                               "tfold_n(pos(self), left) == old(term_n(pos(self))))"], modifies=MOD)},
    }
    for meth, X in FUNCS.items():
        c = contract(X)
        eng.add_target(Target(f"_ExpressionParser.{meth}", mod=SS, qual=f"_ExpressionParser.{meth}", self_cls="_ExpressionParser",
                              params={}, requires=c["requires"] + [f"U_{X}(pos(self))"], ensures=c["ensures"], raises=c["raises"],
                              loops=loops.get(meth, {}), modifies=MOD + ["$alloc"], assert_mode="raise"))
    # the function call: IDENT at pos-1, '(' at pos; the argument list is a left fold over ',' separated expressions
    eng.add_target(Target("_ExpressionParser._parse_function_call", mod=SS, qual="_ExpressionParser._parse_function_call",
        self_cls="_ExpressionParser", params={"name": TTokVal()},
        requires=cc["requires"] + ["U_call(pos(self) - 1)"], ensures=cc["ensures"], raises=cc["raises"],
        local_types={"args": LEXPR},
        loops={0: LoopSpec(invariant=[
            "P_ok(self)", "self.tokenizer is old(self.tokenizer)", "U_afold(pos(self), Seq(args))", "len(args) >= 1",
            "forall(lambda k=int: implies(0 <= k and k < len(args), nonnull(args[k])))",
            "afold_ok(pos(self), Seq(args)) == at_loop(afold_ok(pos(self), Seq(args)))",
            "implies(at_loop(afold_ok(pos(self), Seq(args))), afold_n(pos(self), Seq(args)) == at_loop(afold_n(pos(self), Seq(args))) and "
            "afold_len(pos(self), Seq(args)) == at_loop(afold_len(pos(self), Seq(args))) and "
            "afold_arr(pos(self), Seq(args)) == at_loop(afold_arr(pos(self), Seq(args))))"],
            modifies=MOD + [f"{LEXPR.cls}.$v"])},
        modifies=MOD + ["$alloc", f"{LEXPR.cls}.$v"], assert_mode="raise"))
    # construction: the tokenizer starts at token 0; the parser reads the first token
    def tokenizer_init(e, p, args, kwargs, node):
        tk = args[0]
        e.write_field(p, tk, "text", args[1])
        e.write_field(p, tk, "g_idx", VInt(0))
        return [(p, VNone())]
    eng.functions[f"{SS}._ExpressionTokenizer.__init__"] = FnDecl(f"{SS}._ExpressionTokenizer.__init__", "builtin", impl=tokenizer_init)
    eng.add_target(Target("_ExpressionParser.__init__", mod=SS, qual="_ExpressionParser.__init__", self_cls="_ExpressionParser",
        params={"text": STR}, requires=[], ensures=["P_ok(self)", "pos(self) == 0", "fresh(self.tokenizer)"],
        raises={"ValueError": ["NT() == 0 and lexerr()"]}, assert_mode="raise"))
    top_ok = "expr_ok(0) and expr_n(0) >= NT()"
    eng.add_target(Target("_ExpressionParser.parse", mod=SS, qual="_ExpressionParser.parse", self_cls="_ExpressionParser",
        params={}, requires=["P_ok(self)", "pos(self) == 0"],
        ensures=[top_ok, "result is expr_e(0)", "nonnull(result)"],     # a phrase of `expr` that uses every token
        raises={"ValueError": [f"not ({top_ok}) or lexerr()"]}, modifies=MOD + ["$alloc"], assert_mode="raise"))
    # the entry point: identifiers take a shortcut (same meaning as the one-token stream IDENT(value): lexical fact, bounded);
    # everything else is tokenized and parsed by the grammar
    isident = z3.Function("str_isidentifier", STR.sorts()[0], z3.BoolSort())
    eng.spec_ufuncs["isidentifier"] = (isident, BOOL)
    eng.spec_ufuncs["sym_of"] = (eng.ctor["sym"], TRef("SymExpr"))
    orig_sm = eng.str_method

    def str_method(p, recv, name, args, kwargs, node):
        if name == "isidentifier":
            from pyvc.types import VBool
            return [(p, VBool(isident(recv.z)))]
        return orig_sm(p, recv, name, args, kwargs, node)
    eng.str_method = str_method
    # inside this target the parser methods are used through their contracts; __init__ and parse are proved above
    eng.functions[f"{SS}._ExpressionParser.__init__"] = FnDecl(
        f"{SS}._ExpressionParser.__init__", "contract", SS, "_ExpressionParser.__init__", requires=[],
        ensures=["P_ok(self)", "pos(self) == 0"], raises={"ValueError": ["NT() == 0 and lexerr()"]},
        modifies=MOD + ["_ExpressionParser.tokenizer", "_ExpressionParser.text", "$alloc"])
    eng.functions[f"{SS}._ExpressionParser.parse"] = FnDecl(
        f"{SS}._ExpressionParser.parse", "contract", SS, "_ExpressionParser.parse", requires=["P_ok(self)", "pos(self) == 0"],
        ensures=[top_ok, "result is expr_e(0)", "nonnull(result)"], raises={"ValueError": [f"not ({top_ok}) or lexerr()"]},
        ret=TRef("SymExpr"), modifies=MOD + ["$alloc"])
    eng.add_target(Target("parse_symbolic_expression", mod=SS, qual="parse_symbolic_expression", params={"value": STR}, requires=[],
        ensures=["nonnull(result)", "implies(isidentifier(value), result is sym_of(value))",
                 f"implies(not isidentifier(value), {top_ok} and result is expr_e(0))"],
        raises={"ValueError": [f"not isidentifier(value) and (not ({top_ok}) or lexerr())"]}, assert_mode="raise"))


def make_replay(ob, eng):
    """A refuted/undischarged obligation is replayed on the real code by the directed bounded search of the same
    contract: operator obligations -> expression trees using that operator; parser obligations -> grammar strings."""
    import os
    here = os.path.dirname(os.path.dirname(os.path.abspath(__file__)))
    script = os.path.join(here, "rt", "bounded_symbolic.py")
    tname = ob.name.split("/")[1]
    focus = {"__add__": " + ", "__radd__": " + ", "__sub__": " - ", "__rsub__": " - ", "__mul__": " * ", "__rmul__": " * ",
             "__floordiv__": " // ", "__truediv__": " / ", "__rtruediv__": " / ", "__mod__": " % ", "__neg__": "neg(",
             "__floor__": "floor(", "__ceil__": "ceil(", "__trunc__": "trunc("}
    args = ["--only", "B"]
    for k, f in focus.items():
        if f"SymbolicDim.{k}" in tname:
            args = ["--only", "A", "--focus", f]
    return {"kind": "script",
            "script": "import subprocess, sys, json\nr = subprocess.run([sys.executable, %r] + %r, capture_output=True, text=True)\n"
                      "d = json.loads(r.stdout.strip().splitlines()[-1])\nVIOLATED = d['status'] == 'violation'\n"
                      "DETAIL = '\\n'.join(d.get('failures', []))\n" % (script, args)}
