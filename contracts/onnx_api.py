"""call_onnx_api (passes/common/_c_api_utils.py) under contract - C14: `Passes that only analyse or validate ... leave the model
exactly unchanged - including initializer data, order and graph inputs - even when serialization or the underlying ONNX call
fails`; C05 uses the same contract (the shape-inference and checker passes go through this function).

On EVERY exit of the real function - normal, or exceptional from any statement of the try body (assert, serialize_model,
the ONNX call) -

  E1  the initializer dictionary holds the same values in the same order as at entry,
  E2  every one of them has the const_value, type and shape objects it had at entry,
  E3  graph.inputs is the same sequence as at entry.

Abstraction (stated, see TRUSTED): graph.initializers is viewed as the sequence g_seq of its values in dictionary order, with
pop / add given the semantics of an insertion-ordered dictionary keyed by Value.name (pop removes the entry with that name and
keeps the order of the others; add replaces in place or appends); graph.inputs is a plain list.  The ownership bookkeeping of the
real containers (C01) and the conditions under which they reject a value are not part of this model: re-adding a value
that was an initializer of this graph at entry is assumed to be accepted."""
import z3

from pyvc.core import ClassDecl, Exc, FnDecl
from pyvc.engine import Target
from pyvc.sem_stmt import LoopSpec
from pyvc.types import INT, NULL, STR, TOpt, TRef, TSeq, VFunc, VNone, VOpaque, VRef, VSeq, Ref, coerce, fresh_name, val_eq
from . import schema

CORE = "onnx_ir._core"
API = "onnx_ir.passes.common._c_api_utils"
TRUSTED = ["call_onnx_api: graph.initializers is abstracted as the sequence of its values in dictionary order with insertion-ordered "
           "dict semantics for values()/pop()/add() keyed by Value.name; graph.inputs as a plain list (append/clear/extend/slice never "
           "raise); serde.serialize_model and the ONNX function passed in read the model only (assumed frame) and may raise; "
           "a type object's dtype is never None; entry state: initializer names are distinct non-empty strings (dictionary keys, C15) - "
           "the ghost position function ivpos exists because the values are distinct"]


def add_call_onnx_api_target(eng, prop="C14"):
    schema.core_ir(eng)
    V = TRef("Value")
    eng.classes["TypeObj"].fields["dtype"] = TRef("DataType")
    eng.add_class(ClassDecl("ApiInits", fields={"g_seq": TSeq(V)}))
    LV = eng.LIST(V)
    eng.add_class(ClassDecl("ApiGraph", fields={"initializers": TRef("ApiInits"), "inputs": LV}))
    eng.add_class(ClassDecl("ApiModel", fields={"graph": TRef("ApiGraph")}))
    ivpos = z3.Function("ivpos", Ref, z3.IntSort())
    eng.spec_ufuncs["ivpos"] = (ivpos, INT)
    ONAME = TOpt(STR)

    def name_of(e, p, v):
        return coerce(e.read_field(p, v, "_name"), ONAME)

    def m_values(e, p, args, kwargs, node):
        return [(p, e.read_field(p, args[0], "g_seq"))]

    def split(e, p, s, key, label):
        """(found path with witness index j, not-found path) for `an entry whose name equals key`."""
        j = z3.Int(fresh_name("idx"))
        i = z3.Int(fresh_name("i"))
        key = coerce(key, ONAME)
        pf, pn = p, p.copy()
        pf.assume(z3.And(0 <= j, j < s.len, val_eq(name_of(e, pf, s.at(j)), key)))
        pf.trace.append(f"{label}:found")
        pn.assume(z3.ForAll([i], z3.Implies(z3.And(0 <= i, i < s.len), z3.Not(val_eq(name_of(e, pn, s.at(i)), key)))))
        pn.trace.append(f"{label}:absent")
        return (pf if e.feasible(pf) else None), (pn if e.feasible(pn) else None), j

    def m_pop(e, p, args, kwargs, node):
        s = e.read_field(p, args[0], "g_seq")
        pf, pn, j = split(e, p, s, args[1], f"pop L{node.lineno}")
        out = []
        if pf is not None:
            i = z3.Int(fresh_name("pi"))
            arrs = [z3.Lambda([i], z3.If(i < j, z3.Select(a, i), z3.Select(a, i + 1))) for a in s.arrs]
            e.write_field(pf, args[0], "g_seq", VSeq(s.len - 1, arrs, s.elem))
            out.append((pf, s.at(j)))
        if pn is not None:
            out.append((pn, args[2]) if len(args) > 2 else (pn, Exc("KeyError", f"L{node.lineno}:initializers.pop")))
        return out

    def m_add(e, p, args, kwargs, node):
        s = e.read_field(p, args[0], "g_seq")
        v = args[1]
        pf, pn, j = split(e, p, s, name_of(e, p, v), f"add L{node.lineno}")
        out = []
        if pf is not None:
            e.write_field(pf, args[0], "g_seq", VSeq(s.len, [z3.Store(a, j, c) for a, c in zip(s.arrs, v.comps())], s.elem))
            out.append((pf, VNone()))
        if pn is not None:
            e.write_field(pn, args[0], "g_seq", VSeq(s.len + 1, [z3.Store(a, s.len, c) for a, c in zip(s.arrs, v.comps())], s.elem))
            out.append((pn, VNone()))
        return out
    eng.method_models = dict(getattr(eng, "method_models", {}) or {})
    for nm, impl in (("values", m_values), ("pop", m_pop), ("add", m_add)):
        eng.method_models[("ApiInits", nm)] = FnDecl(f"GraphInitializers.{nm}", "builtin", impl=impl)

    def lib_tensor_type(e, p, args, kwargs, node):
        t = e.new_object(p, "TypeObj")
        e.write_field(p, t, "dtype", args[0])
        return [(p, t)]

    def lib_func(e, p, args, kwargs, node):
        return [(p, VOpaque("result of the ONNX call")), (p.copy(), Exc("AnyException", f"L{node.lineno}:func"))]
    eng.functions["onnx_ir.serde.serialize_model"] = FnDecl("onnx_ir.serde.serialize_model", "contract", "onnx_ir.serde", "serialize_model",
        requires=[], ensures=[], raises={"AnyException": []}, modifies=[])

    schema.opaque_class(eng, "OnnxFunc")

    def setup(e, p, env):
        e.lenient = False
        e.lib_models["c14.TensorType"] = lib_tensor_type
        e.global_overrides[(CORE, "TensorType")] = VFunc("lib", "c14.TensorType", "TensorType")
        # this target reads the REAL property setters (another target of the same check abstracts them)
        for prop_, kind in (("shape", "setter"), ("type", "setter"), ("dtype", "setter"), ("const_value", "setter")):
            key = f"{CORE}.Value.{prop_}#{kind}"
            e.functions[key] = FnDecl(key, "inline", CORE, f"Value.{prop_}", kind)
        orig_in = e.contains_extra

        def contains_extra(container, item, p2):
            # `name in graph.initializers`: some entry carries that name
            if isinstance(container, VRef) and container.cls == "ApiInits":
                sq = e.read_field(p2, container, "g_seq")
                i = z3.Int(fresh_name("ci"))
                return z3.Exists([i], z3.And(0 <= i, i < sq.len, val_eq(name_of(e, p2, sq.at(i)), coerce(item, ONAME))))
            return orig_in(container, item, p2)
        e.contains_extra = contains_extra
        orig = e.call_extra

        def call_extra(p2, f, args, kwargs, node):
            if isinstance(f, VRef) and f.cls == "OnnxFunc":
                return lib_func(e, p2, args, kwargs, node)
            return orig(p2, f, args, kwargs, node)
        e.call_extra = call_extra

    G = "model.graph.initializers.g_seq"
    wf = [
        "nonnull(model) and nonnull(model.graph) and nonnull(model.graph.initializers) and nonnull(model.graph.inputs)",
        f"forall(lambda j=int: implies(0 <= j and j < len({G}), nonnull({G}[j]) and {G}[j]._name is not None))",
        # dictionary keys are distinct ...
        f"forall(lambda i=int, j=int: implies(0 <= i and i < j and j < len({G}), {G}[i]._name != {G}[j]._name))",
        # ... hence the values are distinct objects and have a position (ghost witness)
        f"forall(lambda j=int: implies(0 <= j and j < len({G}), ivpos({G}[j]) == j))",
        "forall(lambda t=TypeObj: nonnull(t.dtype))",
    ]
    # elements of the current dictionary are entry initializers, in their entry order
    sub = (f"forall(lambda i=int: implies(0 <= i and i < len({G}), 0 <= ivpos({G}[i]) and ivpos({G}[i]) < len(initializer_values) and "
           f"initializer_values[ivpos({G}[i])] is {G}[i])) and "
           f"forall(lambda i=int, j=int: implies(0 <= i and i < j and j < len({G}), ivpos({G}[i]) < ivpos({G}[j])))")
    inputs_prefix = ("len(model.graph.inputs) >= old(len(model.graph.inputs)) and original_inputs_len == old(len(model.graph.inputs)) and "
                     "forall(lambda i=int: implies(0 <= i and i < old(len(model.graph.inputs)), model.graph.inputs[i] is old(model.graph.inputs[i])))")
    snap = "seq_eq(initializer_values, old(%s))" % G
    const_restored = "forall(lambda m=int: implies(0 <= m and m < %s, initializer_values[m]._const_value is old(initializer_values[m]._const_value)))"
    ts_restored = ("forall(lambda m=int: implies(0 <= m and m < %s, initializer_values[m]._type is old(initializer_values[m]._type) and "
                   "initializer_values[m]._shape is old(initializer_values[m]._shape)))")
    MOD = ["ApiInits.g_seq", f"{LV.cls}.$v", "Value._const_value", "Value._type", "Value._shape", "TypeObj.dtype", "$alloc"]
    E1 = f"seq_eq({G}, old({G}))"
    E2 = (f"forall(lambda j=int: implies(0 <= j and j < len(old({G})), old({G})[j]._const_value is old({G}[j]._const_value) and "
          f"old({G})[j]._type is old({G}[j]._type) and old({G})[j]._shape is old({G}[j]._shape)))")
    E3 = "seq_eq(Seq(model.graph.inputs), old(Seq(model.graph.inputs)))"
    eng.add_target(Target("call_onnx_api", mod=API, qual="call_onnx_api", setup=setup,
        params=dict(func=TRef("OnnxFunc"), model=TRef("ApiModel")),
        requires=wf,
        ensures=[E1, E2, E3], raises_default=[E1, E2, E3], modifies=None, assert_mode="raise"))
    t = eng.targets[-1]
    t.loops = {
        # try body: only pops; appended inputs; values' slots change
        2: LoopSpec(invariant=[snap, sub, inputs_prefix], modifies=MOD),
        # finally, first loop: entries 0..k-1 are gone and hold their entry tensors again
        3: LoopSpec(invariant=[snap, sub, inputs_prefix,
                               f"forall(lambda i=int: implies(0 <= i and i < len({G}), ivpos({G}[i]) >= k))",
                               const_restored % "k"],
                    modifies=["ApiInits.g_seq", "Value._const_value"]),
        # finally, second loop: the dictionary is rebuilt in entry order; types and shapes restored
        4: LoopSpec(invariant=[snap, inputs_prefix, f"len({G}) == k",
                               f"forall(lambda i=int: implies(0 <= i and i < k, {G}[i] is initializer_values[i]))",
                               const_restored % "len(initializer_values)", ts_restored % "k"],
                    modifies=["ApiInits.g_seq", "Value._type", "Value._shape"]),
    }
