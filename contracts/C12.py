"""C12 — topological sort: the atomicity clause is proved as a frame/effect obligation on the real Graph.sort
(every path that reaches `raise ValueError` has performed no IR store and no call that could mutate IR state: all
bookkeeping lives in the function's own containers); correctness across scopes, stability and determinism: bounded."""
from pyvc.core import ClassDecl, FnDecl
from pyvc.engine import Engine, Target
from pyvc.types import *  # noqa: F401,F403
from pyvc.types import BOOL, INT, STR, TOpt, TRef, TSeq
from . import schema

CORE = "onnx_ir._core"
LEVEL = "proof"
TRUSTED = ["traversal.RecursiveGraphIterator, heapq.*, dict/list/set operations on the function's own containers and the read-only "
           "accessors used (node.inputs, node.attributes, value.producer(), node.graph, attr.type/value) have no effect on IR state"]
NOT_DECIDED = ["every node popped exactly once when acyclic; producers-before-users across scopes; stability; determinism: bounded stand-in "
               "(all digraphs on <= 4 nodes incl. cyclic, every initial permutation, nesting depth <= 2)"]
BOUNDED = [{"name": "C12 exhaustive small graphs: order, per-graph node sets, stability, determinism, unchanged on cycle (bounded)",
            "script": "bounded_sort.py", "args": []}]


def build(eng, tier):
    schema.core_ir(eng)
    add_sort_target(eng)


def add_sort_target(eng):
    """Graph.sort: a ValueError exit has changed nothing (shared with C06). Must be the last target of the engine:
    it switches the engine to lenient mode (unmodelled library calls are opaque) when it starts."""
    from pyvc.types import VOpaque
    eng.lib_models["onnx_ir.traversal.RecursiveGraphIterator"] = lambda e, p, a, kw, n: [(p, VOpaque("RecursiveGraphIterator"))]
    fields = ["Node._graph", "Node._inputs", "Node._outputs", "Node._name", "Value._producer", "Value._graph", "Value._name",
              "_LinkBox.next", "_LinkBox.prev", "_LinkBox.value", "_LinkBox.owning_list", "DoublyLinkedSet._length", "DoublyLinkedSet._root"]
    unchanged = "unchanged(%s)" % ", ".join(repr(f) for f in fields)

    def setup(e, p, env):
        e.lenient = True
    t = Target("Graph.sort", mod=CORE, qual="Graph.sort", self_cls="Graph", requires=[], ensures=[], setup=setup,
               raises={"ValueError": [unchanged, "ir_clean()"]}, raises_default=[], assert_mode="raise")
    t.local_containers = ("nodes", "sorted_nodes_by_graph", "node_depth", "node_predecessors", "neg_node_index", "priority_queue", "heapq")
    eng.add_target(t)
