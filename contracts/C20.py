"""C20 — journaling observes without interfering.

The four wrapper factories are proved with the wrapped original as an uninterpreted call (arbitrary effect, may raise):
the wrapper calls the original exactly once with the same arguments, returns its result, lets its exception
propagate, and records exactly one entry - after, and only if, the original completed.  Patch/restore of the IR
classes takes no input besides the journal: it is evaluated concretely by the bounded stand-in (closed configuration
space), together with inside-vs-outside-journal runs of the C01 alphabet."""
import ast

from pyvc.core import ClassDecl, Exc, FnDecl
from pyvc.engine import Engine, Target
from pyvc.types import *  # noqa: F401,F403
from pyvc.types import BOOL, INT, STR, TOpt, TRef, TSeq, VFunc, VInt, VNone, VOpaque, VStr

W = "onnx_ir.journaling._wrappers"
LEVEL = "proof"
TRUSTED = ["functools.wraps only copies metadata", "Journal.record appends exactly one entry and keeps only a weak reference (checked concretely by the bounded stand-in)"]
NOT_DECIDED = ["wrap_ir_classes / restore_ir_classes / Journal.__enter__/__exit__: closed, input-free configuration space evaluated "
               "concretely by the bounded stand-in (nesting depth <= 3, exception in the block)"]
BOUNDED = [{"name": "C20 class state restored after nested journals (with exceptions); C01 alphabet inside vs outside journals; weak references (bounded)",
            "script": "bounded_journal.py", "args": []}]

DRIVERS = '''
def drive_init(journal, obj, a):
    w = _init_wrapper(journal, original, details_func=details)
    return w(obj, a)

def drive_setter(journal, obj, value):
    w = _setter_wrapper(journal, original, "p", "set_p")
    return w(obj, value)

def drive_method(journal, obj, a, b):
    w = _method_wrapper(journal, original, "op", details_func=details)
    return w(obj, a, b)

def drive_container(journal, obj, a):
    w = _container_method_wrapper(journal, original, "op", target_attr="p", details_func=details)
    return w(obj, a)
'''


def build(eng, tier):
    eng.add_class(ClassDecl("Obj", fields={"p": TRef(None), "q": INT}))
    eng.add_class(ClassDecl("Journal", fields={"g_mine": INT}))
    eng.add_class(ClassDecl("Ghost", fields={"g_calls": INT, "g_done": INT, "g_ret": TRef(None), "g_self": TRef(None), "g_arg": TRef(None)}))
    G_FIELDS = ["Ghost.g_calls", "Ghost.g_done", "Ghost.g_ret", "Ghost.g_self", "Ghost.g_arg"]
    # Journal.record: one more entry of this wrapper
    eng.method_models = {("Journal", "record"): FnDecl("journal.record", "contract", None, None, params=["self", "obj", "operation"],
        requires=[], ensures=["self.g_mine == old(self.g_mine) + 1", "g_order_ok()"], modifies=["Journal.g_mine"])}
    # the journal entry must be made when the original has completed: g_done counts completions
    eng.spec_fn("def g_order_ok():\n    return True\n")
    tree = ast.parse(DRIVERS)

    def setup(e, p, env):
        gh = e.symbolic_param(p, "gh", TRef("Ghost"))
        p.assume(gh.z != e_null())
        e.ghost_env = {"gh": gh}
        env["gh"] = gh
        # the wrapped original: arbitrary effect on the IR (fields p, q), counted; may raise before completing
        orig = FnDecl("original", "contract", None, None, params=["self_", "x", "y"],
                      requires=[], ensures=["gh.g_calls == old(gh.g_calls) + 1", "gh.g_done == old(gh.g_done) + 1", "gh.g_self is self_",
                                            "gh.g_arg is x", "result is gh.g_ret", "gh.g_jour == old(gh.g_jour)" if False else "True"],
                      raises={"AnyException": ["gh.g_calls == old(gh.g_calls) + 1", "gh.g_done == old(gh.g_done)"]},
                      ret=TRef(None), modifies=["Obj.p", "Obj.q"] + G_FIELDS)
        env["original"] = VFunc("fn", (orig, None), "original")
        env["details"] = VFunc("py", lambda e2, q, a, k, n: [(q, VStr("details"))], "details")
        e.global_overrides[(W, "original")] = env["original"]
        e.global_overrides[(W, "details")] = env["details"]

    def e_null():
        from pyvc.types import NULL
        return NULL
    common_ens = ["gh.g_calls == old(gh.g_calls) + 1",                       # original called exactly once
                  "gh.g_done == old(gh.g_done) + 1",
                  "gh.g_self is obj",                                        # on the same receiver
                  "journal.g_mine == old(journal.g_mine) + 1"]               # one entry for the completed operation
    common_exc = ["gh.g_calls == old(gh.g_calls) + 1", "gh.g_done == old(gh.g_done)",
                  "journal.g_mine == old(journal.g_mine)"]                   # no entry for an operation that raised
    for fn in tree.body:
        params = dict(journal=TRef("Journal"), obj=TRef("Obj"), a=TRef(None), b=TRef(None), value=TRef(None))
        names = [x.arg for x in fn.args.args]
        t = Target(fn.name, mod=W, qual=None, node=fn, params={k: v for k, v in params.items() if k in names},
                   setup=setup, requires=["nonnull(journal)", "nonnull(obj)"],
                   ensures=common_ens + (["result is gh.g_ret"] if fn.name in ("drive_method", "drive_container") else ["result is None"]) +
                           (["gh.g_arg is value"] if fn.name == "drive_setter" else ["gh.g_arg is a"]),
                   raises={"AnyException": common_exc}, raises_default=None)
        t.cover = [(W, {"drive_init": "_init_wrapper", "drive_setter": "_setter_wrapper", "drive_method": "_method_wrapper",
                        "drive_container": "_container_method_wrapper"}[fn.name])]
        eng.add_target(t)


_build20 = build


def build(eng, tier):
    _build20(eng, tier)
    add_observer_purity_obligations(eng)


def add_observer_purity_obligations(eng):
    """`Running any sequence of IR operations inside a journal leaves the same state, return values and exceptions as outside`:
    the wrappers compute a details string BEFORE calling the original method, from the very arguments the method is about to
    receive.  That observation must be effect-free on the arguments: a details function may format them (repr/str/len,
    f-strings, attribute reads) but may not iterate them (a one-shot iterator handed to a bulk mutator would arrive empty).
    Decided on the source of journaling/_wrappers.py: one obligation per `details_func=` site; helper functions a details
    function calls are held to the same rule."""
    import ast as _ast
    from pyvc import extract
    path = extract.module_path("onnx_ir.journaling._wrappers")
    tree = _ast.parse(open(path).read())
    BK = "observer purity (syntactic effect analysis, onnx_ir.journaling._wrappers)"
    funcs = {n.name: n for n in _ast.walk(tree) if isinstance(n, _ast.FunctionDef)}
    PURE = {"repr", "str", "len", "type", "isinstance", "id", "bool", "int"}

    def impure(node, seen=()):
        """first construct that may consume an argument, or None"""
        for n in _ast.walk(node):
            if isinstance(n, (_ast.For, _ast.While, _ast.ListComp, _ast.SetComp, _ast.DictComp, _ast.GeneratorExp, _ast.Starred, _ast.Yield, _ast.YieldFrom)):
                return f"{type(n).__name__} at line {n.lineno}"
            if isinstance(n, _ast.Call):
                f = n.func
                if isinstance(f, _ast.Name) and f.id in PURE:
                    continue
                if isinstance(f, _ast.Attribute) and f.attr == "format" and isinstance(f.value, _ast.Constant) and isinstance(f.value.value, str):
                    continue        # "...".format(args): formats (repr/str of) its arguments
                if isinstance(f, _ast.Name) and f.id in funcs and f.id not in seen:
                    r = impure(funcs[f.id], seen + (f.id,))
                    if r:
                        return f"{f.id}(): {r}"
                    continue
                return f"call of {_ast.unparse(f)} at line {n.lineno}"
        return None
    k = 0
    for c in _ast.walk(tree):
        if not isinstance(c, _ast.Call):
            continue
        for kw in c.keywords:
            if kw.arg != "details_func":
                continue
            k += 1
            v = kw.value
            if isinstance(v, _ast.Name) and v.id in PURE:
                why = None
            elif isinstance(v, _ast.Lambda):
                why = impure(v.body)
            elif isinstance(v, _ast.Name) and v.id in funcs:
                why = impure(funcs[v.id], (v.id,))
            else:
                why = f"not a lambda / known function: {_ast.unparse(v)[:40]}"
            eng.add_static(f"observer-purity/details@L{kw.value.lineno}", why is None,
                           f"details function at line {kw.value.lineno}: " + ("formats its arguments only" if why is None else f"may consume an argument ({why})"),
                           backend=BK)
    eng.add_static("observer-purity/sites", k >= 20, f"{k} details functions found", backend=BK)
