"""C20 — journaling observes without interfering.

The four wrapper factories are proved with the wrapped original as an uninterpreted call (arbitrary effect, may raise):
the wrapper calls the original exactly once with the same arguments, returns its result, lets its exception
propagate, and records exactly one entry - after, and only if, the original completed.  Patch/restore of the IR
classes takes no input besides the journal: it is evaluated concretely by the bounded stand-in (closed configuration
space), together with inside-vs-outside-journal runs of the C01 alphabet."""
import ast

from pyvc.core import ClassDecl, Exc, FnDecl
from pyvc.engine import Engine, Target
from pyvc.types import *  # noqa: F401,F403
from pyvc.types import BOOL, INT, STR, TOpt, TRef, TSeq, VFunc, VInt, VNone, VOpaque, VStr

W = "onnx_ir.journaling._wrappers"
LEVEL = "proof"
TRUSTED = ["functools.wraps only copies metadata", "Journal.record appends exactly one entry and keeps only a weak reference (checked concretely by the bounded stand-in)"]
NOT_DECIDED = ["wrap_ir_classes / restore_ir_classes / Journal.__enter__/__exit__: closed, input-free configuration space evaluated "
               "concretely by the bounded stand-in (nesting depth <= 3, exception in the block)"]
BOUNDED = [{"name": "C20 class state restored after nested journals (with exceptions); C01 alphabet inside vs outside journals; weak references (bounded)",
            "script": "bounded_journal.py", "args": []}]

DRIVERS = '''
def drive_init(journal, obj, a):
    w = _init_wrapper(journal, original, details_func=details)
    return w(obj, a)

def drive_setter(journal, obj, value):
    w = _setter_wrapper(journal, original, "p", "set_p")
    return w(obj, value)

def drive_method(journal, obj, a, b):
    w = _method_wrapper(journal, original, "op", details_func=details)
    return w(obj, a, b)

def drive_container(journal, obj, a):
    w = _container_method_wrapper(journal, original, "op", target_attr="p", details_func=details)
    return w(obj, a)
'''


def build(eng, tier):
    eng.add_class(ClassDecl("Obj", fields={"p": TRef(None), "q": INT}))
    eng.add_class(ClassDecl("Journal", fields={"g_mine": INT}))
    eng.add_class(ClassDecl("Ghost", fields={"g_calls": INT, "g_done": INT, "g_ret": TRef(None), "g_self": TRef(None), "g_arg": TRef(None)}))
    G_FIELDS = ["Ghost.g_calls", "Ghost.g_done", "Ghost.g_ret", "Ghost.g_self", "Ghost.g_arg"]
    # Journal.record: one more entry of this wrapper
    eng.method_models = {("Journal", "record"): FnDecl("journal.record", "contract", None, None, params=["self", "obj", "operation"],
        requires=[], ensures=["self.g_mine == old(self.g_mine) + 1", "g_order_ok()"], modifies=["Journal.g_mine"])}
    # the journal entry must be made when the original has completed: g_done counts completions
    eng.spec_fn("def g_order_ok():\n    return True\n")
    tree = ast.parse(DRIVERS)

    def setup(e, p, env):
        gh = e.symbolic_param(p, "gh", TRef("Ghost"))
        p.assume(gh.z != e_null())
        e.ghost_env = {"gh": gh}
        env["gh"] = gh
        # the wrapped original: arbitrary effect on the IR (fields p, q), counted; may raise before completing
        orig = FnDecl("original", "contract", None, None, params=["self_", "x", "y"],
                      requires=[], ensures=["gh.g_calls == old(gh.g_calls) + 1", "gh.g_done == old(gh.g_done) + 1", "gh.g_self is self_",
                                            "gh.g_arg is x", "result is gh.g_ret", "gh.g_jour == old(gh.g_jour)" if False else "True"],
                      raises={"AnyException": ["gh.g_calls == old(gh.g_calls) + 1", "gh.g_done == old(gh.g_done)"]},
                      ret=TRef(None), modifies=["Obj.p", "Obj.q"] + G_FIELDS)
        env["original"] = VFunc("fn", (orig, None), "original")
        env["details"] = VFunc("py", lambda e2, q, a, k, n: [(q, VStr("details"))], "details")
        e.global_overrides[(W, "original")] = env["original"]
        e.global_overrides[(W, "details")] = env["details"]

    def e_null():
        from pyvc.types import NULL
        return NULL
    common_ens = ["gh.g_calls == old(gh.g_calls) + 1",                       # original called exactly once
                  "gh.g_done == old(gh.g_done) + 1",
                  "gh.g_self is obj",                                        # on the same receiver
                  "journal.g_mine == old(journal.g_mine) + 1"]               # one entry for the completed operation
    common_exc = ["gh.g_calls == old(gh.g_calls) + 1", "gh.g_done == old(gh.g_done)",
                  "journal.g_mine == old(journal.g_mine)"]                   # no entry for an operation that raised
    for fn in tree.body:
        params = dict(journal=TRef("Journal"), obj=TRef("Obj"), a=TRef(None), b=TRef(None), value=TRef(None))
        names = [x.arg for x in fn.args.args]
        t = Target(fn.name, mod=W, qual=None, node=fn, params={k: v for k, v in params.items() if k in names},
                   setup=setup, requires=["nonnull(journal)", "nonnull(obj)"],
                   ensures=common_ens + (["result is gh.g_ret"] if fn.name in ("drive_method", "drive_container") else ["result is None"]) +
                           (["gh.g_arg is value"] if fn.name == "drive_setter" else ["gh.g_arg is a"]),
                   raises={"AnyException": common_exc}, raises_default=None)
        t.cover = [(W, {"drive_init": "_init_wrapper", "drive_setter": "_setter_wrapper", "drive_method": "_method_wrapper",
                        "drive_container": "_container_method_wrapper"}[fn.name])]
        eng.add_target(t)
