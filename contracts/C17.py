"""C17 — deserializing any proto terminates with an error or a consistent IR, and touches no file.

Deductive part (effect contracts, decided by the modular effect analysis of pyvc.effects on the real source):
  (1) fs = {}  for every function reachable from from_proto / deserialize_* / ExternalTensor.__init__ and from the getters
      name, dtype, shape, size, nbytes of ExternalTensor and TensorProtoTensor.  One obligation per function: its body calls no
      file-system primitive, and every callee it can reach is under the same contract (or is a listed library assumption).
  (2) encapsulation of serde.py's deserializer: it builds the IR only through public constructors / mutators of onnx_ir
      (no store to, and no call of, a private attribute of an IR object), so the representation invariant of C01 —
      established by those constructors/mutators (C01, C06, C11 contracts) — is what any returned IR satisfies.
  (3) every loop of the deserializer is a `for` over a finite proto field / IR container or a bounded `while` listed below
      (syntactic termination argument; recursion follows the finite proto tree).
Bounded part: structure-aware / random / byte-level mutants of valid protos, runtime INV, fixed point, fs primitives patched."""
import ast
import hashlib
import os

from pyvc import effects, extract

LEVEL = "proof"
TRUSTED = ["effect analysis call resolution (name-based over-approximation inside onnx_ir; annotations used for receiver types)",
           "library functions outside onnx_ir are classified by a table of file-system primitives (pyvc/effects.py FS_CALLS/FS_METHODS); "
           "all other numpy/onnx/protobuf/stdlib calls are assumed to perform no file access (listed in evidence)",
           "format sites whose operand type is not statically known are assumed not to format tensor-holding IR objects (listed in evidence)"]
NOT_DECIDED = ["_declare_node_outputs (redeclared output names rejected; no earlier binding replaced; one value per output) is PROVED as a "
               "functional contract on the real function; ",
               "'returns a consistent IR' rests on (2) + the C01/C06/C11 contracts of the public mutators, not on a whole-function proof of "
               "_deserialize_graph/_deserialize_node (scoped name tables): bounded stand-in",
               "serialize(result) raises or is a fixed point of deserialize;serialize: bounded stand-in",
               "termination: syntactic loop/recursion argument (3), no ranking-function VC"]
BOUNDED = [{"name": "C17 mutated protos: error or consistent IR, fixed point, no file access (bounded)", "script": "bounded_malformed.py", "args": []}]
EXPECTED_MIN_OBLIGATIONS = 200

SERDE = "onnx_ir.serde"
GETTERS = ("name", "dtype", "shape", "size", "nbytes")
# loops that are not `for` loops, with the reason they terminate (checked to be exactly these)
WHILE_OK = {("onnx_ir.serde:deserialize_type_proto_for_shape", "descends one nesting level of a finite TypeProto per iteration"),
            ("onnx_ir.serde:deserialize_type_proto_for_type", "descends one nesting level of a finite TypeProto per iteration")}


def roots(repo):
    rs = [f for n, f in repo.module_funcs[SERDE].items() if n.startswith(("deserialize_", "_deserialize")) or n == "from_proto"
          or n in ("_declare_node_outputs", "_resolve_node_device_configurations", "_resolve_sharded_value", "_get_field",
                   "_parse_experimental_function_value_info_name")]
    rs += repo.lookup_methods(["ExternalTensor"], "__init__")
    rs += repo.lookup_methods(["TensorProtoTensor"], "__init__")
    for nm in GETTERS:
        rs += repo.lookup_methods(["ExternalTensor", "TensorProtoTensor", "TensorBase"], nm, ("getter",))
    return rs


def private_uses(fn):
    """(lineno, text) for every use of a private attribute of an object other than self / a module alias inside fn."""
    out = []
    for n in ast.walk(fn.node):
        if isinstance(n, ast.Attribute) and n.attr.startswith("_") and not (n.attr.startswith("__") and n.attr.endswith("__")):
            base = n.value
            if isinstance(base, ast.Name) and base.id in ("self", "cls"):
                continue
            # module-private helpers of imported onnx_ir modules are functions, not object state: `_core._x(...)` is still flagged
            out.append((n.lineno, ast.unparse(n)[:80]))
    return out


def build(eng, tier):
    repo = effects.Repo()
    rs = roots(repo)
    res = effects.check_contract(repo, rs, forbid_fs=True)
    for name, ok, detail in res["obligations"]:
        eng.add_static(name, ok, detail)
    an = res["analyzer"]
    untyped = []
    for f in res["fns"]:
        for (ln, src, rt) in an.direct(f).formats:
            if rt is None:
                untyped.append(f"{f.qual}:{ln}: {src[:50]}")
    # (2) encapsulation + (3) loops, on the deserializer functions of serde.py themselves
    deser = [f for f in res["fns"] if f.module == SERDE and f.cls is None]
    whiles = set()
    for f in deser:
        pu = private_uses(f)
        eng.add_static(f"encapsulation/{f.qual}", not pu,
                       "; ".join(f"line {ln}: {t}" for ln, t in pu) + "  (the deserializer must build the IR through public constructors/mutators only)",
                       backend="frame-analysis")
        d = an.direct(f)
        bad_w = [(ln, r, a) for (ln, r, a, rt) in d.writes if a.startswith("_") and r not in ("self", "cls")]
        eng.add_static(f"no-private-store/{f.qual}", not bad_w, "; ".join(f"line {ln}: store to {r}.{a}" for ln, r, a in bad_w), backend="frame-analysis")
        ws = [n for n in ast.walk(f.node) if isinstance(n, ast.While)]
        if ws:
            whiles.add(f.qual)
        ok = (not ws) or any(f.qual == q for q, _ in WHILE_OK)
        eng.add_static(f"loops-bounded/{f.qual}", ok, "" if ok else f"while loop at line {ws[0].lineno} not covered by the termination argument",
                       backend="syntactic")
    files = {}
    for f in res["fns"]:
        files.setdefault(f.module, None)
    for mod in files:
        path = os.path.join(repo.src_root, *mod.split("."))
        path = path + ".py" if os.path.exists(path + ".py") else os.path.join(path, "__init__.py")
        sha = hashlib.sha256(open(path, "rb").read()).hexdigest()[:16]
        eng.functions_under_contract[f"file:{mod}"] = {"function": f"file:{mod}", "kind": "file", "module": mod, "file": path, "sha256": sha,
                                                       "lines": "whole file", "contract": "effect contracts (fs-free)"}
    eng.effect_reports = {
        "contract": "fs = {} (no file-system access)", "roots": sorted(f.qual for f in rs),
        "functions_under_effect_contract": len(res["functions"]),
        "assumed_library_calls": res["assumed_library_calls"],
        "unresolved_method_names (library/builtin receivers, none in the fs-primitive method table)": res["unresolved_method_names"],
        "format_sites_of_unknown_static_type": untyped,
        "cut_edges": res["cut_edges"], "while_loops": sorted(whiles),
    }


# ------------------------------------------------------------------------------------------------------------------
# `redeclared output names rejected` (serde._declare_node_outputs): a functional contract on the real function
def add_declare_outputs_target(eng):
    """On a normal return every non-empty output name of the node is new in the scope - not declared before the call and
    not declared twice by this node -, each is bound to its own value, and no earlier binding of the scope was replaced
    (a value that consumers may already reference is never orphaned).  Loop invariant over the node's output list."""
    from pyvc.core import ClassDecl, Exc, FnDecl
    from pyvc.engine import Target
    from pyvc.sem_stmt import LoopSpec
    from pyvc.types import STR, TOpt, TRef, TSeq, VFunc
    SER = "onnx_ir.serde"
    eng.add_class(ClassDecl("NodeProtoLike", fields={"output": TSeq(STR), "op_type": STR, "name": STR}))
    eng.add_class(ClassDecl("Value17", fields={"g_name": TOpt(STR)}))
    for n in ("ValueInfoLike", "AnnotationLike"):
        if n not in eng.classes:
            eng.add_class(ClassDecl(n))
    SCOPE = eng.DICT(STR, TRef("Value17"))
    VIMAP = eng.DICT(STR, TRef("ValueInfoLike"))
    QMAP = eng.DICT(STR, TRef("AnnotationLike"))

    def new_value(e, p, args, kwargs, node):
        v = e.new_object(p, "Value17")
        e.write_field(p, v, "g_name", kwargs.get("name", args[0] if args else None))
        return [(p, v)]

    def may_raise(e, p, args, kwargs, node):
        from pyvc.types import VNone
        return [(p, VNone()), (p.copy(), Exc("AnyException", f"L{node.lineno}"))]
    # the two helpers fill in type/shape/annotations of the NEW value only (they get no access to the scope): no effect on
    # the state this contract talks about; they may raise
    for nm in ("deserialize_value_info_proto", "_deserialize_quantization_annotation"):
        eng.functions[f"{SER}.{nm}"] = FnDecl(f"{SER}.{nm}", "builtin", impl=may_raise)

    def setup(e, p, env):
        e.lenient = False
        e.lib_models["c17.Value"] = new_value
        e.global_overrides[("onnx_ir._core", "Value")] = VFunc("lib", "c17.Value", "Value")
        e.global_overrides[(SER, "logger")] = __import__("pyvc.types", fromlist=["VOpaque"]).VOpaque("logger")

    S = "box(current_value_scope)"
    kept = (f"forall(lambda key=str: implies(key in old({S}), key in {S} and {S}[key] is old({S}[key])))")
    fresh_names = ("forall(lambda i=int: implies(0 <= i and i < %s and proto.output[i] != '', "
                   f"proto.output[i] in {S} and not (proto.output[i] in old({S})) and nonnull({S}[proto.output[i]]) and "
                   f"{S}[proto.output[i]].g_name == proto.output[i]))")
    distinct = ("forall(lambda i=int, j=int: implies(0 <= i and i < j and j < %s and proto.output[i] != '' and proto.output[j] != '', "
                "proto.output[i] != proto.output[j]))")
    own = ("forall(lambda i=int, j=int: implies(0 <= i and i < j and j < %s and proto.output[i] != '' and proto.output[j] != '', "
           f"{S}[proto.output[i]] is not {S}[proto.output[j]]))")
    eng.add_target(Target("_declare_node_outputs", mod=SER, qual="_declare_node_outputs", setup=setup,
        params=dict(proto=TRef("NodeProtoLike"), current_value_scope=SCOPE, value_info=VIMAP, quantization_annotations=QMAP),
        requires=["nonnull(proto)", "nonnull(current_value_scope)", "nonnull(value_info)", "nonnull(quantization_annotations)",
                  "current_value_scope is not value_info and current_value_scope is not quantization_annotations",
                  f"forall(lambda key=str: implies(key in {S}, nonnull({S}[key])))"],
        loops={0: LoopSpec(invariant=[kept, fresh_names % "k", distinct % "k", own % "k",
                                      f"forall(lambda key=str: implies(key in {S}, nonnull({S}[key]) and (key in old({S}) or allocated({S}[key]))))"],
                           modifies=[f"{SCOPE.cls}.$v", "$alloc", "Value17.g_name"])},
        ensures=[kept, fresh_names % "len(proto.output)", distinct % "len(proto.output)", own % "len(proto.output)"],
        # a rejected node may have declared some of its outputs already; what was there before is still there
        raises={"ValueError": [kept], "AnyException": [kept]}, modifies=None, assert_mode="raise"))


_build17 = build


def build(eng, tier):
    _build17(eng, tier)
    add_declare_outputs_target(eng)


_build17b = build


def build(eng, tier):
    _build17b(eng, tier)
    add_output_scope_obligations(eng)


def add_output_scope_obligations(eng):
    """`returns an IR whose use-def and ownership links are consistent`: a graph's outputs must be values of THAT graph's own
    scope (or fresh placeholders for producer-less outputs) - an output taken from an enclosing scope would make one Value an
    output of two graphs and the (sub)graph's output would have no producer inside it.  Data-flow obligation on the real
    _deserialize_graph: every value that reaches the `outputs` list is a `_core.Value(...)` construction or a subscript of the
    scope dictionary this call created and pushed - followed through a helper function when the loop body was extracted into
    one (the helper's parameter that receives the scope dictionary then plays its role)."""
    import ast as _ast
    from pyvc import extract
    BK = "output-scope (syntactic data flow, onnx_ir.serde)"
    tree = _ast.parse(open(extract.module_path(SERDE)).read())
    funcs = {n.name: n for n in _ast.walk(tree) if isinstance(n, _ast.FunctionDef)}
    fn = funcs.get("_deserialize_graph")
    if fn is None:
        eng.add_static("output-scope/_deserialize_graph", False, "function not found", backend=BK)
        return
    scopes = {c.args[0].id for c in _ast.walk(fn) if isinstance(c, _ast.Call) and isinstance(c.func, _ast.Attribute) and c.func.attr == "append"
              and isinstance(c.func.value, _ast.Name) and c.func.value.id == "scoped_values" and c.args and isinstance(c.args[0], _ast.Name)}

    def origin_ok(val, scope_names, body, depth=0):
        """is the expression a new Value, a subscript / .get of a scope dictionary, a variable all of whose definitions in `body`
        are, or a call of a module function whose every return is (with the scope passed on)?"""
        if isinstance(val, _ast.Call) and _ast.unparse(val.func) in ("_core.Value", "Value"):
            return True, ""
        if isinstance(val, _ast.Subscript) and isinstance(val.value, _ast.Name) and val.value.id in scope_names:
            return True, ""
        if isinstance(val, _ast.Name):
            defs = []
            for n in _ast.walk(body):
                if isinstance(n, _ast.Assign) and any(isinstance(t, _ast.Name) and t.id == val.id for t in n.targets):
                    defs.append(n.value)
                elif isinstance(n, _ast.NamedExpr) and isinstance(n.target, _ast.Name) and n.target.id == val.id:
                    defs.append(n.value)
            if not defs:
                return False, f"{val.id} has no definition here"
            for d in defs:
                ok, why = origin_ok(d, scope_names, body, depth)
                if not ok:
                    return False, why or f"line {d.lineno}: {_ast.unparse(d)[:60]}"
            return True, ""
        if isinstance(val, _ast.Call) and isinstance(val.func, _ast.Name) and val.func.id in funcs and depth < 2:
            h = funcs[val.func.id]
            params = [a.arg for a in h.args.posonlyargs + h.args.args]
            inner = {params[i] for i, a in enumerate(val.args) if i < len(params) and isinstance(a, _ast.Name) and a.id in scope_names}
            inner |= {k.arg for k in val.keywords if isinstance(k.value, _ast.Name) and k.value.id in scope_names}
            rets = [r for r in _ast.walk(h) if isinstance(r, _ast.Return) and r.value is not None]
            if not rets:
                return False, f"{h.name} returns nothing"
            for r in rets:
                ok, why = origin_ok(r.value, inner, h, depth + 1)
                if not ok:
                    return False, f"{h.name}: " + (why or f"line {r.lineno}: {_ast.unparse(r.value)[:60]}")
            return True, ""
        return False, f"line {getattr(val, 'lineno', '?')}: {_ast.unparse(val)[:60]}"

    sources = []        # expressions whose value ends up in `outputs`
    for n in _ast.walk(fn):
        if isinstance(n, _ast.Call) and isinstance(n.func, _ast.Attribute) and n.func.attr == "append" and isinstance(n.func.value, _ast.Name) \
                and n.func.value.id == "outputs" and n.args:
            sources.append(n.args[0])
        if isinstance(n, _ast.Assign) and any(isinstance(t, _ast.Name) and t.id == "outputs" for t in n.targets) and \
                isinstance(n.value, (_ast.ListComp, _ast.GeneratorExp)):
            sources.append(n.value.elt)
    eng.add_static("output-scope/_deserialize_graph/sites", len(sources) >= 1 and len(scopes) == 1,
                   f"{len(sources)} expression(s) feed `outputs`; scope dictionaries pushed: {sorted(scopes)}", backend=BK)
    bad = []
    for src in sources:
        ok, why = origin_ok(src, scopes, fn)
        if not ok:
            bad.append(why)
    eng.add_static("output-scope/_deserialize_graph/definitions", not bad and bool(sources),
                   (f"every value that reaches `outputs` is a new Value or a subscript of {sorted(scopes)}" if not bad else
                    "a graph output may come from outside this graph's own scope: " + "; ".join(bad)), backend=BK)
