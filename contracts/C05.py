"""C05 — every built-in pass preserves what the model computes.

Deductive part: the *rewrite kernels* are proved against a ghost denotation argument.  A rewiring primitive
(`replace_all_uses_with(old, new)`) preserves what every consumer computes when `old` and `new` denote the same tensor;
that equality is a ghost precondition each call site must establish from facts the code has actually checked:
  * IdentityEliminationPass._try_eliminate_identity_node: `old` is the single output of an `Identity` node of the default
    domain whose single input is `new`; a returned False changed nothing; graph inputs / initializers are never renamed
    and an Identity from a graph input / initializer straight to a graph output is kept (interface preserved);
  * DeduplicateInitializersPass.call: `old` and `new` are initializers whose tensors agree on element type, shape and
    bytes (loop invariant over the key dictionary: every entry's tensor has exactly the key's dtype, shape and bytes).
Everything else (CSE, constant lifting, inlining, unused removal, output fixing, pass compositions, checker validity,
and the end-to-end "same outputs for all inputs") is bounded: reference execution before/after on hand-written models."""
import z3

from pyvc.core import ClassDecl, FnDecl
from pyvc.engine import Engine, Target
from pyvc.sem_stmt import LoopSpec
from pyvc.types import *  # noqa: F401,F403
from pyvc.types import BOOL, INT, STR, TOpt, TRef, TSeq, TTup
from . import schema

CORE = "onnx_ir._core"
IE = "onnx_ir.passes.common.identity_elimination"
DD = "onnx_ir.passes.common.initializer_deduplication"
CONV = "onnx_ir._convenience"
LEVEL = "other"
EXPLANATION = ("the rewrite kernels of identity elimination and initializer deduplication are proved on the real code (obligations/discharged); "
               "the end-to-end clause of the statement is checked only by the bounded stand-in (reference execution before/after) and is not counted as proved")
TRUSTED = ["replacing every use of a value by a value that denotes the same tensor preserves what each consumer computes (meta-argument: "
           "consumers are functions of their inputs' denotations); Identity(x) denotes x; an initializer denotes its tensor, and two tensors "
           "with equal element type, shape and bytes are the same tensor",
           "contracts assumed for the callees: convenience.replace_all_uses_with / Value.replace_all_uses_with (rewires uses, keeps graph output "
           "positions), Graph.remove(safe=True), the Value.name / shape / type setters, _merge_shapes (these are C01/C06 territory)"]
NOT_DECIDED = ["CommonSubexpressionEliminationPass (attribute normalisation through numpy), constant / subgraph-initializer lifting, InlinePass, "
               "RemoveUnused*Pass, OutputFixPass, AddDefaultAttributesPass, pass compositions, checker validity, and the end-to-end clause "
               "'same outputs for all inputs': bounded stand-in only (reference execution before/after)"]
BOUNDED = [{"name": "C05 every built-in pass and 60 pass pairs on hand-written checker-valid models: outputs equal position by position "
                    "(onnx.reference / onnxruntime), output and non-initializer input lists preserved, checker-valid stays valid (bounded)",
            "script": "bounded_passes.py", "args": ["--prop", "C05"]}]

SPEC = '''
def identity_of(y, x):
    return (nonnull(y) and nonnull(x) and nonnull(y._producer) and y._producer._op_type == "Identity" and y._producer._domain == "" and
            len(y._producer._inputs) == 1 and y._producer._inputs[0] is x and len(y._producer._outputs) == 1 and y._producer._outputs[0] is y)
'''

IRFIELDS = ["Value._name", "Value._shape", "Value._type", "Value._producer", "Value._graph", "Value._is_graph_input", "Value._is_graph_output",
            "Value._is_initializer", "Value._const_value", "Node._inputs", "Node._outputs", "Node._graph", "Node._name"]


def build(eng, tier):
    build_identity(eng)
    build_dedup(eng, tier)
    build_unused_removal(eng)
    build_unused_initializers(eng)
    build_output_fix(eng)
    build_constant_lifting(eng)
    build_initializer_input_conversion(eng)
    build_remove_initializers_from_inputs(eng)
    # shape inference and the checker reach ONNX through call_onnx_api: on every exit the initializers (values, tensors, order) and
    # the graph inputs are those of the entry state, so what the model computes is what it computed.  The contract is shared with
    # C14, whose quick check discharges it on every change (about 4 minutes of solver time); here it is part of the thorough tier.
    if tier == "thorough":
        from . import onnx_api
        onnx_api.add_call_onnx_api_target(eng, prop="C05")


def build_identity(eng):
    schema.core_ir(eng)
    eng.spec_fn(SPEC)
    unchanged = "unchanged(%s)" % ", ".join(repr(f) for f in IRFIELDS)
    ALLMOD = None          # callees may modify any IR field (their own contracts are C01/C06 territory)
    # ---- assumed contracts of the callees
    eng.functions[f"{CONV}.replace_all_uses_with"] = FnDecl(
        f"{CONV}.replace_all_uses_with", "contract", CONV, "replace_all_uses_with",
        # GHOST PRECONDITION: the replaced value and its replacement denote the same tensor
        requires=["identity_of(values, replacements)"],
        ensures=["unchanged('Value._name')",
                 "replacements._is_graph_input == old(replacements._is_graph_input)",
                 "replacements._is_initializer == old(replacements._is_initializer)"],
        raises={"AnyException": []}, modifies=ALLMOD)
    eng.functions[f"{CORE}.Graph.remove"] = FnDecl(f"{CORE}.Graph.remove", "contract", CORE, "Graph.remove",
        requires=[], ensures=["unchanged('Value._name')"], raises={"AnyException": []}, modifies=ALLMOD)
    eng.functions[f"{CORE}.Value.name#setter"] = FnDecl(f"{CORE}.Value.name#setter", "contract", CORE, "Value.name", kind="setter",
        requires=[], ensures=["self._name == value", "forall(lambda v=Value: implies(v is not self, v._name == old(v._name)))"],
        raises={"AnyException": []}, modifies=ALLMOD)
    eng.functions[f"{CORE}.Value.shape#setter"] = FnDecl(f"{CORE}.Value.shape#setter", "contract", CORE, "Value.shape", kind="setter",
        requires=[], ensures=["unchanged('Value._name', 'Value._type', 'Value._producer', 'Value._graph', 'Value._is_graph_input', "
                              "'Value._is_graph_output', 'Value._is_initializer', 'Value._const_value', 'Node._inputs', 'Node._outputs', 'Node._graph', 'Node._name')"],
        raises={"AnyException": []}, modifies=["Value._shape"])
    eng.functions[f"{IE}._merge_shapes"] = FnDecl(f"{IE}._merge_shapes", "contract", IE, "_merge_shapes", requires=[], ensures=[],
        raises={"ValueError": [unchanged]}, ret=TRef("Shape"), modifies=["$alloc"])
    eng.declare_class_from_source(IE, "IdentityEliminationPass", fields={})
    eng.add_target(Target("IdentityEliminationPass._try_eliminate_identity_node", mod=IE, qual="IdentityEliminationPass._try_eliminate_identity_node",
        self_cls="IdentityEliminationPass", params={"node": TRef("Node")},
        requires=["nonnull(node)", "nonnull(node._graph)",
                  # I2 of C01: outputs of a node are produced by it
                  "forall(lambda k=int: implies(0 <= k and k < len(node._outputs), nonnull(node._outputs[k]) and node._outputs[k]._producer is node))"],
        ensures=[
            # a node that was not rewritten is reported as such and nothing changed (also C14: modified=False => unchanged)
            f"implies(not result, {unchanged})",
            # interface preservation: an Identity from a graph input / initializer straight to a graph output is kept
            "implies(old(len(node._inputs) == 1 and len(node._outputs) == 1 and nonnull(node._inputs[0]) and node._outputs[0]._is_graph_output and "
            "(node._inputs[0]._is_graph_input or node._inputs[0]._is_initializer)), not result)",
            # ... and so is an Identity forwarding a value of ANOTHER graph (outer scope) to an output of this graph: a graph's
            # outputs are produced inside it (checker validity)
            "implies(result and old(node._outputs[0]._is_graph_output), nonnull(old(node._inputs[0]._producer)) and "
            "old(node._inputs[0]._producer._graph) is old(node._graph))",
            # graph inputs and initializers keep their names; the surviving value carries the name of a replaced graph output
            "forall(lambda v=Value: implies(old(allocated(v) and (v._is_graph_input or v._is_initializer)), v._name == old(v._name)))",
            "implies(result and old(node._outputs[0]._is_graph_output), old(node._inputs[0])._name == old(node._outputs[0]._name))",
            "implies(result and old(node._outputs[0]._is_graph_output), not old(node._inputs[0]._is_graph_input) and not old(node._inputs[0]._is_initializer))",
            # nothing else is renamed
            "forall(lambda v=Value: implies(old(allocated(v)) and v is not old(node._inputs[0]), v._name == old(v._name)))",
            # only Identity nodes of the default domain are ever rewritten
            "implies(result, old(node._op_type == 'Identity' and node._domain == ''))"],
        raises={"AnyException": [], "ValueError": []}, assert_mode="raise"))


def build_dedup(eng, tier):
    """DeduplicateInitializersPass.call: an initializer is only ever replaced by one whose tensor has the same element type,
    shape and bytes.  Loop invariant: every dictionary entry maps (dtype, dims, bytes) to an initializer whose tensor has
    exactly that dtype, those dims and those bytes."""
    from pyvc.types import VInt, VNone, VSeq, VStr, fresh_name
    S = STR.sorts()[0]
    dims_of = z3.Function("dims_of", Ref, S)        # tuple(shape): the dimension tuple of a Shape object
    bytes_of = z3.Function("bytes_of", Ref, S)      # _tobytes(tensor): the content bytes
    eng.spec_ufuncs["dims_of"] = (dims_of, STR)
    eng.spec_ufuncs["bytes_of"] = (bytes_of, STR)
    KEY = TTup([TRef("DataType"), STR, STR])
    DMAP = eng.DICT(KEY, TRef("Value"))
    eng.spec_fn('''
def same_tensor(a, b):
    return nonnull(a) and nonnull(b) and a.dtype is b.dtype and dims_of(a.shape) == dims_of(b.shape) and bytes_of(a) == bytes_of(b)

def key_of(t):
    return (t.dtype, dims_of(t.shape), bytes_of(t))
''')
    schema.opaque_class(eng, "Model")
    eng.method_models = dict(eng.method_models)

    def graphs(e, p, args, kwargs, node):
        v = e.symbolic_param(p, "graphs", TSeq(TRef("Graph")))
        i = z3.Int(fresh_name("gi"))
        p.assume(z3.ForAll([i], z3.Implies(z3.And(0 <= i, i < v.len), v.at(i).z != NULL)))
        return [(p, v)]
    eng.method_models[("Model", "graphs")] = FnDecl("Model.graphs", "builtin", impl=graphs)

    def values(e, p, args, kwargs, node):
        """graph.initializers.values(): some sequence of the graph's initializer values (C01: non-null, allocated)."""
        v = e.symbolic_param(p, "init_values", TSeq(TRef("Value")))
        i = z3.Int(fresh_name("vi"))
        p.assume(z3.ForAll([i], z3.Implies(z3.And(0 <= i, i < v.len), v.at(i).z != NULL)))
        return [(p, v)]
    eng.functions["stdlib:_collections_abc.Mapping.values"] = FnDecl("stdlib:_collections_abc.Mapping.values", "builtin", impl=values)
    KEEP = ["Value._const_value", "TensorLike.dtype", "TensorLike.shape", f"{DMAP.cls}.$v"]
    keep = "unchanged(%s)" % ", ".join(repr(f) for f in KEEP)
    def init_pop(e, p, args, kwargs, node):
        """graph.initializers.pop(name): removes an entry (C01/C06 territory); assumed not to touch tensors or the pass's dictionary."""
        from pyvc.core import Exc
        from pyvc.types import VOpaque
        pre = (dict(p.heap), p.epoch)
        e.havoc_heap(p, None)
        p.old_heaps.append(pre)
        p.assume(e.spec_bool(keep, p, {}))
        p.old_heaps.pop()
        q = p.copy()
        return [(p, VOpaque("popped initializer")), (q, Exc("KeyError", f"L{node.lineno}:initializers.pop"))]
    eng.functions["stdlib:_collections_abc.MutableMapping.pop"] = FnDecl("stdlib:_collections_abc.MutableMapping.pop", "builtin", impl=init_pop)
    eng.functions[f"{CORE}.Value.replace_all_uses_with"] = FnDecl(
        f"{CORE}.Value.replace_all_uses_with", "contract", CORE, "Value.replace_all_uses_with",
        # GHOST PRECONDITION: both are initializers holding the same tensor
        requires=["nonnull(replacement)", "same_tensor(self._const_value, replacement._const_value)"],
        ensures=[keep], raises={"AnyException": [keep]}, modifies=None)

    def tobytes(e, p, args, kwargs, node):
        return [(p, VStr(bytes_of(args[0].z)))]
    eng.functions[f"{DD}._tobytes"] = FnDecl(f"{DD}._tobytes", "builtin", impl=tobytes)
    orig_tuple = eng.bi_tuple

    def bi_tuple(p, args, kwargs, node):
        from pyvc.types import VRef
        if args and isinstance(args[0], VRef) and args[0].cls == "Shape":
            return [(p, VStr(dims_of(args[0].z)))]
        return orig_tuple(p, args, kwargs, node)
    eng.bi_tuple = bi_tuple
    eng.declare_class_from_source(DD, "DeduplicateInitializersPass", fields={"size_limit": INT})
    inv_d = ("forall(lambda kd=ref, ks=str, kb=str: implies((kd, ks, kb) in box(initializers), "
             "nonnull(box(initializers)[(kd, ks, kb)]) and allocated(box(initializers)[(kd, ks, kb)]) and "
             "nonnull(box(initializers)[(kd, ks, kb)]._const_value) and "
             "box(initializers)[(kd, ks, kb)]._const_value.dtype is kd and "
             "dims_of(box(initializers)[(kd, ks, kb)]._const_value.shape) == ks and "
             "bytes_of(box(initializers)[(kd, ks, kb)]._const_value) == kb))")
    eng.add_target(Target("DeduplicateInitializersPass.call", mod=DD, qual="DeduplicateInitializersPass.call",
        self_cls="DeduplicateInitializersPass", params={"model": TRef("Model")}, requires=["nonnull(model)"],
        local_types={"initializers": DMAP},
        loops={0: LoopSpec(invariant=[], modifies=None),
               1: LoopSpec(invariant=["nonnull(initializers)", "allocated(initializers)", inv_d], modifies=None)},
        ensures=[], raises_default=[], assert_mode="raise"))


def build_unused_removal(eng):
    """_remove_unused_nodes_in_graph_like (dead-code elimination): a node is handed to Graph.remove only when it is dead - none of
    its outputs is an output of the graph being cleaned and none has a use.  Carried as a ghost precondition on Graph.remove at
    this call site (removing such a node cannot change what the graph computes); proved with the invariant of the scanning loop
    over the node's outputs (`removable` still true => every output seen so far is dead).  The rest of the body (trimming of
    trailing inputs / optional outputs, recursion into subgraphs) is abstracted (lenient mode)."""
    from pyvc.core import Exc
    from pyvc.types import NULL, VNone, VOpaque, fresh_name
    UR = "onnx_ir.passes.common.unused_removal"
    schema.core_ir(eng)
    SETV = eng.SET(TRef("Value"))
    dead = ("forall(lambda j=int: implies(0 <= j and j < len(nodes._outputs), "
            "not (nodes._outputs[j] in g_outs) and len(box(nodes._outputs[j]._uses)) == 0))")
    remove_c = FnDecl(f"{CORE}.Graph.remove", "contract", CORE, "Graph.remove",
        # GHOST PRECONDITION: the node is dead (g_outs: the outputs of the graph being cleaned, captured when the scan started)
        requires=["nonnull(nodes)", dead], ensures=[], raises={"AnyException": []}, modifies=None)

    def fresh_nodes(e, p, name):
        import z3
        v = e.symbolic_param(p, fresh_name(name), TSeq(TRef("Node")))
        i = z3.Int(fresh_name("qi"))
        p.assume(v.len >= 0)
        p.assume(z3.ForAll([i], z3.Implies(z3.And(0 <= i, i < v.len), v.at(i).z != NULL)))
        return v

    def setup(e, p, env):
        e.lenient = True
        e.functions[f"{CORE}.Graph.remove"] = remove_c
        for nm in ("_remove_trailing_empty_inputs", "_remove_unused_optional_outputs", "_remove_unused_nodes_in_graph_like"):
            e.functions[f"{UR}.{nm}"] = FnDecl(f"{UR}.{nm}", "opaque", raises={"AnyException": []})
        orig_rev = e.bi_reversed

        def bi_reversed(p2, args, kwargs, node):
            from pyvc.types import VRef
            if args and isinstance(args[0], VRef) and args[0].cls == "Graph":
                return [(p2, fresh_nodes(e, p2, "nodes_reversed"))]      # some sequence of the graph's nodes
            return orig_rev(p2, args, kwargs, node)
        e.bi_reversed = bi_reversed
        orig_iter = e.iter_extra

        def iter_extra(v, p2):
            from pyvc.types import VRef
            if isinstance(v, VRef) and v.cls in ("GraphOutputs", "GraphInputs"):
                return e.to_seq(e.read_field(p2, v, "data"), p2)
            return orig_iter(v, p2)
        e.iter_extra = iter_extra
    eng.add_target(Target("_remove_unused_nodes_in_graph_like", mod=UR, qual="_remove_unused_nodes_in_graph_like", setup=setup,
        params={"function_or_graph": TRef("Graph")},
        requires=["nonnull(function_or_graph)", "nonnull(function_or_graph._outputs)", "nonnull(function_or_graph._outputs.data)",
                  "forall(lambda n=Node, j=int: implies(0 <= j and j < len(n._outputs), nonnull(n._outputs[j]) and nonnull(n._outputs[j]._uses)))"],
        local_types={"graph_outputs": SETV},
        ghost=[("store:graph_outputs", "after", "g_outs = graph_outputs")],
        loops={"for output in node.outputs": LoopSpec(
                   invariant=["implies(removable, forall(lambda j=int: implies(0 <= j and j < k, not (it[j] in g_outs) and len(box(it[j]._uses)) == 0)))"],
                   modifies=[])},
        ensures=[], raises_default=[], modifies=None, assert_mode="raise"))


def build_unused_initializers(eng):
    """RemoveUnusedNodesPass.call: an initializer is deleted only when it has no use and is neither an input nor an output of
    the main graph (ghost precondition on GraphInitializers.__delitem__ at this call site: `key` names such an initializer)."""
    UR = "onnx_ir.passes.common.unused_removal"
    GCm = "onnx_ir._graph_containers"
    SETV = eng.SET(TRef("Value"))
    eng.declare_class_from_source(UR, "RemoveUnusedNodesPass", fields={})
    if "Model" not in eng.classes:
        schema.opaque_class(eng, "Model")
    eng.classes["Model"].fields.setdefault("graph", TRef("Graph"))
    schema.opaque_class(eng, "Functions05")
    eng.classes["Model"].fields.setdefault("functions", TRef("Functions05"))
    dead_init = ("key is not None and some(key) in box(self.data) and len(box(box(self.data)[some(key)]._uses)) == 0 and "
                 "not (box(self.data)[some(key)] in g_gout) and not (box(self.data)[some(key)] in g_gin)")
    del_c = FnDecl(f"{GCm}.GraphInitializers.__delitem__", "contract", GCm, "GraphInitializers.__delitem__",
        requires=["nonnull(self.data)", dead_init], ensures=[], raises={"AnyException": []}, modifies=None)

    def setup(e, p, env):
        e.lenient = True
        e.functions[f"{GCm}.GraphInitializers.__delitem__"] = del_c
        e.functions[f"{UR}._remove_unused_nodes_in_graph_like"] = FnDecl(f"{UR}._remove_unused_nodes_in_graph_like", "opaque", raises={"AnyException": []})
        orig_iter = e.iter_extra

        def iter_extra(v, p2):
            from pyvc.types import VRef
            if isinstance(v, VRef) and v.cls in ("GraphOutputs", "GraphInputs"):
                return e.to_seq(e.read_field(p2, v, "data"), p2)
            return orig_iter(v, p2)
        e.iter_extra = iter_extra
        # initializers.values(): the values of the dictionary
        e.functions["stdlib:_collections_abc.Mapping.values"] = FnDecl("Mapping.values", "builtin", impl=lambda e2, p2, a, k, n: [(p2, map_values(e2, p2, a[0]))])

    def map_values(e, p, d):
        import z3
        from pyvc.types import NULL, fresh_name
        m = e.box_value(p, e.read_field(p, d, "data"))
        v = e.symbolic_param(p, fresh_name("init_values"), TSeq(TRef("Value")))
        i = z3.Int(fresh_name("vi"))
        p.assume(v.len >= 0)
        # every enumerated value is non-null, named, and stored under its name (C01 INIT)
        nm = lambda x: e.read_field(p, x, "_name")
        p.assume(z3.ForAll([i], z3.Implies(z3.And(0 <= i, i < v.len),
                 z3.And(v.at(i).z != NULL, z3.Not(nm(v.at(i)).isnone), m.has(nm(v.at(i)).val), m.get(nm(v.at(i)).val).z == v.at(i).z))))
        return v
    eng.add_target(Target("RemoveUnusedNodesPass.call[initializers]", mod=UR, qual="RemoveUnusedNodesPass.call", self_cls="RemoveUnusedNodesPass",
        params={"model": TRef("Model")}, setup=setup,
        requires=["nonnull(model)", "nonnull(model.graph)", "nonnull(model.graph._outputs)", "nonnull(model.graph._inputs)",
                  "nonnull(model.graph._outputs.data)", "nonnull(model.graph._inputs.data)",
                  "nonnull(model.graph._initializers)", "nonnull(model.graph._initializers.data)",
                  "forall(lambda v=Value: nonnull(v._uses))"],
        local_types={"graph_outputs": SETV, "graph_inputs": SETV},
        ghost=[("store:graph_outputs", "after", "g_gout = graph_outputs"), ("store:graph_inputs", "after", "g_gin = graph_inputs")],
        ensures=[], raises_default=[], modifies=None, assert_mode="raise"))


def build_output_fix(eng):
    """OutputFixPass kernels (_alias_multi_used_outputs, _alias_direct_outputs): a graph output is only ever replaced, at its own
    position, by the single output of a new Identity node whose single input is the value that was there (ghost precondition
    on the outputs container's __setitem__ at these sites) - so every output position computes what it computed, and the
    number and order of outputs is kept (postcondition of __setitem__: same length, other positions untouched).
    Loop invariant of the scan over the outputs: the positions not yet visited still hold the values that were enumerated."""
    from pyvc.core import Exc
    from pyvc.types import NULL, VFunc, VNone, VOpaque, VStr, fresh_name
    import z3
    OF = "onnx_ir.passes.common.output_fix"
    GCm = "onnx_ir._graph_containers"
    schema.core_ir(eng)
    SETV = eng.SET(TRef("Value"))
    V = TRef("Value")
    LVs = eng.LIST(TRef("Value")).cls + ".$v"
    KEEP = "unchanged('Node._inputs', 'Node._outputs', 'Node._op_type', 'Value._producer', 'Graph._outputs', '_GraphIO.data')"
    KEEPL = "unchanged(%r)" % LVs
    alias = ("0 <= i and i < len(box(self.data)) and nonnull(item) and nonnull(item._producer) and item._producer._op_type == 'Identity' and "
             "len(item._producer._inputs) == 1 and item._producer._inputs[0] is box(self.data)[i] and "
             "len(item._producer._outputs) == 1 and item._producer._outputs[0] is item and fresh(item._producer)")
    set_c = FnDecl(f"{GCm}._GraphIO.__setitem__", "contract", GCm, "_GraphIO.__setitem__",
        # GHOST PRECONDITION: `item` is the output of a NEW Identity node fed by the value currently at position i
        requires=["nonnull(self.data)", alias],
        ensures=["len(box(self.data)) == old(len(box(self.data)))", "box(self.data)[i] is item",
                 "forall(lambda j=int: implies(0 <= j and j < len(box(self.data)) and j != i, box(self.data)[j] is old(box(self.data)[j])))",
                 KEEP, "forall(lambda d=GraphOutputs: implies(d is not self, box(d.data) == old(box(d.data))))"],
        raises={"AnyException": []}, modifies=None)
    append_c = FnDecl(f"{CORE}.Graph.append", "contract", CORE, "Graph.append", requires=["nonnull(node)"],
        ensures=[KEEP, KEEPL], raises={"AnyException": []}, modifies=None)
    LVc = eng.LIST(V)

    def ir_node(e, p, args, kwargs, node):
        """ir.node(op_type, inputs=[v]): a new node with these inputs and one new output it produces"""
        n = e.new_object(p, "Node")
        o = e.new_object(p, "Value")
        ins = e.to_seq(kwargs["inputs"], p)
        e.write_field(p, n, "_inputs", ins)
        from pyvc.types import VSeq
        e.write_field(p, n, "_outputs", VSeq.of([o], V))
        e.write_field(p, n, "_op_type", args[0])
        e.write_field(p, o, "_producer", n)
        return [(p, n), (p.copy(), Exc("AnyException", f"L{node.lineno}:ir.node"))]

    def fresh_graphs(e, p, args, kwargs, node):
        v = e.symbolic_param(p, fresh_name("subgraphs"), TSeq(TRef("Graph")))
        i = z3.Int(fresh_name("gi"))
        p.assume(v.len >= 0)
        ea = e._entry_alloc(p)
        p.assume(z3.ForAll([i], z3.Implies(z3.And(0 <= i, i < v.len), z3.And(v.at(i).z != NULL, z3.Select(ea, v.at(i).z)))))
        return [(p, v)]

    def setup(e, p, env):
        e.lenient = True
        e.functions[f"{GCm}._GraphIO.__setitem__"] = set_c
        e.functions[f"{CORE}.Graph.append"] = append_c
        e.functions[f"{CORE}.Graph.subgraphs"] = FnDecl("Graph.subgraphs", "builtin", impl=fresh_graphs)
        for prop_ in ("name", "shape", "type", "doc_string"):
            key = f"{CORE}.Value.{prop_}#setter"
            e.functions[key] = FnDecl(key, "contract", CORE, f"Value.{prop_}", kind="setter", requires=[], ensures=[KEEP, KEEPL],
                                      raises={"AnyException": []}, modifies=None)
        e.lib_models["c05.ir_node"] = ir_node
        orig = e.module_attr

        def module_attr(m, name, p2):
            if name == "node" and m.name in ("onnx_ir", "ext:onnx_ir"):
                return VFunc("lib", "c05.ir_node", "ir.node")
            return orig(m, name, p2)
        e.module_attr = module_attr
        orig_iter = e.iter_extra

        def iter_extra(v, p2):
            from pyvc.types import VRef
            if isinstance(v, VRef) and v.cls in ("GraphOutputs", "GraphInputs"):
                return e.to_seq(e.read_field(p2, v, "data"), p2)
            return orig_iter(v, p2)
        e.iter_extra = iter_extra
    # (well-formedness of the graphs that existed when the kernel was entered: callees may create objects)
    wf = ["nonnull(graph_like)", "forall(lambda g=Graph: implies(old(allocated(g)), nonnull(g._outputs) and nonnull(g._outputs.data)))",
          "forall(lambda g=Graph, h=Graph: implies(old(allocated(g)) and old(allocated(h)) and g is not h, g._outputs is not h._outputs and g._outputs.data is not h._outputs.data))",
          "forall(lambda g=Graph, j=int: implies(old(allocated(g)) and 0 <= j and j < len(box(g._outputs.data)), nonnull(box(g._outputs.data)[j])))"]
    pending = ("len(box(graph._outputs.data)) == len(it) and "
               "forall(lambda j=int: implies(k <= j and j < len(it), box(graph._outputs.data)[j] is %s))")
    eng.add_target(Target("_alias_multi_used_outputs", mod=OF, qual="_alias_multi_used_outputs", setup=setup,
        params={"graph_like": TRef("Graph")}, requires=[w.replace("old(allocated(g)) and old(allocated(h)) and ", "").replace("implies(old(allocated(g)), ", "(").replace("old(allocated(g)) and ", "") for w in wf],
        local_types={"seen": SETV},
        loops={"for graph in (graph_like, *graph_like.subgraphs())": LoopSpec(invariant=wf[1:], modifies=None),
               "for (i, output) in enumerate(graph.outputs)": LoopSpec(invariant=wf[1:] + ["nonnull(graph)", "old(allocated(graph))", pending % "it[j][1]"], modifies=None)},
        ensures=[], raises_default=[], modifies=None, assert_mode="raise"))

    # _alias_direct_outputs: the outputs to fix are collected first ((value, index) pairs), then replaced one by one: a collected
    # pair still describes the container when its turn comes (only positions already handled have changed, pairs have distinct
    # indices in increasing order)
    PAIR = eng.LIST(TTup([V, INT]))
    collected = ("forall(lambda m=int: implies(0 <= m and m < len(box(outputs_to_fix)), 0 <= box(outputs_to_fix)[m][1] and "
                 "box(outputs_to_fix)[m][1] < len(box(graph._outputs.data)) and box(outputs_to_fix)[m][0] is box(graph._outputs.data)[box(outputs_to_fix)[m][1]])) and "
                 "forall(lambda m=int, n=int: implies(0 <= m and m < n and n < len(box(outputs_to_fix)), box(outputs_to_fix)[m][1] < box(outputs_to_fix)[n][1]))")
    eng.add_target(Target("_alias_direct_outputs", mod=OF, qual="_alias_direct_outputs", setup=setup,
        params={"graph_like": TRef("Graph")}, requires=[w.replace("old(allocated(g)) and old(allocated(h)) and ", "").replace("implies(old(allocated(g)), ", "(").replace("old(allocated(g)) and ", "") for w in wf],
        local_types={"outputs_to_fix": PAIR},
        loops={"for graph in (graph_like, *graph_like.subgraphs())": LoopSpec(invariant=wf[1:], modifies=None),
               "for (i, output) in enumerate(graph.outputs)": LoopSpec(
                   invariant=wf[1:] + ["nonnull(graph)", "old(allocated(graph))", "nonnull(outputs_to_fix)",
                                       "len(box(graph._outputs.data)) == len(it)",
                                       "forall(lambda j=int: implies(0 <= j and j < len(it), box(graph._outputs.data)[j] is it[j][1]))",
                                       collected,
                                       "forall(lambda m=int: implies(0 <= m and m < len(box(outputs_to_fix)), box(outputs_to_fix)[m][1] < k))"],
                   modifies=[PAIR.cls + ".$v"]),
               "for (output, index) in outputs_to_fix": LoopSpec(
                   invariant=wf[1:] + ["nonnull(graph)", "old(allocated(graph))",
                                       "forall(lambda m=int: implies(k <= m and m < len(it), 0 <= it[m][1] and it[m][1] < len(box(graph._outputs.data)) and "
                                       "it[m][0] is box(graph._outputs.data)[it[m][1]]))",
                                       "forall(lambda m=int, n=int: implies(0 <= m and m < n and n < len(it), it[m][1] < it[n][1]))"],
                   modifies=None)},
        ensures=[], raises_default=[], modifies=None, assert_mode="raise"))


def build_constant_lifting(eng):
    """LiftConstantsToInitializersPass.call: the output of a node is only ever replaced by an initializer when the node is a
    Constant of the standard domain whose output is not a graph output, and the initializer holds the tensor that
    _constant_node_attribute_to_tensor built for THAT node (ghost precondition on Value.replace_all_uses_with at this site).
    `denotes(t, n)` - tensor t is the value Constant node n produces - is the assumed contract of
    _constant_node_attribute_to_tensor (it maps each of the seven value_* attribute kinds to the tensor of that value)."""
    from pyvc.core import Exc
    from pyvc.types import BOOL, NULL, Ref, VFunc, VNone, VOpaque, fresh_name
    import z3
    CM = "onnx_ir.passes.common.constant_manipulation"
    schema.core_ir(eng)
    eng.declare_class_from_source(CM, "LiftConstantsToInitializersPass", fields={"lift_all_constants": BOOL, "size_limit": INT})
    if "PassResult" not in eng.classes:
        PI = "onnx_ir.passes._pass_infra"
        if "Model" not in eng.classes:
            schema.opaque_class(eng, "Model")
        eng.declare_class_from_source(PI, "PassResult", fields={"model": TRef("Model"), "modified": BOOL})
        eng.classes["PassResult"].dataclass_fields = ["model", "modified"]
    denotes = z3.Function("denotes", Ref, Ref, z3.BoolSort())
    eng.spec_ufuncs["denotes"] = (denotes, BOOL)
    if "Model" not in eng.classes:
        schema.opaque_class(eng, "Model")
    eng.classes["Model"].fields.setdefault("graph", TRef("Graph"))
    KEEP = "unchanged('Node._op_type', 'Node._domain', 'Node._outputs', 'Value._producer', 'Value._is_graph_output', 'Value._const_value')"
    to_tensor = FnDecl(f"{CM}.LiftConstantsToInitializersPass._constant_node_attribute_to_tensor", "contract", CM,
        "LiftConstantsToInitializersPass._constant_node_attribute_to_tensor",
        requires=[], ensures=["result is None or denotes(result, node)", KEEP], ret=TRef("TensorLike"), raises={"AnyException": [KEEP]}, modifies=["$alloc"])
    rauw = FnDecl(f"{CORE}.Value.replace_all_uses_with", "contract", CORE, "Value.replace_all_uses_with",
        # GHOST PRECONDITION: self is the (non-output) result of a standard-domain Constant node and the replacement holds the
        # tensor that node denotes
        requires=["nonnull(replacement)", "nonnull(self._producer)", "self._producer._op_type == 'Constant'",
                  "self._producer._domain == '' or self._producer._domain == 'onnx.ai'",
                  "len(self._producer._outputs) >= 1 and self._producer._outputs[0] is self", "not self._is_graph_output",
                  "nonnull(replacement._const_value) and denotes(replacement._const_value, self._producer)"],
        ensures=[KEEP], raises={"AnyException": []}, modifies=None)
    rauw.edits_ir = True

    def fresh_nodes(e, p, args, kwargs, node):
        v = e.symbolic_param(p, fresh_name("all_nodes"), TSeq(TRef("Node")))
        i = z3.Int(fresh_name("qi"))
        p.assume(v.len >= 0)
        p.assume(z3.ForAll([i], z3.Implies(z3.And(0 <= i, i < v.len), v.at(i).z != NULL)))
        return [(p, v)]

    def new_value(e, p, args, kwargs, node):
        v = e.new_object(p, "Value")
        e.write_field(p, v, "_const_value", kwargs.get("const_value"))
        e.write_field(p, v, "_name", kwargs.get("name"))
        return [(p, v), (p.copy(), Exc("AnyException", f"L{node.lineno}:ir.Value"))]

    def setup(e, p, env):
        e.lenient = True
        e.functions[to_tensor.fqn] = to_tensor
        e.functions[f"{CORE}.Value.replace_all_uses_with"] = rauw
        for nm in ("register_initializer", "remove"):
            e.functions[f"{CORE}.Graph.{nm}"] = FnDecl(f"{CORE}.Graph.{nm}", "contract", CORE, f"Graph.{nm}", requires=[], ensures=[KEEP],
                                                        raises={"AnyException": []}, modifies=None)
            e.functions[f"{CORE}.Graph.{nm}"].edits_ir = True
        e.lib_models["c05.traversal"] = fresh_nodes
        e.lib_models["c05.Value"] = new_value
        orig = e.module_attr

        def module_attr(m, name, p2):
            if name == "RecursiveGraphIterator":
                return VFunc("lib", "c05.traversal", name)
            if name == "Value" and m.name in ("onnx_ir", "ext:onnx_ir"):
                return VFunc("lib", "c05.Value", "ir.Value")
            return orig(m, name, p2)
        e.module_attr = module_attr
    eng.add_target(Target("LiftConstantsToInitializersPass.call", mod=CM, qual="LiftConstantsToInitializersPass.call",
        self_cls="LiftConstantsToInitializersPass", params={"model": TRef("Model")}, setup=setup,
        requires=["nonnull(model)", "forall(lambda n=Node, j=int: implies(0 <= j and j < len(n._outputs), nonnull(n._outputs[j]) and n._outputs[j]._producer is n))"],
        ghost_init="g_edits = 0",
        loops={"for node in ir.traversal.RecursiveGraphIterator(model.graph)": LoopSpec(
            invariant=["forall(lambda n=Node, j=int: implies(old(allocated(n)) and 0 <= j and j < len(n._outputs), nonnull(n._outputs[j]) and n._outputs[j]._producer is n))",
                       # modified-flag soundness (C14): an IR edit has happened only if a constant has been counted
                       "count >= 0", "implies(g_edits > 0, count > 0)"],
            modifies=None)},
        ensures=["implies(result.modified == False, g_edits == 0)"], raises_default=[], modifies=None, assert_mode="raise"))


def build_initializer_input_conversion(eng):
    """AddInitializersToInputsPass.call: the only edit of a graph's input list is an append of a value that is stored in that
    graph's initializer dictionary and is not yet an input (ghost precondition on the inputs container's append at this site) -
    so every existing input keeps its position and the non-initializer inputs are untouched.
    RemoveInitializersFromInputsPass.call: the list handed back to the (cleared) inputs container is the old input list with
    exactly the initializers dropped, order kept (ghost precondition on extend; ghost position witnesses in the filter loop)."""
    from pyvc.core import Exc
    from pyvc.types import NULL, VFunc, VOpaque, fresh_name
    import z3
    CM = "onnx_ir.passes.common.constant_manipulation"
    GCm = "onnx_ir._graph_containers"
    schema.core_ir(eng)
    SETV = eng.SET(TRef("Value"))
    V = TRef("Value")
    LVt = eng.LIST(V)
    for cls in ("AddInitializersToInputsPass", "RemoveInitializersFromInputsPass"):
        eng.declare_class_from_source(CM, cls, fields={})
    if "Model" not in eng.classes:
        schema.opaque_class(eng, "Model")
    KEEP = "unchanged('Graph._inputs', 'Graph._initializers', '_GraphIO.data', 'GraphInitializers.data', 'Value._is_initializer')"
    append_c = FnDecl(f"{GCm}._GraphIO.append", "contract", GCm, "_GraphIO.append",
        # GHOST PRECONDITION: the appended value is an initializer (flagged: by the C01 invariant INIT exactly the values stored in
        # an initializer dictionary carry the flag)
        requires=["nonnull(item)", "item._is_initializer"],
        ensures=["len(box(self.data)) == old(len(box(self.data))) + 1", "box(self.data)[old(len(box(self.data)))] is item",
                 "forall(lambda j=int: implies(0 <= j and j < old(len(box(self.data))), box(self.data)[j] is old(box(self.data)[j])))",
                 KEEP, "forall(lambda d=GraphInputs: implies(d is not self, box(d.data) == old(box(d.data))))"],
        raises={"AnyException": []}, modifies=None)

    def fresh_seq(e, p, ety, name):
        v = e.symbolic_param(p, fresh_name(name), TSeq(ety))
        i = z3.Int(fresh_name("qi"))
        p.assume(v.len >= 0)
        ea = e._entry_alloc(p)
        p.assume(z3.ForAll([i], z3.Implies(z3.And(0 <= i, i < v.len), z3.And(v.at(i).z != NULL, z3.Select(ea, v.at(i).z)))))
        return v

    def setup(e, p, env):
        e.lenient = True
        e.functions[f"{GCm}._GraphIO.append"] = append_c
        e.method_models = dict(e.method_models)
        e.method_models[("Model", "graphs")] = FnDecl("Model.graphs", "builtin", impl=lambda e2, p2, a, k, n: [(p2, fresh_seq(e2, p2, TRef("Graph"), "graphs"))])
        def init_values(e2, p2, a, k, n):
            v = fresh_seq(e2, p2, V, "init_values")
            i = z3.Int(fresh_name("fi"))
            flag = e2.heap_arrays(p2, e2.heap_key("Value", "_is_initializer")[0], e2.heap_key("Value", "_is_initializer")[1])[0]
            p2.assume(z3.ForAll([i], z3.Implies(z3.And(0 <= i, i < v.len), z3.Select(flag, v.at(i).z))))      # INIT (C01)
            return [(p2, v)]
        e.functions["stdlib:_collections_abc.Mapping.values"] = FnDecl("Mapping.values", "builtin", impl=init_values)
        orig_iter = e.iter_extra

        def iter_extra(v, p2):
            from pyvc.types import VRef
            if isinstance(v, VRef) and v.cls in ("GraphOutputs", "GraphInputs"):
                return e.to_seq(e.read_field(p2, v, "data"), p2)
            return orig_iter(v, p2)
        e.iter_extra = iter_extra
    wf = ["forall(lambda g=Graph: implies(old(allocated(g)), nonnull(g._inputs) and nonnull(g._inputs.data) and nonnull(g._initializers)))",
          "forall(lambda g=Graph, h=Graph: implies(old(allocated(g)) and old(allocated(h)) and g is not h, g._inputs is not h._inputs and g._inputs.data is not h._inputs.data))"]
    pre = [w.replace("old(allocated(g)) and old(allocated(h)) and ", "").replace("implies(old(allocated(g)), ", "(") for w in wf]
    eng.add_target(Target("AddInitializersToInputsPass.call", mod=CM, qual="AddInitializersToInputsPass.call", self_cls="AddInitializersToInputsPass",
        params={"model": TRef("Model")}, setup=setup, requires=["nonnull(model)"] + pre,
        local_types={"inputs_set": SETV},
        loops={"for graph in model.graphs()": LoopSpec(invariant=wf, modifies=None),
               "for initializer in graph.initializers.values()": LoopSpec(
                   invariant=wf + ["nonnull(graph)", "old(allocated(graph))",
                                   "forall(lambda j=int: implies(0 <= j and j < len(it), it[j]._is_initializer))"],
                   modifies=None)},
        ensures=[], raises_default=[], modifies=None, assert_mode="raise"))


def build_remove_initializers_from_inputs(eng):
    """RemoveInitializersFromInputsPass.call: `the number and order of ... non-initializer inputs is preserved`.  The list handed
    to the (cleared) inputs container is the old input list with exactly the initializers dropped, order kept - a ghost
    precondition on extend at this site, carried through the filter loop by two ghost witnesses: g_idx (for every kept element its
    position in the old list, strictly increasing) and g_pos (for every old position the position it went to, or -1 for a
    dropped initializer)."""
    from pyvc.core import Exc
    from pyvc.types import NULL, fresh_name
    import z3
    CM = "onnx_ir.passes.common.constant_manipulation"
    GCm = "onnx_ir._graph_containers"
    schema.core_ir(eng)
    V = TRef("Value")
    SETV = eng.SET(V)
    LVt = eng.LIST(V)
    if "RemoveInitializersFromInputsPass" not in eng.classes:
        eng.declare_class_from_source(CM, "RemoveInitializersFromInputsPass", fields={})
    eng.spec_fn('''
def filtered(old, new, idx, pos, inits):
    return (len(idx) == len(new) and len(pos) == len(old) and
            forall(lambda m=int: implies(0 <= m and m < len(new), 0 <= idx[m] and idx[m] < len(old) and new[m] is old[idx[m]] and pos[idx[m]] == m)) and
            forall(lambda m=int, n=int: implies(0 <= m and m < n and n < len(new), idx[m] < idx[n])) and
            forall(lambda j=int: implies(0 <= j and j < len(old) and old[j] in inits, pos[j] == -1)) and
            forall(lambda j=int: implies(0 <= j and j < len(old) and not (old[j] in inits), 0 <= pos[j] and pos[j] < len(new) and idx[pos[j]] == j)))
''')
    KEEP = "unchanged('Graph._inputs', 'Graph._initializers', '_GraphIO.data')"
    others = "forall(lambda d=GraphInputs: implies(d is not self, box(d.data) == old(box(d.data))))"
    clear_c = FnDecl(f"{GCm}._GraphIO.clear", "contract", GCm, "_GraphIO.clear", requires=["nonnull(self.data)"],
        # (clearing the container leaves the caller's freshly built list alone)
        ensures=["len(box(self.data)) == 0", KEEP, others, "nonnull(caller_new_inputs) and seq_eq(box(caller_new_inputs), old(box(caller_new_inputs)))"],
        raises={"AnyException": []}, modifies=None)
    extend_c = FnDecl(f"{GCm}._GraphIO.extend", "contract", GCm, "_GraphIO.extend",
        # GHOST PRECONDITION: what is put back is the old input list filtered by `not an initializer`, order kept
        requires=["nonnull(other)", "filtered(g_it, box(other), g_idx, g_pos, g_inits)"],
        ensures=[KEEP, others], raises={"AnyException": []}, modifies=None)

    def fresh_seq(e, p, ety, name):
        v = e.symbolic_param(p, fresh_name(name), TSeq(ety))
        i = z3.Int(fresh_name("qi"))
        ea = e._entry_alloc(p)
        p.assume(v.len >= 0)
        p.assume(z3.ForAll([i], z3.Implies(z3.And(0 <= i, i < v.len), z3.And(v.at(i).z != NULL, z3.Select(ea, v.at(i).z)))))
        return v

    def setup(e, p, env):
        e.lenient = True
        e.functions[f"{GCm}._GraphIO.clear"] = clear_c
        e.functions[f"{GCm}._GraphIO.extend"] = extend_c
        e.method_models = dict(e.method_models)
        e.method_models[("Model", "graphs")] = FnDecl("Model.graphs", "builtin", impl=lambda e2, p2, a, k, n: [(p2, fresh_seq(e2, p2, TRef("Graph"), "graphs"))])
        e.functions["stdlib:_collections_abc.Mapping.values"] = FnDecl("Mapping.values", "builtin",
            impl=lambda e2, p2, a, k, n: [(p2, fresh_seq(e2, p2, V, "init_values"))])
        orig_iter = e.iter_extra

        def iter_extra(v, p2):
            from pyvc.types import VRef
            if isinstance(v, VRef) and v.cls in ("GraphOutputs", "GraphInputs"):
                return e.to_seq(e.read_field(p2, v, "data"), p2)
            return orig_iter(v, p2)
        e.iter_extra = iter_extra
    wf = ["forall(lambda g=Graph: implies(old(allocated(g)), nonnull(g._inputs) and nonnull(g._inputs.data) and nonnull(g._initializers)))",
          "forall(lambda g=Graph, h=Graph: implies(old(allocated(g)) and old(allocated(h)) and g is not h, g._inputs is not h._inputs and g._inputs.data is not h._inputs.data))"]
    pre = [w.replace("old(allocated(g)) and old(allocated(h)) and ", "").replace("implies(old(allocated(g)), ", "(") for w in wf]
    eng.add_target(Target("RemoveInitializersFromInputsPass.call", mod=CM, qual="RemoveInitializersFromInputsPass.call",
        self_cls="RemoveInitializersFromInputsPass", params={"model": TRef("Model")}, setup=setup, requires=["nonnull(model)"] + pre,
        local_types={"initializers": SETV, "new_inputs": LVt},
        ghost_init="g_idx = IntSeq()\ng_pos = IntSeq()\ng_it = EmptySeq(Value)",
        ghost=[("store:initializers", "after", "g_inits = box(initializers)"),       # the set's VALUE (callees may not change what it was)
               ("store:new_inputs", "after", "g_idx = IntSeq()\ng_pos = IntSeq()\ng_it = box(graph._inputs.data)"),
               ("new_inputs.append(input_value)", "before", "g_idx = g_idx + IntSeq(g_k)\ng_pos = g_pos + IntSeq(len(box(new_inputs)))"),
               ("count += 1", "before", "g_pos = g_pos + IntSeq(-1)")],
        loops={"for graph in model.graphs()": LoopSpec(invariant=wf, modifies=None),
               "for input_value in graph.inputs": LoopSpec(
                   invariant=wf + ["nonnull(graph)", "old(allocated(graph))", "nonnull(new_inputs)", "seq_eq(g_it, it)",
                                   "seq_eq(box(graph._inputs.data), g_it)",
                                   "len(g_pos) == k and len(g_idx) == len(box(new_inputs))",
                                   "forall(lambda m=int: implies(0 <= m and m < len(box(new_inputs)), 0 <= g_idx[m] and g_idx[m] < k and "
                                   "box(new_inputs)[m] is g_it[g_idx[m]] and g_pos[g_idx[m]] == m))",
                                   "forall(lambda m=int, n=int: implies(0 <= m and m < n and n < len(box(new_inputs)), g_idx[m] < g_idx[n]))",
                                   "forall(lambda j=int: implies(0 <= j and j < k and g_it[j] in g_inits, g_pos[j] == -1))",
                                   "forall(lambda j=int: implies(0 <= j and j < k and not (g_it[j] in g_inits), "
                                   "0 <= g_pos[j] and g_pos[j] < len(box(new_inputs)) and g_idx[g_pos[j]] == j))"],
                   modifies=[LVt.cls + ".$v"])},
        ensures=[], raises_default=[], modifies=None, assert_mode="raise"))

