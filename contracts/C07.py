"""C07 — external-data layout: contracts on the real functions of external_data.py / _safetensors / _io."""
from pyvc.engine import Target
from pyvc.sem_stmt import LoopSpec
from pyvc.core import FnDecl
from pyvc.types import *  # noqa: F401,F403
from pyvc.types import BOOL, INT, STR, TOpt, TRef, TSeq
from . import schema, libs

ED = "onnx_ir.external_data"
LEVEL = "proof"
TRUSTED = ["tensor.nbytes/name/dtype/shape are stable attributes with nbytes >= 0 (TensorProtocol contract, assumed)",
           "os.path.join/normpath: deterministic string functions (trusted library contract)"]
NOT_DECIDED = ["save->load byte round trip (I/O) is only covered by the bounded stand-in",
               "safetensors backend writer (third-party safetensors library)"]
BOUNDED = []

SPEC = '''
def factor(alignment):
    return max(4096, alignment)

def align_rule(off, prev_end, nb, alignment, thr):
    return (implies(alignment is None or nb <= thr, off == prev_end) and
            implies(alignment is not None and nb > thr, off % factor(alignment) == 0 and off - prev_end < factor(alignment)))

def aligned_ok(off, prev_end, nb, alignment, thr):
    return off >= prev_end and align_rule(off, prev_end, nb, alignment, thr)

def prev_end(infos, j):
    return ite(j == 0, 0, infos[j - 1].offset + infos[j - 1].length)

def layout_prefix(tensors, infos, n, alignment, thr):
    return forall(lambda j=int: implies(0 <= j and j < n,
        infos[j].length == tensors[j].nbytes and infos[j].name == tensors[j].name and
        aligned_ok(infos[j].offset, prev_end(infos, j), tensors[j].nbytes, alignment, thr)))

def et_prev_end(ets, j):
    return ite(j == 0, 0, some(ets[j - 1]._offset) + some(ets[j - 1]._length))

def et_layout_prefix(tensors, ets, n, alignment, thr):
    return forall(lambda j=int: implies(0 <= j and j < n,
        nonnull(ets[j]) and ets[j]._offset is not None and ets[j]._length is not None and
        ets[j]._length == tensors[j].nbytes and ets[j]._name == tensors[j].name and
        ets[j]._dtype is tensors[j].dtype and ets[j]._shape is tensors[j].shape and
        aligned_ok(some(ets[j]._offset), et_prev_end(ets, j), tensors[j].nbytes, alignment, thr)))

def et_mirror(tensors, ets, infos, n):
    return forall(lambda j=int: implies(0 <= j and j < n,
        nonnull(ets[j]) and ets[j]._offset is not None and ets[j]._length is not None and
        ets[j]._offset == infos[j].offset and ets[j]._length == infos[j].length and ets[j]._name == tensors[j].name and
        ets[j]._dtype is tensors[j].dtype and ets[j]._shape is tensors[j].shape))

def nbytes_nonneg(tensors):
    return forall(lambda j=int: implies(0 <= j and j < len(tensors), nonnull(tensors[j]) and tensors[j].nbytes >= 0 and nonnull(tensors[j].shape)))
'''


def build(eng, tier):
    T = schema.tensor_protocol(eng)
    ET = schema.external_tensor(eng)
    INFO = schema.external_data_info(eng)
    libs.install_os_path(eng)
    eng.spec_fn(SPEC)
    eng.opaque_specs = {"align_rule"}
    eng.global_overrides[("onnx_ir", "DEBUG")] = VBool(False)
    opt = dict(alignment=TOpt(INT), align_threshold=INT)

    # L1 ------------------------------------------------------------------------------------------------------
    eng.add_target(Target("_align_offset", mod=ED, qual="_align_offset",
        params=dict(current_offset=INT, tensor_size=INT, **opt),
        requires=["current_offset >= 0", "alignment is None or alignment > 0"],
        ensures=["aligned_ok(result, current_offset, tensor_size, alignment, align_threshold)"], reveal=["align_rule"]))
    # from here on _align_offset is used through its contract (modular); align_rule stays opaque
    align_contract = FnDecl(f"{ED}._align_offset", "contract", ED, "_align_offset",
        requires=["current_offset >= 0", "alignment is None or alignment > 0"],
        ensures=["aligned_ok(result, current_offset, tensor_size, alignment, align_threshold)"], ret=INT, pure=True)


    eng.functions[f"{ED}._align_offset"] = align_contract
    eng.add_target(Target("_compute_external_data_info", mod=ED, qual="_compute_external_data_info",
        params=dict(tensor=T, current_offset=INT, **opt),
        requires=["nonnull(tensor)", "current_offset >= 0", "alignment is None or alignment > 0", "tensor.nbytes >= 0"],
        ensures=["result.length == tensor.nbytes", "result.name == tensor.name",
                 "aligned_ok(result.offset, current_offset, tensor.nbytes, alignment, align_threshold)"],
        raises={}))

    # L2 + L5: offset loop, data flow to the writer and to the returned ExternalTensors --------------------------
    LINFO = eng.LIST(INFO)
    eng.functions[f"{ED}._write_external_data"] = FnDecl(
        f"{ED}._write_external_data", "contract", ED, "_write_external_data",
        requires=["len(external_data_infos) == len(tensors)",
                  "layout_prefix(tensors, Seq(external_data_infos), len(tensors), caller_alignment, caller_align_threshold)"],
        ensures=[], raises={"AnyException": []}, modifies=["ExternalTensor._valid", "ExternalTensor.raw", "ExternalTensor._array"])
    eng.method_models = {("Shape", "freeze"): FnDecl("onnx_ir._core.Shape.freeze", "opaque")}
    eng.add_target(Target("convert_tensors_to_external", mod=ED, qual="convert_tensors_to_external",
        params=dict(tensors=TSeq(T), base_dir=STR, relative_path=STR, max_workers=TOpt(INT), max_in_flight_bytes=INT, **opt),
        requires=["nbytes_nonneg(tensors)"],
        ensures=["len(result) == len(tensors)",
                 "et_layout_prefix(tensors, Seq(result), len(tensors), alignment, align_threshold)",
                 "forall(lambda j=int: implies(0 <= j and j < len(tensors), fresh(result[j])))"],
        raises={"ValueError": ["alignment is not None and alignment <= 0 or align_threshold < 0 or max_in_flight_bytes <= 0 or (max_workers is not None and max_workers <= 0)"],
                "AnyException": []},
        local_types={"external_data_infos": LINFO},
        loops={
            0: LoopSpec(invariant=[
                    "len(external_data_infos) == k",
                    "current_offset == prev_end(Seq(external_data_infos), k)", "current_offset >= 0",
                    "layout_prefix(tensors, Seq(external_data_infos), k, alignment, align_threshold)"],
                modifies=["%s.$v" % LINFO.cls, "$alloc"]),
            1: LoopSpec(invariant=[
                    "len(acc) == k",
                    "et_mirror(tensors, Seq(acc), Seq(external_data_infos), k)",
                    "forall(lambda j=int: implies(0 <= j and j < k, fresh(acc[j]) and allocated(acc[j])))"],
                modifies=["ExternalTensor.*", "%s.$v" % eng.LIST(ET).cls, "$alloc"], elem=ET),
        }))
