"""C07 — external-data layout: contracts on the real functions of external_data.py / _safetensors / _io."""
from pyvc.engine import Target
from pyvc.sem_stmt import LoopSpec
from pyvc.core import FnDecl
from pyvc.types import *  # noqa: F401,F403
from pyvc.types import BOOL, INT, STR, TOpt, TRef, TSeq
from . import schema, libs

ED = "onnx_ir.external_data"
LEVEL = "proof"
TRUSTED = ["tensor.nbytes/name/dtype/shape are stable attributes with nbytes >= 0 (TensorProtocol contract, assumed)",
           "os.path.join/normpath: deterministic string functions (trusted library contract)",
           "save[restore]: unload_from_model may assign any tensor to any value's const_value and may raise (weakest contract, assumed as "
           "its only effect on const_value slots); serde.serialize_model and onnx.save assign no const_value (assumed frame); "
           "Model.graphs() / GraphInitializers.values() are abstracted as the sequences g_graphs / g_vals (abstract view of the containers)"]
NOT_DECIDED = ["save->load byte round trip (I/O) is only covered by the bounded stand-in",
               "safetensors backend writer (third-party safetensors library)"]
BOUNDED = [{"name": 'C07 save/load round trip grid, layout of recorded ranges, in-place re-save, tensor objects restored (bounded, not a proof)', "script": "bounded_extdata.py", "args": ["--prop", 'C07']}]

SPEC = '''
def factor(alignment):
    return max(4096, alignment)

def align_rule(off, prev_end, nb, alignment, thr):
    return (implies(alignment is None or nb <= thr, off == prev_end) and
            implies(alignment is not None and nb > thr, off % factor(alignment) == 0 and off - prev_end < factor(alignment)))

def aligned_ok(off, prev_end, nb, alignment, thr):
    return off >= prev_end and align_rule(off, prev_end, nb, alignment, thr)

def prev_end(infos, j):
    return ite(j == 0, 0, infos[j - 1].offset + infos[j - 1].length)

def layout_prefix(tensors, infos, n, alignment, thr):
    return forall(lambda j=int: implies(0 <= j and j < n,
        infos[j].length == tensors[j].nbytes and infos[j].name == tensors[j].name and
        aligned_ok(infos[j].offset, prev_end(infos, j), tensors[j].nbytes, alignment, thr)))

def et_prev_end(ets, j):
    return ite(j == 0, 0, some(ets[j - 1]._offset) + some(ets[j - 1]._length))

def et_layout_prefix(tensors, ets, n, alignment, thr):
    return forall(lambda j=int: implies(0 <= j and j < n,
        nonnull(ets[j]) and ets[j]._offset is not None and ets[j]._length is not None and
        ets[j]._length == tensors[j].nbytes and ets[j]._name == tensors[j].name and
        ets[j]._dtype is tensors[j].dtype and ets[j]._shape is tensors[j].shape and
        aligned_ok(some(ets[j]._offset), et_prev_end(ets, j), tensors[j].nbytes, alignment, thr)))

def et_mirror(tensors, ets, infos, n):
    return forall(lambda j=int: implies(0 <= j and j < n,
        nonnull(ets[j]) and ets[j]._offset is not None and ets[j]._length is not None and
        ets[j]._offset == infos[j].offset and ets[j]._length == infos[j].length and ets[j]._name == tensors[j].name and
        ets[j]._dtype is tensors[j].dtype and ets[j]._shape is tensors[j].shape))

def nbytes_nonneg(tensors):
    return forall(lambda j=int: implies(0 <= j and j < len(tensors), nonnull(tensors[j]) and tensors[j].nbytes >= 0 and nonnull(tensors[j].shape)))
'''


def build(eng, tier):
    T = schema.tensor_protocol(eng)
    ET = schema.external_tensor(eng)
    INFO = schema.external_data_info(eng)
    libs.install_os_path(eng)
    eng.spec_fn(SPEC)
    eng.opaque_specs = {"align_rule"}
    eng.global_overrides[("onnx_ir", "DEBUG")] = VBool(False)
    opt = dict(alignment=TOpt(INT), align_threshold=INT)

    # L1 ------------------------------------------------------------------------------------------------------
    eng.add_target(Target("_align_offset", mod=ED, qual="_align_offset",
        params=dict(current_offset=INT, tensor_size=INT, **opt),
        requires=["current_offset >= 0", "alignment is None or alignment > 0"],
        ensures=["aligned_ok(result, current_offset, tensor_size, alignment, align_threshold)"], reveal=["align_rule"]))
    eng.add_lemma("align_rule_at_zero",
                  "forall(lambda nb=int, al=optint, thr=int: implies(al is None or al > 0, align_rule(0, 0, nb, al, thr)))",
                  reveal=["align_rule"])
    # from here on _align_offset is used through its contract (modular); align_rule stays opaque
    align_contract = FnDecl(f"{ED}._align_offset", "contract", ED, "_align_offset",
        requires=["current_offset >= 0", "alignment is None or alignment > 0"],
        ensures=["aligned_ok(result, current_offset, tensor_size, alignment, align_threshold)"], ret=INT, pure=True)


    eng.functions[f"{ED}._align_offset"] = align_contract
    eng.add_target(Target("_compute_external_data_info", mod=ED, qual="_compute_external_data_info",
        params=dict(tensor=T, current_offset=INT, **opt),
        requires=["nonnull(tensor)", "current_offset >= 0", "alignment is None or alignment > 0", "tensor.nbytes >= 0"],
        ensures=["result.length == tensor.nbytes", "result.name == tensor.name",
                 "aligned_ok(result.offset, current_offset, tensor.nbytes, alignment, align_threshold)"],
        raises={}))

    # L2 + L5: offset loop, data flow to the writer and to the returned ExternalTensors --------------------------
    LINFO = eng.LIST(INFO)
    eng.functions[f"{ED}._write_external_data"] = FnDecl(
        f"{ED}._write_external_data", "contract", ED, "_write_external_data",
        requires=["len(external_data_infos) == len(tensors)",
                  "layout_prefix(tensors, Seq(external_data_infos), len(tensors), caller_alignment, caller_align_threshold)"],
        ensures=[], raises={"AnyException": []}, modifies=["ExternalTensor._valid", "ExternalTensor.raw", "ExternalTensor._array"])
    eng.method_models = {("Shape", "freeze"): FnDecl("onnx_ir._core.Shape.freeze", "opaque")}
    eng.add_target(Target("convert_tensors_to_external", mod=ED, qual="convert_tensors_to_external",
        params=dict(tensors=TSeq(T), base_dir=STR, relative_path=STR, max_workers=TOpt(INT), max_in_flight_bytes=INT, **opt),
        requires=["nbytes_nonneg(tensors)"],
        ensures=["len(result) == len(tensors)",
                 "et_layout_prefix(tensors, Seq(result), len(tensors), alignment, align_threshold)",
                 "forall(lambda j=int: implies(0 <= j and j < len(tensors), fresh(result[j])))"],
        raises={"ValueError": ["alignment is not None and alignment <= 0 or align_threshold < 0 or max_in_flight_bytes <= 0 or (max_workers is not None and max_workers <= 0)"],
                "AnyException": []},
        local_types={"external_data_infos": LINFO},
        loops={
            0: LoopSpec(invariant=[
                    "len(external_data_infos) == k",
                    "current_offset == prev_end(Seq(external_data_infos), k)", "current_offset >= 0",
                    "layout_prefix(tensors, Seq(external_data_infos), k, alignment, align_threshold)"],
                modifies=["%s.$v" % LINFO.cls, "$alloc"]),
            1: LoopSpec(invariant=[
                    "len(acc) == k",
                    "et_mirror(tensors, Seq(acc), Seq(external_data_infos), k)",
                    "forall(lambda j=int: implies(0 <= j and j < k, fresh(acc[j]) and allocated(acc[j])))"],
                modifies=["ExternalTensor.*", "%s.$v" % eng.LIST(ET).cls, "$alloc"], elem=ET),
        }))

    # L4: _shard_tensors -------------------------------------------------------------------------------------
    # Ghost state: g_starts[i] = index in `tensors` of the first tensor of shard i; per tensor t: g_off[t] = its offset
    # inside its shard, g_first[t] = 1 iff it opens a shard.
    LT = eng.LIST(T)
    LLT = eng.LIST(LT)
    eng.spec_fn('''
def shards_wf(shards, starts, n_done):
    return (len(shards) >= 1 and len(starts) == len(shards) and starts[0] == 0 and
            forall(lambda i=int: implies(0 <= i and i < len(shards), nonnull(shards[i]) and allocated(shards[i]) and fresh(shards[i]))) and
            forall(lambda i=int, i2=int: implies(0 <= i and i < i2 and i2 < len(shards), shards[i] is not shards[i2])) and
            forall(lambda i=int: implies(0 <= i and i < len(shards) - 1, starts[i + 1] == starts[i] + len(shards[i]) and len(shards[i]) >= 1)) and
            forall(lambda i=int: implies(0 <= i and i < len(shards), 0 <= starts[i] and starts[i] + len(shards[i]) <= n_done)) and
            forall(lambda i=int, i2=int: implies(0 <= i and i < i2 and i2 < len(shards), starts[i] + len(shards[i]) <= starts[i2])) and
            starts[len(shards) - 1] + len(shards[len(shards) - 1]) == n_done)

def shards_partition(tensors, shards, starts):
    return forall(lambda i=int, j=int: implies(0 <= i and i < len(shards) and 0 <= j and j < len(shards[i]),
                  shards[i][j] is tensors[starts[i] + j]))

def first_link(shards, starts, first):
    return forall(lambda i=int, t=int: implies(0 <= i and i < len(shards) and starts[i] <= t and t < starts[i] + len(shards[i]),
                  first[t] == ite(t == starts[i], 1, 0)))

def layout_t(tensors, off, first, n, alignment, thr):
    return forall(lambda t=int: implies(0 <= t and t < n, off[t] >= 0 and (first[t] == 0 or first[t] == 1) and
                  aligned_ok(off[t], ite(first[t] == 1, 0, off[t - 1] + tensors[t - 1].nbytes), tensors[t].nbytes, alignment, thr)))

def bounded_t(tensors, off, first, n, limit):
    return forall(lambda t=int: implies(0 <= t and t < n,
                  off[t] + tensors[t].nbytes <= limit or (first[t] == 1 and implies(t + 1 < n, first[t + 1] == 1))))

def shard_end(tensors, shards, starts, off, i):
    return off[starts[i] + len(shards[i]) - 1] + tensors[starts[i] + len(shards[i]) - 1].nbytes
''')
    eng.add_target(Target("_shard_tensors", mod=ED, qual="_shard_tensors",
        params=dict(tensors=TSeq(T), max_shard_size_bytes=INT, **opt),
        requires=["nbytes_nonneg(tensors)", "alignment is None or alignment > 0"],
        ensures=["shards_wf(result, g_starts, len(tensors))",
                 "shards_partition(tensors, result, g_starts)",
                 "len(result[len(result) - 1]) >= 1 or len(tensors) == 0",
                 "len(g_off) == len(tensors) and len(g_first) == len(tensors)",
                 "first_link(result, g_starts, g_first)",
                 "layout_t(tensors, g_off, g_first, len(tensors), alignment, align_threshold)",
                 "bounded_t(tensors, g_off, g_first, len(tensors), max_shard_size_bytes)",
                 # hint (instance of first_link at the last slot of each shard), then the statement's clause per shard:
                 # a shard exceeds the limit only if it holds a single tensor
                 "forall(lambda i=int: implies(0 <= i and i < len(result) and len(result[i]) >= 1, "
                 "g_first[g_starts[i] + len(result[i]) - 1] == ite(len(result[i]) == 1, 1, 0)))",
                 "forall(lambda i=int: implies(0 <= i and i < len(result) and len(result[i]) >= 1, "
                 "shard_end(tensors, result, g_starts, g_off, i) <= max_shard_size_bytes or len(result[i]) == 1))"],
        local_types={"shards": LLT},
        ghost_init="g_starts = IntSeq(0)\ng_off = IntSeq()\ng_first = IntSeq()",
        ghost=[("shards.append([])", "after", "g_starts = g_starts + IntSeq(g_k)"),
               ("shards[-1].append(tensor)", "after",
                "g_off = g_off + IntSeq(offset)\ng_first = g_first + IntSeq(ite(len(shards[len(shards) - 1]) == 1, 1, 0))")],
        loops={0: LoopSpec(invariant=[
            "shards_wf(shards, g_starts, k)",
            "shards_partition(tensors, shards, g_starts)",
            "len(shards[len(shards) - 1]) >= 1 or k == 0",
            "len(g_off) == k and len(g_first) == k", "shard_size >= 0",
            "first_link(shards, g_starts, g_first)",
            "layout_t(tensors, g_off, g_first, k, alignment, align_threshold)",
            "bounded_t(tensors, g_off, g_first, k, max_shard_size_bytes)",
            "shard_size == ite(k == 0, 0, g_off[k - 1] + tensors[k - 1].nbytes)",
        ], modifies=["%s.$v" % LT.cls, "%s.$v" % LLT.cls, "$alloc"])}))


# ------------------------------------------------------------------------------------------------------------------
# `The model object passed to save holds the same tensor objects afterwards, whether save returned or raised`
IO = "onnx_ir._io"
CORE = "onnx_ir._core"


def add_save_restore_target(eng):
    """onnx_ir._io.save, external_data given: whatever unload_from_model / serialize_model / onnx.save do to the tensors of the
    initializers (they are replaced by ExternalTensor objects, on a failure possibly only some of them), every exit of
    save - normal or exceptional, from any of those calls - leaves every initializer of every graph of the model holding
    the tensor object it held at entry.  The collection loop and the restoring loop are cut with invariants; the callees
    are abstracted by the weakest contract (`may assign any tensor to any value's const_value, may raise`)."""
    from pyvc.core import ClassDecl
    V = TRef("Value")
    G = TRef("Graph")
    if "Value" not in eng.classes:
        eng.declare_class_from_source(CORE, "Value", fields={"_const_value": TRef("TensorLike")}, bases=[])
    eng.add_class(ClassDecl("GraphInitializers7", fields={"g_vals": TSeq(V)}))
    eng.add_class(ClassDecl("Graph7", fields={"initializers": TRef("GraphInitializers7")}))
    eng.add_class(ClassDecl("Model7", fields={"g_graphs": TSeq(TRef("Graph7"))}))
    LV = eng.LIST(V)
    LTn = eng.LIST(TRef("TensorLike"))
    def m_graphs(e, p, args, kwargs, node):
        return [(p, e.read_field(p, args[0], "g_graphs"))]

    def m_values(e, p, args, kwargs, node):
        return [(p, e.read_field(p, args[0], "g_vals"))]
    eng.method_models = dict(getattr(eng, "method_models", {}) or {})
    eng.method_models[("Model7", "graphs")] = FnDecl("onnx_ir._core.Model.graphs", "builtin", impl=m_graphs)
    eng.method_models[("GraphInitializers7", "values")] = FnDecl("GraphInitializers.values", "builtin", impl=m_values)
    # the callees between the snapshot and the restore: weakest contract over the state the property talks about
    eng.functions[f"{ED}.unload_from_model"] = FnDecl(f"{ED}.unload_from_model", "contract", ED, "unload_from_model",
        requires=[], ensures=["result is model"], ret=TRef("Model7"), raises={"AnyException": []}, modifies=["Value._const_value"])

    # serialization reads the model (assumed frame: it assigns no const_value); it may raise
    eng.functions["onnx_ir.serde.serialize_model"] = FnDecl("onnx_ir.serde.serialize_model", "contract", "onnx_ir.serde", "serialize_model",
        requires=[], ensures=[], raises={"AnyException": []}, modifies=[])

    def lib_isabs(e, p, args, kwargs, node):
        import z3
        from pyvc.types import VBool, fresh_name
        return [(p, VBool(z3.Bool(fresh_name("isabs"))))]

    def lib_onnx_save(e, p, args, kwargs, node):
        from pyvc.core import Exc
        from pyvc.types import VNone
        return [(p, VNone()), (p.copy(), Exc("AnyException", f"L{node.lineno}:onnx.save"))]

    def setup(e, p, env):
        e.lenient = False
        e.lib_models["os.path.isabs"] = lib_isabs
        e.lib_models["onnx.save"] = lib_onnx_save

    wf = ("forall(lambda i=int: implies(0 <= i and i < len(model.g_graphs), nonnull(model.g_graphs[i]) and nonnull(model.g_graphs[i].initializers))) and "
          "forall(lambda i=int, j=int: implies(0 <= i and i < len(model.g_graphs) and 0 <= j and j < len(model.g_graphs[i].initializers.g_vals), "
          "nonnull(model.g_graphs[i].initializers.g_vals[j])))")
    restored = ("forall(lambda i=int, j=int: implies(0 <= i and i < len(model.g_graphs) and 0 <= j and j < len(model.g_graphs[i].initializers.g_vals), "
                "model.g_graphs[i].initializers.g_vals[j]._const_value is old(model.g_graphs[i].initializers.g_vals[j]._const_value)))")
    HINTS = ["forall(lambda i=int, j=int: implies(0 <= i and i < len(g_start) and i < len(model.g_graphs) and 0 <= j and j < len(model.g_graphs[i].initializers.g_vals), "
             "0 <= g_start[i] + j and g_start[i] + j < len(g_iv) and g_iv[g_start[i] + j] is model.g_graphs[i].initializers.g_vals[j]))",
             "forall(lambda m=int: implies(0 <= m and m < len(g_iv), g_iv[m]._const_value is old(g_iv[m]._const_value)))"]
    eng.add_target(Target("save[restore]", mod=IO, qual="save", setup=setup,
        params=dict(model=TRef("Model7"), path=STR, format=TOpt(STR), external_data=TOpt(STR), size_threshold_bytes=INT,
                    max_shard_size_bytes=TOpt(INT), callback=TRef(None), max_workers=TOpt(INT), max_in_flight_bytes=TOpt(INT),
                    alignment=TOpt(INT), align_threshold=INT),
        requires=["nonnull(model)", wf],
        local_types={"initialized_values": LV, "tensors": LTn},
        # ghost: where each graph's registered values start in the collected list (a witness instead of an existential)
        ghost_init="g_start = IntSeq()\ng_iv = EmptySeq(Value)",
        ghost=[("initialized_values.extend(graph.initializers.values())", "before", "g_start = g_start + IntSeq(len(initialized_values))"),
               ("initialized_values.extend(graph.initializers.values())", "after", "g_iv = Seq(initialized_values)")],
        loops={
            # collection: everything registered in the graphs visited so far is in the list, in order
            0: LoopSpec(invariant=[
                "len(g_start) == k", "seq_eq(g_iv, Seq(initialized_values))",
                "forall(lambda i=int: implies(0 <= i and i < k, 0 <= g_start[i] and g_start[i] + len(model.g_graphs[i].initializers.g_vals) <= len(initialized_values)))",
                "forall(lambda i=int, j=int: implies(0 <= i and i < k and 0 <= j and j < len(model.g_graphs[i].initializers.g_vals), "
                "initialized_values[g_start[i] + j] is model.g_graphs[i].initializers.g_vals[j]))",
                "forall(lambda m=int: implies(0 <= m and m < len(initialized_values), nonnull(initialized_values[m])))"],
                modifies=[f"{LV.cls}.$v"]),
            # restore: the first k collected values hold their entry tensors again (a value collected twice is written twice
            # with the same object)
            # snapshot (a comprehension): the m-th snapshot is the entry tensor of the m-th collected value
            1: LoopSpec(invariant=[
                "len(acc) == k",
                "forall(lambda m=int: implies(0 <= m and m < k, acc[m] is old(g_iv[m]._const_value)))"],
                modifies=["$alloc", f"{LTn.cls}.$v"], elem=TRef("TensorLike")),
            2: LoopSpec(invariant=[
                "forall(lambda m=int: implies(0 <= m and m < k, g_iv[m]._const_value is old(g_iv[m]._const_value)))"],
                modifies=["Value._const_value"]),
        },
        ensures=HINTS + [restored], raises_default=HINTS + [restored], modifies=None, assert_mode="raise"))


_build0 = build


def build(eng, tier):
    _build0(eng, tier)
    add_save_restore_target(eng)


def add_collection_order_obligations(eng):
    """`In each data file the recorded byte ranges follow declaration order ... every tensor is in exactly one shard`: the list
    returned by _write_external_tensors must line up with the tensors position by position, so the per-shard results have to be
    concatenated in shard order.  Decided on the source: every loop of _write_external_tensors that extends the result list
    iterates a plain variable holding a list built in shard order (the job list, or the list of futures built by a list
    comprehension over the job list) - not a call such as as_completed(...) / reversed(...) / set(...) whose order is another."""
    import ast
    from pyvc import extract
    tree = ast.parse(open(extract.module_path(ED)).read())
    fn = next((n for n in ast.walk(tree) if isinstance(n, ast.FunctionDef) and n.name == "_write_external_tensors"), None)
    BK = "collection-order (syntactic data flow, onnx_ir.external_data)"
    if fn is None:
        eng.add_static("collection-order/_write_external_tensors", False, "function not found", backend=BK)
        return
    # names bound to lists that are in shard order: shard_jobs (appended in the partition loop) and list comprehensions over it
    ordered = {"shard_jobs"}
    for n in ast.walk(fn):
        if isinstance(n, ast.Assign) and isinstance(n.value, ast.ListComp) and len(n.value.generators) == 1:
            it = n.value.generators[0].iter
            if isinstance(it, ast.Name) and it.id in ordered and not n.value.generators[0].ifs:
                ordered |= {t.id for t in n.targets if isinstance(t, ast.Name)}
    k = 0
    for loop in ast.walk(fn):
        if not isinstance(loop, ast.For):
            continue
        extends = [c for c in ast.walk(loop) if isinstance(c, ast.Call) and isinstance(c.func, ast.Attribute) and c.func.attr in ("extend", "append")
                   and isinstance(c.func.value, ast.Name) and c.func.value.id == "external_tensors"]
        if not extends:
            continue
        k += 1
        ok = isinstance(loop.iter, ast.Name) and loop.iter.id in ordered
        eng.add_static(f"collection-order/_write_external_tensors/loop#{k}", ok,
                       f"loop at line {loop.lineno} collects shard results from `{ast.unparse(loop.iter)[:60]}`" +
                       ("" if ok else ": not a list in shard order"), backend=BK)
    eng.add_static("collection-order/_write_external_tensors/sites", k >= 2, f"{k} collecting loops found (serial and concurrent shard drivers)", backend=BK)


_build_c07b = build


def build(eng, tier):
    _build_c07b(eng, tier)
    add_collection_order_obligations(eng)


def add_unload_order_target(eng):
    """unload_from_model: an already-external tensor that falls below the threshold is read back into memory (so that it can be
    stored inline).  Its bytes live in a data file that the same save may be about to replace: the read must happen BEFORE the
    write.  Dominance obligation on the real function (lenient mode): on every path the call of _write_external_tensors is
    preceded by the call of convert_tensors_from_external - and the result of that call is what the values receive."""
    from pyvc.core import Exc
    from pyvc.types import VFunc, VOpaque
    import z3

    def reader(e, p, args, kwargs, node):
        p.ghost["$read_back"] = True
        return [(p, VOpaque("memory tensors")), (p.copy(), Exc("AnyException", f"L{node.lineno}:convert_tensors_from_external"))]

    def writer(e, p, args, kwargs, node):
        e.oblige(p, z3.BoolVal(bool(p.ghost.get("$read_back"))), "dominance",
                 f"L{node.lineno}:_write_external_tensors (may replace the data file) is preceded by convert_tensors_from_external (reads it)")
        return [(p, VOpaque("external tensors")), (p.copy(), Exc("AnyException", f"L{node.lineno}:_write_external_tensors"))]

    def setup(e, p, env):
        e.lenient = True
        e.global_overrides = dict(e.global_overrides)
        e.global_overrides[(ED, "convert_tensors_from_external")] = VFunc("py", reader, "convert_tensors_from_external")
        e.global_overrides[(ED, "_write_external_tensors")] = VFunc("py", writer, "_write_external_tensors")
    if "Model7" not in eng.classes:
        from pyvc.core import ClassDecl
        eng.add_class(ClassDecl("Model7"))
    t = Target("unload_from_model[order]", mod=ED, qual="unload_from_model", setup=setup,
               params=dict(model=TRef("Model7"), base_dir=STR, relative_path=STR, size_threshold_bytes=INT, max_shard_size_bytes=TOpt(INT),
                           callback=TRef(None), max_workers=TOpt(INT), max_in_flight_bytes=TOpt(INT), alignment=TOpt(INT), align_threshold=INT),
               requires=[], ensures=[], raises_default=[], assert_mode="raise")
    t.local_containers = ("initializers_to_become_external", "initializers_to_load_to_memory", "tensors_to_externalize")
    eng.add_target(t)


_build_c07c = build


def build(eng, tier):
    _build_c07c(eng, tier)
    add_unload_order_target(eng)
