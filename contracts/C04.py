"""C04 — tensor representations agree: the packing helpers of _type_casting against a byte-level numpy model, the
nbytes formula, and (bounded stand-in) cross-representation agreement on the real library."""
from pyvc.engine import Target
from pyvc.npmodel import NumpyEngine, TNp
from pyvc.types import *  # noqa: F401,F403
from pyvc.types import INT

TC = "onnx_ir._type_casting"
LEVEL = "proof"
ENGINE_CLASS = NumpyEngine
TRUSTED = ["numpy model: 1-D uint8 arrays as (n, Int->BV8); ravel/view(uint8)/copy keep element bytes for 1-byte dtypes; "
           "ndarray.resize zero-pads; strided slices and in-place operators as in numpy (validated natively by the bounded stand-in)"]
NOT_DECIDED = ["agreement with the ONNX reference encoder/decoder and framework adapters: bounded stand-in only",
               "per-class tobytes()/numpy()/tofile() of Tensor, PackedTensor, ExternalTensor, LazyTensor, TensorProtoTensor: bounded stand-in only"]
BOUNDED = [{"name": "C04 representations x dtypes x shapes x offsets agree on values and bytes (bounded, not a proof)",
            "script": "bounded_tensor.py", "args": []}]


def build(eng, tier):
    A = TNp()
    eng.add_lemma("nibble_roundtrip",
                  "forall(lambda x=bv8, y=bv8: (((x & 15) | ((y & 15) << 4)) & 15) == (x & 15) and ((((x & 15) | ((y & 15) << 4)) >> 4) == (y & 15)))")
    eng.add_lemma("crumb_roundtrip",
                  "forall(lambda a=bv8, b=bv8, c=bv8, d=bv8: "
                  "((((a & 3) | ((b & 3) << 2) | ((c & 3) << 4) | ((d & 3) << 6)) & 3) == (a & 3)) and "
                  "(((((a & 3) | ((b & 3) << 2) | ((c & 3) << 4) | ((d & 3) << 6)) & 12) >> 2) == (b & 3)) and "
                  "(((((a & 3) | ((b & 3) << 2) | ((c & 3) << 4) | ((d & 3) << 6)) & 48) >> 4) == (c & 3)) and "
                  "(((((a & 3) | ((b & 3) << 2) | ((c & 3) << 4) | ((d & 3) << 6)) & 192) >> 6) == (d & 3)))")
    eng.add_target(Target("pack_4bitx2", mod=TC, qual="pack_4bitx2", params=dict(array=A), requires=["array.size >= 0"],
        ensures=["result.size == (array.size + 1) // 2",
                 "forall(lambda k=int: implies(0 <= k and k < result.size and 2 * k + 1 < array.size, "
                 "result[k] == ((array[2 * k] & 15) | ((array[2 * k + 1] & 15) << 4))))",
                 "forall(lambda k=int: implies(0 <= k and k < result.size and 2 * k + 1 >= array.size, result[k] == (array[2 * k] & 15)))"]))
    eng.add_target(Target("unpack_4bitx2", mod=TC, qual="unpack_4bitx2", params=dict(data=A, dims=INT),
        requires=["data.size >= 0", "dims >= 0", "dims == 2 * data.size or dims == 2 * data.size - 1"],
        ensures=["result.size == dims",
                 "forall(lambda j=int: implies(0 <= j and j < dims and j % 2 == 0, result[j] == (data[j // 2] & 15)))",
                 "forall(lambda j=int: implies(0 <= j and j < dims and j % 2 == 1, result[j] == (data[j // 2] >> 4)))"]))
    eng.add_target(Target("pack_2bitx4", mod=TC, qual="pack_2bitx4", params=dict(array=A), requires=["array.size >= 0"],
        ensures=["result.size == (array.size + 3) // 4",
                 "forall(lambda k=int: implies(0 <= k and k < result.size and 4 * k + 3 < array.size, "
                 "result[k] == ((array[4 * k] & 3) | ((array[4 * k + 1] & 3) << 2) | ((array[4 * k + 2] & 3) << 4) | ((array[4 * k + 3] & 3) << 6))))",
                 "forall(lambda k=int: implies(0 <= k and k < result.size, (result[k] & 3) == (array[4 * k] & 3)))"]))
    eng.add_target(Target("unpack_2bitx4", mod=TC, qual="unpack_2bitx4", params=dict(data=A, dims=INT),
        requires=["data.size >= 0", "dims >= 0", "dims <= 4 * data.size", "dims > 4 * data.size - 4"],
        ensures=["result.size == dims",
                 "forall(lambda j=int: implies(0 <= j and j < dims and j % 4 == 0, result[j] == (data[j // 4] & 3)))",
                 "forall(lambda j=int: implies(0 <= j and j < dims and j % 4 == 1, result[j] == ((data[j // 4] & 12) >> 2)))",
                 "forall(lambda j=int: implies(0 <= j and j < dims and j % 4 == 2, result[j] == ((data[j // 4] & 48) >> 4)))",
                 "forall(lambda j=int: implies(0 <= j and j < dims and j % 4 == 3, result[j] == ((data[j // 4] & 192) >> 6)))"]))
