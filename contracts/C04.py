"""C04 — tensor representations agree: the packing helpers of _type_casting against a byte-level numpy model, the
nbytes formula, and (bounded stand-in) cross-representation agreement on the real library."""
from pyvc.core import Unsupported
from pyvc.engine import Target
from pyvc.npmodel import NumpyEngine, TNp
from pyvc.types import *  # noqa: F401,F403
from pyvc.types import INT

TC = "onnx_ir._type_casting"
LEVEL = "proof"
ENGINE_CLASS = NumpyEngine
TRUSTED = ["file API contracts used by the tofile target: read(n) returns at most n bytes starting at the current position and advances it; "
           "seek sets it; write delivers the chunk; os.copy_file_range(count, offset_src, offset_dst) copies c <= count bytes between the two "
           "offsets without moving the descriptors; tell() is the current position",
           "numpy model: 1-D uint8 arrays as (n, Int->BV8); ravel/view(uint8)/copy keep element bytes for 1-byte dtypes; "
           "ndarray.resize zero-pads; strided slices and in-place operators as in numpy (validated natively by the bounded stand-in)"]
NOT_DECIDED = ["agreement with the ONNX reference encoder/decoder and framework adapters: bounded stand-in only",
               "per-class tobytes()/numpy()/tofile() of Tensor, PackedTensor, LazyTensor, TensorProtoTensor and ExternalTensor.tobytes/numpy: "
               "bounded stand-in only (ExternalTensor.tofile is under contract over a ghost I/O model)"]
BOUNDED = [{"name": "C04 representations x dtypes x shapes x offsets agree on values and bytes (bounded, not a proof)",
            "script": "bounded_tensor.py", "args": []}]


def build(eng, tier):
    A = TNp()
    eng.add_lemma("nibble_roundtrip",
                  "forall(lambda x=bv8, y=bv8: (((x & 15) | ((y & 15) << 4)) & 15) == (x & 15) and ((((x & 15) | ((y & 15) << 4)) >> 4) == (y & 15)))")
    eng.add_lemma("crumb_roundtrip",
                  "forall(lambda a=bv8, b=bv8, c=bv8, d=bv8: "
                  "((((a & 3) | ((b & 3) << 2) | ((c & 3) << 4) | ((d & 3) << 6)) & 3) == (a & 3)) and "
                  "(((((a & 3) | ((b & 3) << 2) | ((c & 3) << 4) | ((d & 3) << 6)) & 12) >> 2) == (b & 3)) and "
                  "(((((a & 3) | ((b & 3) << 2) | ((c & 3) << 4) | ((d & 3) << 6)) & 48) >> 4) == (c & 3)) and "
                  "(((((a & 3) | ((b & 3) << 2) | ((c & 3) << 4) | ((d & 3) << 6)) & 192) >> 6) == (d & 3)))")
    eng.add_target(Target("pack_4bitx2", mod=TC, qual="pack_4bitx2", params=dict(array=A), requires=["array.size >= 0"],
        ensures=["result.size == (array.size + 1) // 2",
                 "forall(lambda k=int: implies(0 <= k and k < result.size and 2 * k + 1 < array.size, "
                 "result[k] == ((array[2 * k] & 15) | ((array[2 * k + 1] & 15) << 4))))",
                 "forall(lambda k=int: implies(0 <= k and k < result.size and 2 * k + 1 >= array.size, result[k] == (array[2 * k] & 15)))"]))
    eng.add_target(Target("unpack_4bitx2", mod=TC, qual="unpack_4bitx2", params=dict(data=A, dims=INT),
        requires=["data.size >= 0", "dims >= 0", "dims == 2 * data.size or dims == 2 * data.size - 1"],
        ensures=["result.size == dims",
                 "forall(lambda j=int: implies(0 <= j and j < dims and j % 2 == 0, result[j] == (data[j // 2] & 15)))",
                 "forall(lambda j=int: implies(0 <= j and j < dims and j % 2 == 1, result[j] == (data[j // 2] >> 4)))"]))
    eng.add_target(Target("pack_2bitx4", mod=TC, qual="pack_2bitx4", params=dict(array=A), requires=["array.size >= 0"],
        ensures=["result.size == (array.size + 3) // 4",
                 "forall(lambda k=int: implies(0 <= k and k < result.size and 4 * k + 3 < array.size, "
                 "result[k] == ((array[4 * k] & 3) | ((array[4 * k + 1] & 3) << 2) | ((array[4 * k + 2] & 3) << 4) | ((array[4 * k + 3] & 3) << 6))))",
                 "forall(lambda k=int: implies(0 <= k and k < result.size, (result[k] & 3) == (array[4 * k] & 3)))"]))
    eng.add_target(Target("unpack_2bitx4", mod=TC, qual="unpack_2bitx4", params=dict(data=A, dims=INT),
        requires=["data.size >= 0", "dims >= 0", "dims <= 4 * data.size", "dims > 4 * data.size - 4"],
        ensures=["result.size == dims",
                 "forall(lambda j=int: implies(0 <= j and j < dims and j % 4 == 0, result[j] == (data[j // 4] & 3)))",
                 "forall(lambda j=int: implies(0 <= j and j < dims and j % 4 == 1, result[j] == ((data[j // 4] & 12) >> 2)))",
                 "forall(lambda j=int: implies(0 <= j and j < dims and j % 4 == 2, result[j] == ((data[j // 4] & 48) >> 4)))",
                 "forall(lambda j=int: implies(0 <= j and j < dims and j % 4 == 3, result[j] == ((data[j // 4] & 192) >> 6)))"]))


# ------------------------------------------------------------------------------------------------------------------
# ExternalTensor.tofile: the bytes delivered to the destination are exactly the tensor's range of the data file, in order,
# no more and no less - over a ghost I/O model.

CORE = "onnx_ir._core"


class C04Engine(NumpyEngine):
    def with_enter_extra(self, p, cm, item, s):
        from pyvc.types import VRef
        if isinstance(cm, VRef) and cm.cls == "SrcFile":
            return [(p, cm)]
        return super().with_enter_extra(p, cm, item, s)

    def with_exit_extra(self, p, cm, oc, s):
        from pyvc.types import VRef
        if isinstance(cm, VRef) and cm.cls == "SrcFile":
            return [(p, oc)]
        return super().with_exit_extra(p, cm, oc, s)


    def bi_len(self, p, args, kwargs, node):
        from pyvc.types import VRec
        if isinstance(args[0], VRec) and args[0].ty.name == "Chunk":
            return [(p, args[0].fields["n"])]
        return super().bi_len(p, args, kwargs, node)

    def truth(self, v, p=None):
        from pyvc.types import VRec
        if isinstance(v, VRec) and v.ty.name == "Chunk":
            return v.fields["n"].z != 0          # an empty bytes object is falsy
        return super().truth(v, p)


ENGINE_CLASS = C04Engine
_build_packing = build


def build(eng, tier):
    _build_packing(eng, tier)
    build_tofile(eng)


def build_tofile(eng):
    """Ghost I/O model (assumed contracts of the file API, listed): `io` records, for this call, the source range
    [g_src0, g_src0 + g_len) that must be delivered, the destination position g_dst0 at entry, and g_written = number of
    bytes delivered so far.  Every delivery (file.write(chunk), os.copy_file_range) carries the obligations
      - it delivers the bytes that come next in the source range (chunk read at g_src0 + g_written / offset_src likewise),
      - it lands right after what was delivered before (offset_dst == g_dst0 + g_written),
      - it does not go beyond the range (g_written + n <= g_len)."""
    import z3
    from pyvc.core import ClassDecl, Exc, FnDecl
    from pyvc.sem_stmt import LoopSpec
    from pyvc.types import BOOL, NULL, STR, TOpt, TRec, TRef, VBool, VFunc, VInt, VNone, VOpaque, VRec, VRef, fresh_name
    from . import schema
    schema.external_tensor(eng)
    eng.add_class(ClassDecl("IOGhost", fields={"g_src0": INT, "g_len": INT, "g_dst0": INT, "g_written": INT}))
    eng.add_class(ClassDecl("SrcFile", fields={"g_pos": INT}))
    eng.add_class(ClassDecl("DstFile", fields={}))
    CHUNK = TRec("Chunk", (("start", INT), ("n", INT)))
    eng.add_class(ClassDecl("Chunk", record=CHUNK))
    eng.method_models = dict(eng.method_models)
    eng.lib_models = dict(eng.lib_models)

    def io(e, p):
        return e.ghost_env["io"]

    def deliver(e, p, n, src_at, dst_at, where):
        g = io(e, p)
        w = e.read_field(p, g, "g_written").z
        e.oblige(p, src_at == e.read_field(p, g, "g_src0").z + w, "delivers-next-source-bytes", where)
        if dst_at is not None:
            e.oblige(p, dst_at == e.read_field(p, g, "g_dst0").z + w, "lands-after-previous-bytes", where)
        e.oblige(p, w + n <= e.read_field(p, g, "g_len").z, "stays-inside-the-tensor-range", where)
        e.write_field(p, g, "g_written", VInt(w + n))

    def m_open(e, p, args, kwargs, node):
        f = e.new_object(p, "SrcFile")
        e.write_field(p, f, "g_pos", VInt(0))
        return [(p, f), (p.copy(), Exc("OSError", f"L{node.lineno}:open"))]
    eng.lib_models["builtins.open"] = m_open
    eng.global_overrides[(CORE, "open")] = VFunc("lib", "builtins.open", "open")

    def src_seek(e, p, args, kwargs, node):
        e.write_field(p, args[0], "g_pos", args[1])
        return [(p, VNone())]

    def src_read(e, p, args, kwargs, node):
        n = args[1].z
        m = z3.Int(fresh_name("nread"))
        p.assume(z3.And(m >= 0, z3.Or(m <= n, n < 0)))
        pos = e.read_field(p, args[0], "g_pos").z
        e.write_field(p, args[0], "g_pos", VInt(pos + m))
        return [(p, VRec(CHUNK, {"start": VInt(pos), "n": VInt(m)}))]

    def src_fileno(e, p, args, kwargs, node):
        return [(p, VInt(z3.Int(fresh_name("fd"))))]
    for nm, impl in (("seek", src_seek), ("read", src_read), ("fileno", src_fileno)):
        eng.method_models[("SrcFile", nm)] = FnDecl(f"SrcFile.{nm}", "builtin", impl=impl)

    def dst_write(e, p, args, kwargs, node):
        ch = args[1]
        if not isinstance(ch, VRec):
            raise Unsupported("file.write of something that was not read from the source file")
        deliver(e, p, ch.fields["n"].z, ch.fields["start"].z, None, f"L{node.lineno}:file.write")
        return [(p, VInt(ch.fields["n"].z)), (p.copy(), Exc("OSError", f"L{node.lineno}:write"))]

    def dst_tell(e, p, args, kwargs, node):
        g = io(e, p)
        return [(p, VInt(e.read_field(p, g, "g_dst0").z + e.read_field(p, g, "g_written").z))]

    def dst_seek(e, p, args, kwargs, node):
        g = io(e, p)
        # the Python file object is advanced to just after the delivered bytes (same semantics as write())
        e.oblige(p, args[1].z == e.read_field(p, g, "g_dst0").z + e.read_field(p, g, "g_written").z, "position-after-delivered-bytes", f"L{node.lineno}:file.seek")
        return [(p, VNone())]

    def dst_noop(e, p, args, kwargs, node):
        return [(p, VInt(z3.Int(fresh_name("fd"))))]
    for nm, impl in (("write", dst_write), ("tell", dst_tell), ("seek", dst_seek), ("flush", dst_noop), ("fileno", dst_noop)):
        eng.method_models[("DstFile", nm)] = FnDecl(f"DstFile.{nm}", "builtin", impl=impl)

    def copy_file_range(e, p, args, kwargs, node):
        count = args[2].z
        c = z3.Int(fresh_name("ncopied"))
        q = p.copy()
        p.assume(z3.And(c >= 0, c <= count))
        e.oblige(p, count >= 0, "count-non-negative", f"L{node.lineno}:copy_file_range")
        deliver(e, p, c, kwargs["offset_src"].z, kwargs["offset_dst"].z, f"L{node.lineno}:copy_file_range")
        return [(p, VInt(c)), (q, Exc("OSError", f"L{node.lineno}:copy_file_range"))]
    eng.lib_models["os.copy_file_range"] = copy_file_range
    eng.lib_consts = dict(eng.lib_consts)

    def fresh_bool(e, p, args, kwargs, node):
        return [(p, VBool(z3.Bool(fresh_name("probe"))))]
    eng.functions[f"{CORE}._is_regular_file"] = FnDecl(f"{CORE}._is_regular_file", "builtin", impl=fresh_bool)
    for nm in ("_check_validity", "_check_path_containment"):
        eng.functions[f"{CORE}.ExternalTensor.{nm}"] = FnDecl(f"{CORE}.ExternalTensor.{nm}", "contract", CORE, f"ExternalTensor.{nm}",
                                                              requires=[], ensures=[], raises={"AnyException": []}, modifies=[])
    eng.functions[f"{CORE}.TensorBase.nbytes#getter"] = FnDecl("nbytes", "builtin", impl=lambda e, p, a, k, n: [(p, e.read_field(p, a[0], "nbytes"))])
    eng.functions[f"{CORE}.ExternalTensor.path#getter"] = FnDecl("path", "builtin", impl=lambda e, p, a, k, n: [(p, VOpaque("path"))])

    def setup(e, p, env):
        e.lenient = True
        g = e.symbolic_param(p, "io", TRef("IOGhost"))
        p.assume(g.z != NULL)
        e.ghost_env = dict(e.ghost_env)
        e.ghost_env["io"] = g
        env["io"] = g
        orig_getattr = e.bi_getattr

        def bi_getattr(p2, args, kwargs, node):
            from pyvc.types import VModule
            if isinstance(args[0], VModule) and args[0].name.endswith("os"):
                # os.copy_file_range may be absent on this platform
                q = p2.copy()
                return [(p2, VFunc("lib", "os.copy_file_range", "copy_file_range")), (q, VNone())]
            if isinstance(args[0], VRef) and args[0].cls == "DstFile":
                return [(p2, VOpaque("method of the destination or None"))]
            return orig_getattr(p2, args, kwargs, node)
        e.bi_getattr = bi_getattr
    LEN = "ite(self._length is None or some(self._length) == 0, self.nbytes, some(self._length))"
    inv = ["io.g_src0 == old(io.g_src0) and io.g_len == old(io.g_len) and io.g_dst0 == old(io.g_dst0)", "0 <= io.g_written"]
    eng.add_target(Target("ExternalTensor.tofile", mod=CORE, qual="ExternalTensor.tofile", self_cls="ExternalTensor",
        params={"file": TRef("DstFile")}, setup=setup,
        requires=["nonnull(file)", "self.nbytes >= 0", "implies(self._offset is not None, some(self._offset) >= 0)",
                  "implies(self._length is not None, some(self._length) >= 0)",
                  "io.g_written == 0", f"io.g_len == {LEN}", "io.g_src0 == ite(self._offset is None, 0, some(self._offset))"],
        # loop contracts keyed by the loop headers (the fast path and the portable chunk loop)
        loops={"while copied < bytes_to_copy": LoopSpec(invariant=inv + ["copied == io.g_written", "0 <= copied and copied <= bytes_to_copy", "bytes_to_copy == io.g_len",
                                            "source_offset == io.g_src0", "destination_offset == io.g_dst0"],
                           modifies=["IOGhost.g_written"]),
               "while bytes_to_copy > 0": LoopSpec(invariant=inv + ["bytes_to_copy >= 0", "io.g_written + bytes_to_copy == io.g_len",
                                            "src.g_pos == io.g_src0 + io.g_written"],
                           modifies=["IOGhost.g_written", "SrcFile.g_pos"])},
        # exactly the tensor's bytes on a normal return; never more on any exit
        ensures=["io.g_written == io.g_len"],
        raises_default=["io.g_written <= io.g_len"], assert_mode="raise"))


# ------------------------------------------------------------------------------------------------------------------
# ExternalTensor.tobytes / _load: which bytes of the data file the tensor's bytes are
def build_window(eng):
    """Ghost model of the memory map: an `Mmap` object carries g_win, the file position of its byte 0 (the `offset=` given to
    mmap.mmap, 0 by default).  Slicing it (raw[a:b]) yields the file range [g_win + a, g_win + b); np.frombuffer(raw, offset=o,
    count=c) views the file from g_win + o.
      tobytes():  the returned bytes are the file range [offset, offset + length) of this tensor (top-level, from the statement)
      _load():    the array views the file from the tensor's offset; the map starts at file position 0 (helper contract derived
                  from the code, the representation invariant tobytes() relies on)."""
    import z3
    from pyvc.core import ClassDecl, Exc, FnDecl
    from pyvc.types import INT, NULL, TRec, TRef, VFunc, VInt, VNone, VOpaque, VRec, VRef, fresh_name
    if "Mmap" not in eng.classes:
        eng.add_class(ClassDecl("Mmap", fields={"g_win": INT}))
    RANGE = TRec("FileRange", (("start", INT), ("n", INT)))
    if "FileRange" not in eng.classes:
        eng.add_class(ClassDecl("FileRange", record=RANGE))
    eng.classes["ExternalTensor"].fields["raw"] = TRef("Mmap")
    eng.classes["ExternalTensor"].fields["g_view0"] = INT          # file position viewed by element 0 of _array (ghost)
    OFF = "ite(self._offset is None, 0, some(self._offset))"
    LEN = "ite(self._length is None or some(self._length) == 0, self.nbytes, some(self._length))"

    def m_mmap(e, p, args, kwargs, node):
        m = e.new_object(p, "Mmap")
        off = kwargs.get("offset")
        e.write_field(p, m, "g_win", off if off is not None else VInt(0))
        return [(p, m), (p.copy(), Exc("OSError", f"L{node.lineno}:mmap"))]

    def m_frombuffer(e, p, args, kwargs, node):
        raw = args[0]
        o = kwargs.get("offset", VInt(0))
        if isinstance(raw, VRef) and raw.cls == "Mmap":
            me = e.ghost_env["self_t"]
            e.write_field(p, me, "g_view0", VInt(e.read_field(p, raw, "g_win").z + o.z))
        return [(p, VOpaque("ndarray view of the map"))]

    def setup(e, p, env):
        e.lenient = True
        e.lib_models["mmap.mmap"] = m_mmap
        gran = VInt(z3.Int("ALLOCATIONGRANULARITY"))
        p.assume(gran.z >= 1)
        e.lib_consts = dict(getattr(e, "lib_consts", {}) or {})
        e.lib_consts["mmap.ALLOCATIONGRANULARITY"] = gran       # a platform constant: some positive integer
        e.lib_models["numpy.frombuffer"] = m_frombuffer
        e.ghost_env = dict(e.ghost_env)
        e.ghost_env["self_t"] = env["self"]
        orig_slice = e.get_slice

        def get_slice(p2, base, lo, hi, st, node):
            if isinstance(base, VRef) and base.cls == "Mmap" and st is None and lo is not None and hi is not None:
                w = e.read_field(p2, base, "g_win").z
                return [(p2, VRec(RANGE, {"start": VInt(w + lo.z), "n": VInt(hi.z - lo.z)}))]
            return orig_slice(p2, base, lo, hi, st, node)
        e.get_slice = get_slice
        orig_const = e.ev_Constant

        def ev_Constant(node, p2):
            if node.value == b"" and isinstance(node.value, bytes):
                # the empty tensor's bytes: a range of length 0 that is not a slice of the map (start -1)
                return [(p2, VRec(RANGE, {"start": VInt(-1), "n": VInt(0)}))]
            return orig_const(node, p2)
        e.ev_Constant = ev_Constant
        # np.empty(...) of an opaque shape (the size-0 branch of _load): an array that is not a view of the file
        e.lib_models["numpy.empty"] = lambda e_, p2, a, k, n: [(p2, VOpaque("empty ndarray"))]
    for nm in ("_check_validity", "_check_path_containment"):
        eng.functions[f"{CORE}.ExternalTensor.{nm}"] = FnDecl(f"{CORE}.ExternalTensor.{nm}", "contract", CORE, f"ExternalTensor.{nm}",
                                                              requires=[], ensures=[], raises={"AnyException": []}, modifies=[])
    load_c = FnDecl(f"{CORE}.ExternalTensor._load", "contract", CORE, "ExternalTensor._load", requires=[],
                    ensures=["nonnull(self.raw)", "self.raw.g_win == 0"], raises={"AnyException": []},
                    modifies=["ExternalTensor.raw", "ExternalTensor._array", "ExternalTensor.g_view0", "$alloc", "Mmap.g_win"])

    def setup_tobytes(e, p, env):
        setup(e, p, env)
        e.functions[f"{CORE}.ExternalTensor._load"] = load_c
    pre = ["self.nbytes >= 0", "implies(self._offset is not None, some(self._offset) >= 0)",
           "implies(self._length is not None, some(self._length) >= 0)",
           # representation invariant: an existing map starts at file position 0
           "implies(self.raw is not None, self.raw.g_win == 0)"]
    eng.add_target(Target("ExternalTensor.tobytes", mod=CORE, qual="ExternalTensor.tobytes", self_cls="ExternalTensor", setup=setup_tobytes,
        params={}, requires=pre,
        # either the empty tensor's zero bytes (never mapped), or exactly the tensor's range of the data file
        ensures=[f"(result.start == -1 and result.n == 0) or (result.start == {OFF} and result.n == {LEN})"],
        raises_default=[], assert_mode="raise"))

    def setup_load(e, p, env):
        setup(e, p, env)
        e.functions.pop(f"{CORE}.ExternalTensor._load", None)
        # what happens to the viewed array afterwards (unpacking of sub-byte types, reshape) is the packing targets' and the
        # bounded stand-in's business: opaque here
        for nm in ("unpack_4bitx2", "unpack_2bitx4"):
            e.functions[f"onnx_ir._type_casting.{nm}"] = FnDecl(f"onnx_ir._type_casting.{nm}", "opaque")
    eng.add_target(Target("ExternalTensor._load", mod=CORE, qual="ExternalTensor._load", self_cls="ExternalTensor", setup=setup_load,
        params={}, requires=["implies(self._offset is not None, some(self._offset) >= 0)", "self._array is None",
                             f"implies(self.raw is not None, self.raw.g_win == 0 and self.g_view0 == {OFF})"],
        # a normal return either made an empty array without mapping (size 0) or mapped the file from position 0 and views it
        # from the tensor's offset
        ensures=["implies(self.raw is not None, self.raw.g_win == 0)",
                 f"implies(self.raw is not None, self.g_view0 == {OFF})"],
        raises_default=[], assert_mode="raise"))


_build_c04 = build


def build(eng, tier):
    _build_c04(eng, tier)
    build_window(eng)
