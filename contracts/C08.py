"""C08 — an interrupted single-file save never damages an existing data file.

Effect contracts over a ghost file system (exists / content-version per path).  For _write_external_data it is proved
that (O1) every file-system effect before os.replace targets a path different from the destination - point-wise, which
is what covers a process death between any two effects, mid-tensor included -, (O2) after os.replace the destination
holds the complete new content, (O3) on an exceptional exit the destination is what it was and the temporary file and
directory are gone (given that the two clean-up calls do not themselves fail), (O4) tensors are invalidated only after
a successful os.replace.  The writer is proved to touch only its own file path."""
import z3

from pyvc.core import ClassDecl, Exc, FnDecl
from pyvc.engine import Engine, Target
from pyvc.sem_stmt import LoopSpec
from pyvc.types import *  # noqa: F401,F403
from pyvc.types import BOOL, INT, STR, TOpt, TRef, TSeq, VBool, VInt, VNone, VOpaque, VRef, VStr, fresh_name
from . import schema, libs

ED = "onnx_ir.external_data"
LEVEL = "proof"
TRUSTED = ["POSIX/library contracts: tempfile.mkdtemp(dir=d) creates a fresh proper child of the existing directory d; open/seek/write/"
           "truncate/tofile affect only the opened path; shutil.copymode changes no content; os.replace(s, d) atomically gives d the "
           "content of s and removes s; os.remove/os.rmdir delete only their argument; dirname(join(a, basename(p))) == a",
           "kernel behaviour (rename atomicity, ENOSPC) is the trusted POSIX contract; no process is killed here"]
NOT_DECIDED = ["sharded path: that _check_no_existing_shard_files dominates every use of the writer is proved (dominance obligations on "
               "_write_external_tensors); that the checked paths are exactly the files written, and the unload_from_model ordering: bounded "
               "stand-in with injected faults and pre-existing files"]
BOUNDED = [{"name": "C08 faults injected at every file-system effect of a single-file and a sharded save (bounded, not a proof)",
            "script": "bounded_extdata.py", "args": ["--prop", "C08"]}]


def build(eng, tier):
    schema.tensor_protocol(eng)
    schema.external_tensor(eng)
    eng.lenient = True
    S = STR.sorts()[0]
    libs.install_os_path(eng)
    # ghost file system: a heap object with two maps
    eng.add_class(ClassDecl("FS", fields={"exists": eng_map(eng, BOOL), "ver": eng_map(eng, INT), "g_replaced": BOOL, "g_new": INT}))
    join = eng.ufunc("os.path.join", [S, S], S)
    dirname = eng.ufunc("os.path.dirname", [S], S)
    basename = eng.ufunc("os.path.basename", [S], S)
    a, b = z3.Consts("ax_a ax_b", S)
    eng.axioms.append(z3.ForAll([a, b], dirname(join(a, basename(b))) == a, patterns=[join(a, basename(b))]))
    for nm in ("os.path.join", "os.path.dirname", "os.path.basename"):
        pass

    def fs(e, p):
        return e.ghost_env["fs"]

    def arr(e, p, f):
        return e.read_field(p, fs(e, p), f)

    def touch_check(e, p, path, what, node):
        """O1: an effect before the replace must not target the destination."""
        goal = e.spec_bool("fs.g_replaced or path_arg != g_dest", p, {"path_arg": path})
        e.oblige(p, goal, "effect-not-on-destination", f"{what}@L{node.lineno}")

    def set_exists(e, p, path, val):
        m = arr(e, p, "exists")
        e.write_field(p, fs(e, p), "exists", e.map_store(p, m, path, VBool(val)))

    def bump(e, p, path, ver):
        m = arr(e, p, "ver")
        e.write_field(p, fs(e, p), "ver", e.map_store(p, m, path, ver))

    def mkdtemp(e, p, args, kwargs, node):
        d = kwargs["dir"]
        T = VStr(z3.Const(fresh_name("tmpdir"), S))
        ex = arr(e, p, "exists")
        q = p.copy()        # failure: nothing created
        # the new directory did not exist, is not '', lives in the existing directory d, and its name (prefix + random
        # characters) differs from every path computed so far - in particular from the destination
        p.assume(z3.And(z3.Not(ex.get(T).z), T.z != VStr("").z, ex.get(d).z, dirname(T.z) == d.z))
        # ... and a directory that has just been created is empty
        qq = z3.Const(fresh_name("inside"), S)
        p.assume(z3.ForAll([qq], z3.Implies(dirname(qq) == T.z, z3.Not(ex.get(VStr(qq)).z)), patterns=[dirname(qq)]))
        gd = next((f.locals["g_dest"] for f in reversed(p.frames) if "g_dest" in f.locals), None)
        if gd is not None:
            p.assume(T.z != gd.z)
        set_exists(e, p, T, True)
        return [(p, T), (q, Exc("OSError", f"L{node.lineno}:mkdtemp"))]

    def os_exists(e, p, args, kwargs, node):
        return [(p, arr(e, p, "exists").get(args[0]))]

    def os_islink(e, p, args, kwargs, node):
        return [(p, VBool(z3.Bool(fresh_name("islink"))))]

    def copymode(e, p, args, kwargs, node):
        touch_check(e, p, args[1], "copymode", node)
        q = p.copy()
        return [(p, VNone()), (q, Exc("OSError", f"L{node.lineno}:copymode"))]

    def os_replace(e, p, args, kwargs, node):
        s, d = args
        q = p.copy()       # failure: nothing changes
        v = arr(e, p, "ver").get(s)
        bump(e, p, d, v)
        set_exists(e, p, d, True)
        set_exists(e, p, s, False)
        e.write_field(p, fs(e, p), "g_replaced", VBool(True))
        return [(p, VNone()), (q, Exc("OSError", f"L{node.lineno}:os.replace"))]

    def os_remove(e, p, args, kwargs, node):
        touch_check(e, p, args[0], "remove", node)
        ex = arr(e, p, "exists").get(args[0])
        pt, pf = e.fork(p, ex.z, f"remove L{node.lineno}")
        out = []
        if pt is not None:
            set_exists(e, pt, args[0], False)
            out.append((pt, VNone()))
        if pf is not None:
            out.append((pf, Exc("FileNotFoundError", f"L{node.lineno}:remove")))
        return out

    def suppress(e, p, args, kwargs, node):
        names = ",".join(a.name[4:] if getattr(a, "name", "").startswith("exc:") else "Exception" for a in args)
        return [(p, VOpaque("suppress:" + names))]

    eng.lib_models.update({"tempfile.mkdtemp": mkdtemp, "os.path.exists": os_exists, "os.path.islink": os_islink,
                           "shutil.copymode": copymode, "os.replace": os_replace, "os.remove": os_remove, "os.rmdir": os_remove,
                           "contextlib.suppress": suppress})
    # the writer: touches only its own file path, leaves the complete new content there
    eng.declare_class_from_source(ED, "_ExternalDataWriter", fields={"_file_path": STR})
    eng.functions[f"{ED}._ExternalDataWriter.__init__"] = FnDecl(f"{ED}._ExternalDataWriter.__init__", "contract", ED, "_ExternalDataWriter.__init__",
        ensures=["self._file_path == file_path"], raises={"AssertionError": []}, modifies=["_ExternalDataWriter._file_path"])
    eng.functions[f"{ED}._ExternalDataWriter.write"] = FnDecl(f"{ED}._ExternalDataWriter.write", "contract", ED, "_ExternalDataWriter.write",
        requires=["fs.g_replaced or self._file_path != g_dest"],
        ensures=["forall(lambda q=str: implies(q != self._file_path, box_get(fs.ver, q) == old(box_get(fs.ver, q)) and "
                 "box_has(fs.exists, q) == old(box_has(fs.exists, q))))",
                 "box_get(fs.ver, self._file_path) == fs.g_new", "box_has(fs.exists, self._file_path)"],
        raises={"AnyException": ["forall(lambda q=str: implies(q != self._file_path, box_get(fs.ver, q) == old(box_get(fs.ver, q)) and "
                                 "box_has(fs.exists, q) == old(box_has(fs.exists, q))))"]},
        modifies=["FS.exists", "FS.ver"])
    eng.functions[f"{ED}._create_tensor_write_locks"] = FnDecl(f"{ED}._create_tensor_write_locks", "opaque")
    eng.functions[f"{ED}._paths_refer_to_same_file"] = FnDecl(f"{ED}._paths_refer_to_same_file", "contract", ED, "_paths_refer_to_same_file",
                                                               ensures=[], ret=BOOL, pure=True)
    # ExternalTensor.release / invalidate: invalidate only after the destination was really replaced (O4)
    eng.functions["onnx_ir._core.ExternalTensor.release"] = FnDecl("onnx_ir._core.ExternalTensor.release", "contract", "onnx_ir._core", "ExternalTensor.release",
        ensures=["self._valid == old(self._valid)"], modifies=["ExternalTensor.raw", "ExternalTensor._array"])
    eng.functions["onnx_ir._core.ExternalTensor.invalidate"] = FnDecl("onnx_ir._core.ExternalTensor.invalidate", "contract", "onnx_ir._core", "ExternalTensor.invalidate",
        requires=["fs.g_replaced"], ensures=[], modifies=["ExternalTensor._valid", "ExternalTensor.raw", "ExternalTensor._array"])
    T = TRef("TensorLike")
    ET = TRef("ExternalTensor")
    LET = eng.LIST(ET)

    def setup(e, p, env):
        f = e.symbolic_param(p, "fs", TRef("FS"))
        from pyvc.types import NULL
        p.assume(f.z != NULL)
        e.ghost_env = {"fs": f}
        env["fs"] = f

    def spec_funcs():
        eng.spec_fn("def g_unused():\n    return True\n")
    eng.add_target(Target("_write_external_data", mod=ED, qual="_write_external_data",
        params=dict(tensors=TSeq(T), external_data_infos=TSeq(TRef(None)), file_path=STR), setup=setup,
        requires=["not fs.g_replaced", "forall(lambda j=int: implies(0 <= j and j < len(tensors), nonnull(tensors[j])))"],
        ghost_init="g_dest = file_path",
        ghost=[("store:destination_path", "after", "g_dest = destination_path")],
        local_types={"overwritten_tensors": LET},
        loops={0: LoopSpec(invariant=["forall(lambda j=int: implies(0 <= j and j < len(acc), nonnull(acc[j])))"], modifies=["$alloc", f"{LET.cls}.$v"], elem=ET),
               1: LoopSpec(invariant=[], modifies=["ExternalTensor.raw", "ExternalTensor._array"]),
               2: LoopSpec(invariant=[],
                           modifies=["ExternalTensor._valid", "ExternalTensor.raw", "ExternalTensor._array"])},
        ensures=["fs.g_replaced", "box_get(fs.ver, g_dest) == fs.g_new", "box_has(fs.exists, g_dest)",
                 # no temporary file or directory remains: apart from the destination every path exists iff it existed before
                 "forall(lambda q=str: implies(q != g_dest, box_has(fs.exists, q) == old(box_has(fs.exists, q))))"],
        raises_default=["box_get(fs.ver, g_dest) == old(box_get(fs.ver, g_dest)) or fs.g_replaced",
                        "box_has(fs.exists, g_dest) == old(box_has(fs.exists, g_dest)) or fs.g_replaced",
                        # `if producing the new data file fails with an exception ... no temporary file or directory remains`
                        "forall(lambda q=str: implies(q != g_dest, box_has(fs.exists, q) == old(box_has(fs.exists, q))))"],
        modifies=None, assert_mode="raise"))


def eng_map(eng, vty):
    from pyvc.types import TMap
    return TMap(STR, vty, ordered=False)


_build_single = build


def build(eng, tier):
    _build_single(eng, tier)
    add_sharded_preflight_target(eng)


def add_sharded_preflight_target(eng):
    """`A sharded save never changes a pre-existing file`: in _write_external_tensors every use of the writer
    (convert_tensors_to_external, called directly or handed to an executor) on a path where max_shard_size_bytes is given
    is dominated by _check_no_existing_shard_files(...) - a dominance obligation at each use site."""
    from pyvc.types import VFunc

    def preflight(e, p, args, kwargs, node):
        p.ghost["$preflight"] = True
        return [(p, VNone()), (p.copy(), Exc("FileExistsError", f"L{node.lineno}:_check_no_existing_shard_files"))]

    def use_writer(e, p, node, how):
        lim = p.frame.lookup("max_shard_size_bytes")
        from pyvc.types import VOpt
        single = lim.isnone if isinstance(lim, VOpt) else z3.BoolVal(isinstance(lim, VNone))
        e.oblige(p, z3.Or(single, z3.BoolVal(bool(p.ghost.get("$preflight")))), "dominance",
                 f"L{node.lineno}:{how} of convert_tensors_to_external in a sharded save is preceded by _check_no_existing_shard_files")

    def writer(e, p, args, kwargs, node):
        use_writer(e, p, node, "call")
        return [(p, VOpaque("external tensors")), (p.copy(), Exc("AnyException", f"L{node.lineno}:convert_tensors_to_external"))]
    WRITER = VFunc("py", writer, "convert_tensors_to_external")

    def setup(e, p, env):
        e.global_overrides = dict(e.global_overrides)
        e.global_overrides[(ED, "convert_tensors_to_external")] = WRITER
        e.global_overrides[(ED, "_check_no_existing_shard_files")] = VFunc("py", preflight, "_check_no_existing_shard_files")
        for name in ("_shard_tensors", "_create_tensor_write_locks", "_make_shard_callback", "_ByteBudget"):
            e.global_overrides[(ED, name)] = VOpaque("lib:" + name)
        orig = e.call_opaque

        def call_opaque(p2, f, args, kwargs, node):
            if any(a is WRITER for a in list(args) + list(kwargs.values())):
                use_writer(e, p2, node, "hand-over (executor.submit)")
            return orig(p2, f, args, kwargs, node)
        e.call_opaque = call_opaque
    t = Target("_write_external_tensors", mod=ED, qual="_write_external_tensors",
               params=dict(tensors=TSeq(TRef("TensorLike")), base_dir=STR, relative_path=STR, callback=TRef("Callback"), max_workers=TOpt(INT),
                           max_in_flight_bytes=INT, max_shard_size_bytes=TOpt(INT), alignment=TOpt(INT), align_threshold=INT),
               requires=[], ensures=[], setup=setup,
               # the callback wrapper runs on the executor's threads (lock discipline: C09), never in this function itself
               dead=["def _locked_callback"],
               raises_default=[], assert_mode="raise")
    eng.add_target(t)
