"""C01 — use-def and ownership consistency: class invariants proved inductive for every public mutator,
on normal AND exceptional exits.  (C06 re-uses the same targets with the stronger exceptional postcondition.)"""
from pyvc.core import ClassDecl, FnDecl
from pyvc.engine import Engine, Target
from pyvc.sem_stmt import LoopSpec
from pyvc.types import *  # noqa: F401,F403
from pyvc.types import BOOL, INT, STR, TOpt, TRef, TSeq
from . import schema

GC = schema.GC
CORE = schema.CORE
LEVEL = "proof"
TRUSTED = []
NOT_DECIDED = []
BOUNDED = []

SPEC = '''
def io_wf(c):
    return (nonnull(c.data) and allocated(c.data) and nonnull(c._ref_counter) and allocated(c._ref_counter) and nonnull(c._graph) and
            forall(lambda v=Value: box(c._ref_counter)[v] == count(box(c.data), v)) and
            forall(lambda i=int: implies(0 <= i and i < len(box(c.data)), nonnull(box(c.data)[i]) and box(c.data)[i]._graph is c._graph)))

def out_wf(c):
    return io_wf(c) and c._graph._outputs is c and forall(lambda i=int: implies(0 <= i and i < len(box(c.data)), box(c.data)[i]._is_graph_output))

def in_wf(c):
    return (io_wf(c) and c._graph._inputs is c and
            forall(lambda i=int: implies(0 <= i and i < len(box(c.data)), box(c.data)[i]._is_graph_input and box(c.data)[i]._producer is None)))

def own_value(v):
    return (iff(v._graph is None, not (v._is_graph_input or v._is_graph_output or v._is_initializer)) and
            implies(v._is_graph_output, nonnull(v._graph._outputs) and count(box(v._graph._outputs.data), v) >= 1) and
            implies(v._is_graph_input, nonnull(v._graph._inputs) and count(box(v._graph._inputs.data), v) >= 1 and v._producer is None))

def OWN():
    return (forall(lambda c=GraphOutputs: out_wf(c)) and forall(lambda c=GraphInputs: in_wf(c)) and
            forall(lambda v=Value: own_value(v)) and
            forall(lambda c=_GraphIO, d=_GraphIO: implies(c is not d, c.data is not d.data and c._ref_counter is not d._ref_counter)))
'''

OWN_FIELDS = ["Value._graph", "Value._is_graph_input", "Value._is_graph_output", "Value._is_initializer",
              "_GraphIO._ref_counter", "_GraphIO.data"]


def build(eng, tier):
    schema.core_ir(eng)
    eng.spec_fn(SPEC)
    LV = eng.LIST(TRef("Value")).cls
    CV = eng.COUNTER(TRef("Value")).cls
    mod = ["Value._graph", "Value._is_graph_input", "Value._is_graph_output", f"{LV}.$v", f"{CV}.$v", "$alloc"]
    for cls in ("GraphOutputs", "GraphInputs"):
        def T(meth, params, **kw):
            t = Target(f"{cls}.{meth}", mod=GC, qual=f"_GraphIO.{meth}", self_cls=cls, params=params,
                       requires=["OWN()"] + kw.pop("requires", []), ensures=["OWN()"] + kw.pop("ensures", []),
                       raises_default=["OWN()"], modifies=mod, **kw)
            eng.add_target(t)
        T("append", dict(item=TRef("Value")))
        T("pop", dict(i=INT))
        T("remove", dict(item=TRef("Value")))
        T("insert", dict(i=INT, item=TRef("Value")))
