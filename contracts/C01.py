"""C01 — use-def and ownership consistency: class invariants proved inductive for every public mutator, on normal AND
exceptional exits (targets shared with C06, see ir_targets.py)."""
from . import ir_targets

LEVEL = "proof"
TRUSTED = ["count(seq, x) lemmas (effect of list operations on element counts; by induction, assumed)"]
NOT_DECIDED = ["Graph.sort (algorithm: C12), pass-level callers and histories through passes: bounded stand-in"]
BOUNDED = [{"name": "C01 short histories of public mutators, runtime invariant (bounded, not a proof)",
            "script": "bounded_ir.py", "args": ["--prop", "C01"]}]


def build(eng, tier):
    ir_targets.build(eng, tier, "C01")
    # an initializer stays stored under its current name whether a rename succeeds or raises: every rejection (and a failure
    # of the backing tensor's own name setter) precedes the first store (effect targets shared with C06)
    from . import C06, usedef_targets
    usedef_targets.build(eng, "C01")
    usedef_targets.add_resize_outputs_effect_target(eng)
    C06.add_rename_target(eng)
    C06.add_value_name_target(eng)
    from . import init_targets
    init_targets.build(eng, "C01")
