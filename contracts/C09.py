"""C09 — concurrent external-data writing: the safety clauses that contracts can carry.

Monitor invariant of _ByteBudget (each `with self._condition` body is an atomic section; `wait_for(p)` releases the
monitor: the monitor state is havocked subject to the invariant, then p is assumed), pairing of acquire/release in
_write_tensor_with_budget_at on every exit, lock discipline of the writer.  Liveness is NOT decided.

Ghost state: per budget  g_sum  (sum of outstanding regular reservations), g_over (number of outstanding oversized
tokens); per thread (`me`, a ghost object) g_mine / g_mine_over: what this thread holds.  The rely condition of the
thread view (others only add/remove their own reservations) is g_sum >= me.g_mine, g_over >= me.g_mine_over.
"""
import ast
import z3

from pyvc.core import ClassDecl, Exc, FnDecl, Unsupported
from pyvc.engine import Engine, Target
from pyvc.sem_stmt import NEXT, LoopSpec
from pyvc.types import *  # noqa: F401,F403
from pyvc.types import BOOL, INT, STR, TOpt, TRef, TSeq, VBool, VFunc, VInt, VNone, VOpaque, VRef
from . import schema

ED = "onnx_ir.external_data"
LEVEL = "proof"
TRUSTED = ["threading.Condition is a monitor: the body of `with cond` runs in mutual exclusion; wait_for(p) atomically "
           "releases it and returns holding it with p true (library contract, trusted)",
           "concurrent.futures.ThreadPoolExecutor.shutdown(wait=True) joins all workers (library contract, trusted)",
           "thread-modular rely: other threads change the monitor state only through acquire/release, i.e. only by "
           "adding/removing their own reservations (each of these is proved to guarantee it)"]
NOT_DECIDED = ["termination / liveness for every interleaving: deadlock freedom is argued from the lock-level obligations (every acquisition site respects callback < tensor < budget < leaf: discharged) and the notify_all obligations; progress of tofile() itself is not a VC",
               "byte-identity with the serial save for every interleaving: follows from L2 (pairwise disjoint ranges fixed "
               "before any worker starts, C07) and the commutation lemma below; the file system itself is trusted",
               "callback never invoked concurrently: decided as dominance obligations on the source (every invocation on a pool thread is inside "
               "`with callback_lock`, one lock per save, callbacks handed to submitted writers are None or the locking wrapper); `exactly "
               "once per tensor` is bounded",
               "no schedules are explored"]
BOUNDED = [{"name": 'C09 parallel vs serial bytes, callback once and never concurrently (also across shards), shared tensor one use at a time, failing worker (bounded, not a proof)', "script": "bounded_extdata.py", "args": ["--prop", 'C09']}]

MON_FIELDS = [("_ByteBudget", "_in_flight"), ("_ByteBudget", "_oversized_active"), ("_ByteBudget", "g_sum"), ("_ByteBudget", "g_over")]

SPEC = '''
def MI(b, me):
    return (b._capacity >= 1 and 0 <= b._in_flight and b._in_flight <= b._capacity and b._in_flight == b.g_sum and
            (b.g_over == 0 or b.g_over == 1) and b._oversized_active == (b.g_over == 1) and
            me.g_mine >= 0 and me.g_mine_over >= 0 and b.g_sum >= me.g_mine and b.g_over >= me.g_mine_over)
'''


class MonitorEngine(Engine):
    """Adds the monitor semantics of threading.Condition / Lock to the executor."""

    def with_enter_extra(self, p, cm, item, s):
        if isinstance(cm, VRef) and cm.cls == "Condition":
            # entering the monitor: other threads ran while we were outside -> havoc monitor state, assume MI
            self.havoc_heap(p, [k for k in MON_FIELDS])
            p.assume(self.spec_bool("MI(self, me)", p, {"me": self.me}))
            p.ghost["$mon_entry"] = (dict(p.heap), p.epoch)
            p.frame.locals["g_notified"] = VBool(False)
            p.ghost["$held"] = p.ghost.get("$held", ()) + ("budget",)
            return [(p, cm)]
        if isinstance(cm, VRef) and cm.cls == "Lock":
            held = p.ghost.get("$held", ())
            name = p.ghost.get("$lockname:" + str(cm.z), "lock")
            lvl = self.lock_level(cm, p)
            # lock-level obligation: every lock already held has a strictly lower level
            for h in held:
                self.oblige(p, z3.BoolVal(self.level_of(h) < lvl), "lock-order", f"L{s.lineno}:{h}<{self.lock_names.get(lvl, lvl)}")
            p.ghost["$held"] = held + (self.lock_names.get(lvl, str(lvl)),)
            return [(p, cm)]
        return None

    lock_names = {0: "callback_lock", 1: "tensor_lock", 2: "budget"}

    def level_of(self, name):
        return {v: k for k, v in self.lock_names.items()}[name]

    def lock_level(self, cm, p):
        return p.ghost.get("$locklevel:" + str(cm.z), 1)

    def with_exit_extra(self, p, cm, oc, s):
        if isinstance(cm, VRef) and cm.cls == "Condition":
            # leaving the monitor (normally or by exception): the invariant must hold again
            self.oblige(p, self.spec_bool("MI(self, me)", p, {"me": self.me}), "monitor-inv", f"exit L{s.lineno}")
            # no lost wake-up: a change that can enable a waiter is followed by notify_all before the section ends
            entry_heap, entry_epoch = p.ghost["$mon_entry"]
            p.old_heaps.append((entry_heap, entry_epoch))
            enabling = self.spec_bool("self._in_flight < old(self._in_flight) or (old(self._oversized_active) and not self._oversized_active)", p, {})
            p.old_heaps.pop()
            self.oblige(p, z3.Implies(enabling, p.frame.locals["g_notified"].z), "notify", f"exit L{s.lineno}")
            p.ghost["$held"] = tuple(h for h in p.ghost.get("$held", ()) if h != "budget")
            return [(p, oc)]
        if isinstance(cm, VRef) and cm.cls == "Lock":
            p.ghost["$held"] = p.ghost.get("$held", ())[:-1]
            return [(p, oc)]
        return None


def cond_wait_for(eng, p, args, kwargs, node):
    """Condition.wait_for(pred): release monitor (MI must hold), others run (havoc under MI), re-acquire with pred."""
    eng.oblige(p, eng.spec_bool("MI(self, me)", p, {"me": eng.me}), "monitor-inv", f"wait L{node.lineno}")
    # a thread blocking on the budget holds no budget reservation that others wait for?  (cyclic-wait freedom):
    eng.havoc_heap(p, [k for k in MON_FIELDS])
    p.assume(eng.spec_bool("MI(self, me)", p, {"me": eng.me}))
    p.ghost["$mon_entry"] = (dict(p.heap), p.epoch)
    out = []
    for q, r in eng.call_value(p, args[1], [], {}, node):
        if isinstance(r, Exc):
            out.append((q, r))
            continue
        q.assume(eng.truth(r, q))
        out.append((q, VBool(True)))
    return out


def cond_notify_all(eng, p, args, kwargs, node):
    p.frame.locals["g_notified"] = VBool(True)
    return [(p, VNone())]


def build(eng, tier):
    schema.tensor_protocol(eng)
    schema.external_tensor(eng)
    eng.add_class(ClassDecl("Condition"))
    eng.add_class(ClassDecl("Lock"))
    eng.add_class(ClassDecl("ThreadGhost", fields={"g_mine": INT, "g_mine_over": INT, "g_pre": INT}))
    eng.declare_class_from_source(ED, "_ByteBudget", fields={
        "_capacity": INT, "_in_flight": INT, "_oversized_active": BOOL, "_condition": TRef("Condition"),
        "g_sum": INT, "g_over": INT})
    eng.spec_fn(SPEC)
    eng.method_models = {("Condition", "wait_for"): FnDecl("threading.Condition.wait_for", "builtin", impl=cond_wait_for),
                         ("Condition", "notify_all"): FnDecl("threading.Condition.notify_all", "builtin", impl=cond_notify_all)}
    eng.lib_models["threading.Condition"] = lambda e, p, a, k, n: [(p, e.new_object(p, "Condition"))]
    eng.global_overrides[("onnx_ir._core", "_EXTERNAL_TENSOR_COPY_CHUNK_SIZE")] = VInt(z3.Int("CHUNK"))

    def setup_me(e, p, env):
        me = e.symbolic_param(p, "me", TRef("ThreadGhost"))
        p.assume(me.z != NULL)
        e.me = me
        e.ghost_env = {"me": me}
        env["me"] = me

    # __init__: establishes the invariant (no reservation outstanding)
    eng.add_target(Target("_ByteBudget.__init__", mod=ED, qual="_ByteBudget.__init__", self_cls="_ByteBudget",
        params=dict(capacity=INT), setup=setup_me,
        requires=["me.g_mine == 0 and me.g_mine_over == 0"],
        ghost=[("store:self._in_flight", "after", "self.g_sum = 0\nself.g_over = 0")],
        ensures=["MI(self, me)", "self._capacity == max(capacity, 1)"]))

    # acquire
    eng.add_target(Target("_ByteBudget.acquire", mod=ED, qual="_ByteBudget.acquire", self_cls="_ByteBudget",
        params=dict(nbytes=INT), setup=setup_me,
        requires=["self._capacity >= 1", "nonnull(self._condition)", "me.g_mine >= 0 and me.g_mine_over >= 0"],
        # ghost accounting follows the *stored difference* of the counter, not a local of the body (a renamed temporary
        # must not break the proof)
        ghost=[("store:self._in_flight", "before", "me.g_pre = self._in_flight"),
               ("store:self._in_flight", "after", "self.g_sum = self.g_sum + (self._in_flight - me.g_pre)\nme.g_mine = me.g_mine + (self._in_flight - me.g_pre)"),
               ("store:self._oversized_active", "after", "self.g_over = self.g_over + 1\nme.g_mine_over = me.g_mine_over + 1")],
        ensures=["result == -1 or result == max(nbytes, 0)",
                 "implies(result == -1, max(nbytes, 0) > self._capacity and me.g_mine_over == old(me.g_mine_over) + 1 and me.g_mine == old(me.g_mine))",
                 "implies(result != -1, result <= self._capacity and me.g_mine == old(me.g_mine) + result and me.g_mine_over == old(me.g_mine_over))",
                 "self._capacity == old(self._capacity)"]))

    # release
    eng.add_target(Target("_ByteBudget.release", mod=ED, qual="_ByteBudget.release", self_cls="_ByteBudget",
        params=dict(reservation=INT), setup=setup_me,
        requires=["self._capacity >= 1", "nonnull(self._condition)",
                  "implies(reservation == -1, me.g_mine_over >= 1)",
                  "implies(reservation != -1, 0 <= reservation and reservation <= me.g_mine)",
                  "me.g_mine >= 0 and me.g_mine_over >= 0"],
        ghost=[("store:self._oversized_active", "after", "self.g_over = self.g_over - 1\nme.g_mine_over = me.g_mine_over - 1"),
               ("store:self._in_flight", "before", "me.g_pre = self._in_flight"),
               ("store:self._in_flight", "after", "self.g_sum = self.g_sum + (self._in_flight - me.g_pre)\nme.g_mine = me.g_mine + (self._in_flight - me.g_pre)")],
        ensures=["implies(reservation == -1, me.g_mine_over == old(me.g_mine_over) - 1 and me.g_mine == old(me.g_mine))",
                 "implies(reservation != -1, me.g_mine == old(me.g_mine) - reservation and me.g_mine_over == old(me.g_mine_over))",
                 "self._capacity == old(self._capacity)"]))

    # pairing: every exit of _write_tensor_with_budget_at has released exactly what it acquired
    acquire_c = FnDecl(f"{ED}._ByteBudget.acquire", "contract", ED, "_ByteBudget.acquire",
        requires=["self._capacity >= 1", "nonnull(self._condition)", "me.g_mine >= 0 and me.g_mine_over >= 0"],
        ensures=["result == -1 or (0 <= result and result <= self._capacity)",
                 "implies(result == -1, me.g_mine_over == old(me.g_mine_over) + 1 and me.g_mine == old(me.g_mine))",
                 "implies(result != -1, me.g_mine == old(me.g_mine) + result and me.g_mine_over == old(me.g_mine_over))",
                 "self._capacity == old(self._capacity)"],
        ret=INT, modifies=["_ByteBudget._in_flight", "_ByteBudget._oversized_active", "_ByteBudget.g_sum", "_ByteBudget.g_over",
                           "ThreadGhost.g_mine", "ThreadGhost.g_mine_over"])
    release_c = FnDecl(f"{ED}._ByteBudget.release", "contract", ED, "_ByteBudget.release",
        requires=["self._capacity >= 1", "nonnull(self._condition)",
                  "implies(reservation == -1, me.g_mine_over >= 1)",
                  "implies(reservation != -1, 0 <= reservation and reservation <= me.g_mine)",
                  "me.g_mine >= 0 and me.g_mine_over >= 0"],
        ensures=["implies(reservation == -1, me.g_mine_over == old(me.g_mine_over) - 1 and me.g_mine == old(me.g_mine))",
                 "implies(reservation != -1, me.g_mine == old(me.g_mine) - reservation and me.g_mine_over == old(me.g_mine_over))",
                 "self._capacity == old(self._capacity)"],
        modifies=["_ByteBudget._in_flight", "_ByteBudget._oversized_active", "_ByteBudget.g_sum", "_ByteBudget.g_over",
                  "ThreadGhost.g_mine", "ThreadGhost.g_mine_over"])
    write_at = FnDecl(f"{ED}._write_tensor_at", "contract", ED, "_write_tensor_at", requires=[], ensures=[],
                      raises={"AnyException": []}, modifies=[])

    def setup_pair(e, p, env):
        setup_me(e, p, env)
        e.functions[f"{ED}._ByteBudget.acquire"] = acquire_c
        e.functions[f"{ED}._ByteBudget.release"] = release_c
        e.functions[f"{ED}._write_tensor_at"] = write_at
        e.spec_env_extra = {"me": e.me}

    eng.add_target(Target("_write_tensor_with_budget_at", mod=ED, qual="_write_tensor_with_budget_at",
        params=dict(tensor=TRef("TensorLike"), file=TRef("File"), offset=INT, length=INT, budget=TRef("_ByteBudget")),
        setup=setup_pair,
        requires=["implies(budget is not None, budget._capacity >= 1 and nonnull(budget._condition))",
                  "me.g_mine >= 0 and me.g_mine_over >= 0", "nonnull(tensor)"],
        ensures=["me.g_mine == old(me.g_mine) and me.g_mine_over == old(me.g_mine_over)"],
        raises={"AnyException": ["me.g_mine == old(me.g_mine) and me.g_mine_over == old(me.g_mine_over)"]}))

    eng.add_target(Target("_reservation_bytes", mod=ED, qual="_reservation_bytes",
        params=dict(tensor=TRef("TensorLike"), tensor_length=INT), requires=["nonnull(tensor)"],
        ensures=["result <= tensor_length", "implies(not typeis(tensor, ExternalTensor), result == tensor_length)",
                 "implies(typeis(tensor, ExternalTensor), result == min(tensor_length, CHUNK))"],
        setup=lambda e, p, env: env.__setitem__("CHUNK", VInt(z3.Int("CHUNK")))))

    # lemma (pure, over the contracts): bytes materialised at any time <= capacity + largest tensor.
    # With MI: regular reservations sum to in_flight <= capacity; at most one oversized token (g_over <= 1).
    eng.add_lemma("peak_memory_bound",
                  "forall(lambda cap=int, infl=int, over=int, big=int: implies(cap >= 1 and 0 <= infl and infl <= cap and "
                  "(over == 0 or over == 1) and big >= 0, infl + over * big <= cap + big))")
    # lemma: writes to disjoint byte ranges commute (schedule independence of the file content)
    eng.add_lemma("disjoint_writes_commute",
                  "forall(lambda a0=int, a1=int, b0=int, b1=int, x=int: implies(a0 <= a1 and b0 <= b1 and (a1 <= b0 or b1 <= a0), "
                  "ite(b0 <= x and x < b1, 2, ite(a0 <= x and x < a1, 1, 0)) == ite(a0 <= x and x < a1, 1, ite(b0 <= x and x < b1, 2, 0))))")


ENGINE_CLASS = MonitorEngine


_build_monitor = build


def build(eng, tier):
    _build_monitor(eng, tier)
    # lock levels of the whole writer (serial driver, pooled workers, shard drivers): callback lock < per-tensor lock < byte
    # budget (reservation or monitor) < leaf locks, one obligation per acquisition site, decided on the real source
    import os
    from pyvc import extract, lockorder
    path = extract.module_path(ED)
    seen = {}
    for where, ok, detail in lockorder.check_module(path):
        res = detail.split("while acquiring ")[1].split(" ")[0]
        name = f"lock-order/{where}:{res}"
        seen[name] = seen.get(name, 0) + 1
        if seen[name] > 1:
            name += f"#{seen[name]}"
        eng.add_static(name, ok, detail, backend="lock-level analysis (syntactic, onnx_ir.external_data)")
    eng.assumptions_used.add("lock-level analysis: resources are recognised by name (callback_lock, _tensor_write_locks, budget.acquire/release, "
                             "self._condition, *_lock) and calls are resolved by name inside onnx_ir.external_data; work passed to "
                             "executor.submit runs in another thread holding nothing")


_build_with_locks = build


def build(eng, tier):
    _build_with_locks(eng, tier)
    # one byte budget per save: `at most one oversized reservation` and `in_flight <= capacity` (the monitor invariant) bound
    # the materialised bytes of the WHOLE save only if every writer of the save shares one _ByteBudget built from the caller's
    # max_in_flight_bytes.  Frame obligation on the real source: no _ByteBudget(...) is created inside a loop or a
    # comprehension, and its argument is the caller's budget itself (no arithmetic on it).
    import ast
    from pyvc import extract
    tree = ast.parse(open(extract.module_path(ED)).read())
    parents = {}
    for n in ast.walk(tree):
        for c in ast.iter_child_nodes(n):
            parents[c] = n
    k = 0
    for n in ast.walk(tree):
        if isinstance(n, ast.Call) and isinstance(n.func, ast.Name) and n.func.id == "_ByteBudget":
            k += 1
            q, in_loop, fn = n, None, "<module>"
            while q in parents:
                q = parents[q]
                if isinstance(q, (ast.For, ast.While, ast.ListComp, ast.SetComp, ast.DictComp, ast.GeneratorExp)) and in_loop is None:
                    in_loop = type(q).__name__
                if isinstance(q, (ast.FunctionDef, ast.AsyncFunctionDef)):
                    fn = q.name
                    break
            arg = ast.unparse(n.args[0]) if n.args else ""
            arith = any(isinstance(x, ast.BinOp) for a in n.args for x in ast.walk(a))
            ok = in_loop is None and not arith and "max_in_flight_bytes" in arg
            eng.add_static(f"one-budget-per-save/{fn}@L{n.lineno}", ok,
                           f"_ByteBudget({arg}) in {fn}: " + ("inside a " + in_loop + " (one budget per iteration)" if in_loop else
                                                              "argument is not the caller's max_in_flight_bytes itself" if not ok else "created once from the caller's budget"),
                           backend="frame analysis (syntactic, onnx_ir.external_data)")
    eng.add_static("one-budget-per-save/sites", k >= 1, f"{k} construction sites of _ByteBudget found", backend="frame analysis (syntactic, onnx_ir.external_data)")


_build_with_budget = build


def build(eng, tier):
    _build_with_budget(eng, tier)
    add_callback_serialisation_obligations(eng)


def add_callback_serialisation_obligations(eng):
    """`the callback is never invoked concurrently`: decided on the real source of onnx_ir.external_data as dominance
    obligations.  Work handed to an executor runs in other threads; in every function that hands work to an executor
      (a) each call of the user's callback reachable from the submitted work lies inside `with <lock>:`,
      (b) <lock> is one lock per save: created by a single assignment in the function that owns the executor, outside any
          loop, comprehension or nested function,
      (c) a callback passed on to a submitted writer is None or the result of the locking wrapper, and the wrapper factory
          returns nothing but its locking wrapper."""
    import ast
    from pyvc import extract
    path = extract.module_path(ED)
    tree = ast.parse(open(path).read())
    BK = "callback-serialised (syntactic dominance, onnx_ir.external_data)"
    parents = {}
    for n in ast.walk(tree):
        for c in ast.iter_child_nodes(n):
            parents[c] = n

    def enclosing(n, kinds):
        while n in parents:
            n = parents[n]
            if isinstance(n, kinds):
                return n
        return None

    def chain(n):
        out = []
        while n in parents:
            n = parents[n]
            out.append(n)
        return out

    def under_lock(call):
        """name of the lock of the innermost enclosing `with <name>:`"""
        for a in chain(call):
            if isinstance(a, ast.With):
                for it in a.items:
                    if isinstance(it.context_expr, ast.Name) and it.context_expr.id.endswith("callback_lock"):
                        return it.context_expr.id
            if isinstance(a, (ast.FunctionDef, ast.Lambda)) and not isinstance(a, ast.With):
                # keep climbing only through the function that contains the call
                break
        return None
    owners = []      # functions that create an executor
    for fn in ast.walk(tree):
        if isinstance(fn, ast.FunctionDef) and any(isinstance(c, ast.Call) and ast.unparse(c.func).endswith("ThreadPoolExecutor") for c in ast.walk(fn)):
            if enclosing(fn, ast.FunctionDef) is None or True:
                owners.append(fn)
    eng.add_static("callback-serialised/owners", len(owners) >= 2, f"{len(owners)} functions create a thread pool (expected: the pooled writer and the shard driver)", backend=BK)
    for fn in owners:
        fname = fn.name
        # (b) exactly one creation of the callback lock, directly in the owner's body (not in a loop / nested def)
        creations = [n for n in ast.walk(fn) if isinstance(n, ast.Assign) and any(isinstance(t, ast.Name) and t.id == "callback_lock" for t in n.targets)]
        okb = len(creations) == 1 and enclosing(creations[0], (ast.FunctionDef, ast.Lambda)) is fn and \
            enclosing(creations[0], (ast.For, ast.While, ast.ListComp, ast.GeneratorExp, ast.DictComp, ast.SetComp)) is None and \
            isinstance(creations[0].value, ast.Call) and ast.unparse(creations[0].value.func) == "threading.Lock"
        eng.add_static(f"callback-serialised/{fname}/one-lock", okb,
                       f"{len(creations)} assignment(s) to callback_lock in {fname}" + ("" if okb else ": the lock must be created exactly once per save, "
                       "in the function that owns the thread pool, outside loops and nested functions"), backend=BK)
        # (a) every invocation of a user callback inside nested functions of the owner (= code that runs on pool threads)
        for inner in ast.walk(fn):
            if not (isinstance(inner, ast.FunctionDef) and inner is not fn):
                continue
            par = enclosing(inner, ast.FunctionDef)
            if par is not fn and par is not None and any(isinstance(r, ast.Return) and isinstance(r.value, ast.Name) and r.value.id == inner.name
                                                          for r in ast.walk(par)):
                continue        # a locking wrapper returned by a factory: obligation (c)
            for c in ast.walk(inner):
                if not isinstance(c, ast.Call) or enclosing(c, (ast.FunctionDef, ast.Lambda)) is not inner:
                    continue
                f = ast.unparse(c.func)
                if f in ("inner", "callback", "self._callback", "self._invoke_callback", "job_callback", "shard_callback"):
                    lk = under_lock(c)
                    eng.add_static(f"callback-serialised/{fname}/{inner.name}@{f}", lk == "callback_lock",
                                   f"{f}(...) at line {c.lineno} in {inner.name}: " + ("inside `with callback_lock`" if lk else "NOT inside `with callback_lock`"),
                                   backend=BK)
        # (c) callbacks handed to submitted writers: None, or the result of a locking-wrapper factory applied with THIS save's
        # lock.  A factory is any function (nested or module level) whose every return is a nested wrapper that calls the
        # factory's callback parameter only inside `with <lock>:`, the lock being a parameter or a variable of the owner.
        def factory_info(fac):
            wrappers = {x.name: x for x in fac.body if isinstance(x, ast.FunctionDef)}
            rets = [r for r in ast.walk(fac) if isinstance(r, ast.Return) and enclosing(r, (ast.FunctionDef, ast.Lambda)) is fac]
            if not wrappers or not rets or not all(isinstance(r.value, ast.Name) and r.value.id in wrappers for r in rets):
                return None
            params = [x.arg for x in fac.args.posonlyargs + fac.args.args + fac.args.kwonlyargs]
            locks = set()
            for w in wrappers.values():
                for c in ast.walk(w):
                    if isinstance(c, ast.Call) and isinstance(c.func, ast.Name) and c.func.id in params:
                        lk = None
                        for anc in chain(c):
                            if anc is w:
                                break
                            if isinstance(anc, ast.With):
                                for it in anc.items:
                                    if isinstance(it.context_expr, ast.Name):
                                        lk = it.context_expr.id
                        if lk is None:
                            return None
                        locks.add(lk)
            if len(locks) != 1:
                return None
            lk = next(iter(locks))
            return {"lock": lk, "lock_param": params.index(lk) if lk in params else None, "params": params}
        all_funcs = {n.name: n for n in ast.walk(tree) if isinstance(n, ast.FunctionDef)}
        for c in ast.walk(fn):
            if isinstance(c, ast.Call) and ast.unparse(c.func).endswith(".submit"):
                for kw in c.keywords:
                    if kw.arg != "callback":
                        continue
                    v = kw.value
                    arms = [v.body, v.orelse] if isinstance(v, ast.IfExp) else [v]
                    okk, why = True, ""
                    for arm in arms:
                        if isinstance(arm, ast.Constant) and arm.value is None:
                            continue
                        fac = all_funcs.get(arm.func.id) if isinstance(arm, ast.Call) and isinstance(arm.func, ast.Name) else None
                        info = factory_info(fac) if fac is not None else None
                        if info is None:
                            okk, why = False, "not None and not the result of a locking-wrapper factory"
                            break
                        if info["lock_param"] is None:
                            # the lock is a variable of the enclosing function: must be the owner's single lock
                            if not (info["lock"] == "callback_lock" and enclosing(fac, ast.FunctionDef) is fn):
                                okk, why = False, f"the wrapper locks {info['lock']}, which is not this save's callback_lock"
                                break
                        else:
                            i = info["lock_param"]
                            actual = arm.args[i] if i < len(arm.args) else next((k.value for k in arm.keywords if k.arg == info["lock"]), None)
                            if not (isinstance(actual, ast.Name) and actual.id == "callback_lock"):
                                okk, why = False, "the lock passed to the wrapper factory is not this save's callback_lock"
                                break
                    eng.add_static(f"callback-serialised/{fname}/submit-callback#{sum(1 for x in eng.obligations if '/submit-callback' in x.name and fname in x.name)}", okk,
                                   f"callback handed to a pool thread at line {c.lineno}: {ast.unparse(v)[:90]}" + (f"  ({why})" if why else ""), backend=BK)
    eng.assumptions_used.add("callback serialisation: the user's callback is recognised by name (callback / inner / self._callback / "
                             "self._invoke_callback / job_callback / shard_callback) and the lock by the name callback_lock")
