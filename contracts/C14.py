"""C14 — the pass contract: the infrastructure clauses that contracts can carry (identity rule enforced by
PassBase.__call__, modified = OR of the steps in Sequential / PassManager, early stop only on an unmodified step).
The per-pass clauses (modified-flag soundness, fixpoint, analysis passes leave the model unchanged under faults) are
covered by the bounded stand-in."""
from pyvc.core import ClassDecl, FnDecl
from pyvc.engine import Engine, Target
from pyvc.sem_stmt import LoopSpec
from pyvc.types import *  # noqa: F401,F403
from pyvc.types import BOOL, INT, STR, TOpt, TRef, TSeq
from . import schema

PI = "onnx_ir.passes._pass_infra"
LEVEL = "proof"
from . import onnx_api as _onnx_api
TRUSTED = ["a pass's own requires()/call()/ensures() are arbitrary code (uninterpreted calls that may raise)"] + _onnx_api.TRUSTED
NOT_DECIDED = ["modified=False => identical serialization, per built-in pass: bounded stand-in",
               "convergence within a size-bounded number of rounds: bounded stand-in",
               "call_onnx_api restores initializer order/data/type/shape and graph inputs on every exit: PROVED (target call_onnx_api); what "
               "CheckerPass / ShapeInferencePass do around it (merging inferred shapes, strict mode) under faults: bounded stand-in"]
BOUNDED = [{"name": "C14 every built-in pass on hand-written models: identity rule, modified flag, fixpoint, links, faults at the ONNX boundary (bounded, not a proof)",
            "script": "bounded_passes.py", "args": ["--prop", "C14"]}]


def build(eng, tier):
    _build_infra(eng, tier)
    # modified=False => nothing changed, for the one pass kernel that is under contract (shared with C05): a kept Identity
    # node (returned False) has had no field written
    from . import C05
    C05.build_identity(eng)
    # modified=False => no IR edit, for the constant-lifting pass (target shared with C05: symbolic edit counter)
    C05.build_constant_lifting(eng)
    # analysis passes leave the model unchanged under faults: the shared call_onnx_api wrapper
    from . import onnx_api
    onnx_api.add_call_onnx_api_target(eng)


def _build_infra(eng, tier):
    schema.opaque_class(eng, "Model")
    eng.declare_class_from_source(PI, "PassResult", fields={"model": TRef("Model"), "modified": BOOL})
    eng.classes["PassResult"].dataclass_fields = ["model", "modified"]
    eng.declare_class_from_source(PI, "PassBase", fields={"g_in_place": BOOL})
    eng.declare_class_from_source(PI, "Sequential", fields={"passes": TSeq(TRef("PassBase")), "_in_place": BOOL, "_changes_input": BOOL})
    eng.declare_class_from_source(PI, "PassManager", fields={"steps": INT, "early_stop": BOOL})
    # the abstract members of a pass, as uninterpreted calls
    eng.functions[f"{PI}.PassBase.in_place#getter"] = FnDecl(f"{PI}.PassBase.in_place#getter", "contract", PI, "PassBase.in_place",
        ensures=["result == self.g_in_place"], ret=BOOL, pure=True)
    eng.functions[f"{PI}.Sequential.in_place#getter"] = eng.functions[f"{PI}.PassBase.in_place#getter"]
    for nm, exc in (("requires", ["PreconditionError", "AnyException"]), ("ensures", ["PostconditionError", "AnyException"])):
        eng.functions[f"{PI}.PassBase.{nm}"] = FnDecl(f"{PI}.PassBase.{nm}", "contract", PI, f"PassBase.{nm}",
            ensures=[], raises={e: [] for e in exc}, modifies=None)
    eng.functions[f"{PI}.PassBase.call"] = FnDecl(f"{PI}.PassBase.call", "contract", PI, "PassBase.call",
        ensures=["g_called(result)"], raises={"AnyException": []}, ret=TRef("PassResult"), modifies=None)
    eng.spec_fn("def g_called(r):\n    return True\n")

    for kind, pty in (("model", TRef("Model")), ("result", TRef("PassResult"))):
        eng.add_target(Target(f"PassBase.__call__[{kind}]", mod=PI, qual="PassBase.__call__", self_cls="PassBase",
            params=dict(model_or_result=pty), requires=["nonnull(model_or_result)"],
            ensures=["nonnull(result)",
                     # the rule is enforced on the state in which __call__ returns
                     ("iff(self.g_in_place, result.model is model_or_result)" if kind == "model" else
                      "iff(self.g_in_place, result.model is old(model_or_result.model))")],
            raises_default=[], dead=["model = model_or_result"]))
        eng.targets[-1].exact_self = False

    # callers see a pass through the contract of __call__
    call_c = FnDecl(f"{PI}.PassBase.__call__", "contract", PI, "PassBase.__call__",
        requires=[], ensures=["nonnull(result)", "allocated(result)"], raises={"AnyException": []}, ret=TRef("PassResult"), modifies=None)

    def setup(e, p, env):
        e.functions[f"{PI}.PassBase.__call__"] = call_c
    eng.add_target(Target("Sequential.call", mod=PI, qual="Sequential.call", self_cls="Sequential",
        params=dict(model=TRef("Model")), setup=setup,
        requires=["nonnull(model)", "forall(lambda j=int: implies(0 <= j and j < len(self.passes), nonnull(self.passes[j])))"],
        ghost_init="g_flags = IntSeq()\ng_last = model",
        ghost=[("store:model", "after", "g_flags = g_flags + IntSeq(ite(pass_result.modified, 1, 0))\ng_last = pass_result.model")],
        loops={0: LoopSpec(invariant=["len(g_flags) == k", "model is g_last",
                                      "iff(modified, exists(lambda j=int: 0 <= j and j < k and g_flags[j] == 1))"], modifies=None)},
        ensures=["nonnull(result)", "fresh(result)", "result.model is g_last",
                 "len(g_flags) == len(old(self.passes))",
                 # modified is exactly the OR of what the steps reported
                 "iff(result.modified, exists(lambda j=int: 0 <= j and j < len(g_flags) and g_flags[j] == 1))"],
        raises_default=[]))

    # PassManager.call: early stop only when a step reports no modification; overall flag = OR of the steps
    seq_c = FnDecl(f"{PI}.Sequential.call", "contract", PI, "Sequential.call",
        requires=[], ensures=["nonnull(result)", "allocated(result)"], raises={"AnyException": []}, ret=TRef("PassResult"), modifies=None)

    def setup_pm(e, p, env):
        e.functions[f"{PI}.Sequential.call"] = seq_c
    eng.add_target(Target("PassManager.call", mod=PI, qual="PassManager.call", self_cls="PassManager",
        params=dict(model=TRef("Model")), setup=setup_pm, requires=["nonnull(model)"],
        ghost_init="g_flags = IntSeq()\ng_last = model",
        ghost=[("store:modified", "after", "g_flags = g_flags + IntSeq(ite(modified, 1, 0))\ng_last = model")],
        loops={0: LoopSpec(invariant=["len(g_flags) == k", "model is g_last",
                                      "iff(overall_modified, exists(lambda j=int: 0 <= j and j < k and g_flags[j] == 1))"], modifies=None)},
        ensures=["nonnull(result)", "result.model is g_last",
                 "iff(result.modified, exists(lambda j=int: 0 <= j and j < len(g_flags) and g_flags[j] == 1))",
                 # it stops early only right after a step that reported no modification
                 "len(g_flags) == old(self.steps) or old(self.steps) < 0 or (len(g_flags) >= 1 and g_flags[len(g_flags) - 1] == 0) or len(g_flags) == 0"],
        raises_default=[]))


def add_shape_inference_failure_target(eng):
    """ShapeInferencePass.call: `shape inference when inference fails leave[s] the model exactly unchanged`.  With call_onnx_api
    used through its (proved) contract - a failing call leaves the model as it was -, every path on which the ONNX call
    failed returns modified=False and contains no IR store and no IR-mutating call, before or after the attempt (effect
    obligation in lenient mode; the ghost flag g_failed is raised by the model of the failing call)."""
    from pyvc.core import Exc
    from pyvc.types import VBool, VFunc, VOpaque
    SI = "onnx_ir.passes.common.shape_inference"
    eng.declare_class_from_source(SI, "ShapeInferencePass", fields={"check_type": BOOL, "strict_mode": BOOL, "data_prop": BOOL})

    def api(e, p, args, kwargs, node):
        q = p.copy()
        q.frames[0].locals["g_failed"] = VBool(True)
        return [(p, VOpaque("inferred proto")), (q, Exc("AnyException", f"L{node.lineno}:call_onnx_api"))]

    def merge(e, p, args, kwargs, node):
        # merging the inferred shapes writes into the model (and reports whether it did): an IR mutation
        import z3
        from pyvc.types import fresh_name
        p.ghost["$ir_dirty"] = f"_merge_func at L{node.lineno}"
        return [(p, VBool(z3.Bool(fresh_name("merged")))), (p.copy(), Exc("AnyException", f"L{node.lineno}:_merge_func"))]

    def setup(e, p, env):
        e.lenient = True
        e.functions["onnx_ir.passes.common._c_api_utils.call_onnx_api"] = FnDecl("call_onnx_api", "builtin", impl=api)
        e.functions[f"{SI}._merge_func"] = FnDecl("_merge_func", "builtin", impl=merge)
    eng.add_target(Target("ShapeInferencePass.call[failure]", mod=SI, qual="ShapeInferencePass.call", self_cls="ShapeInferencePass",
        params=dict(model=TRef("Model")), setup=setup, requires=["nonnull(model)"],
        ghost_init="g_failed = False",
        ensures=["implies(g_failed, result.modified == False and result.model is model and ir_clean())"],
        raises_default=[], assert_mode="raise", dead=["return onnx.shape_inference.infer_shapes("]))
    # CheckerPass.call: an analysis pass - on every exit (the checker accepted the model, or the call raised) no IR store and
    # no IR-mutating call has happened, and a normal return reports modified=False
    CK = "onnx_ir.passes.common.onnx_checker"
    eng.declare_class_from_source(CK, "CheckerPass", fields={"full_check": BOOL, "skip_opset_compatibility_check": BOOL, "check_custom_domain": BOOL})
    eng.add_target(Target("CheckerPass.call[effects]", mod=CK, qual="CheckerPass.call", self_cls="CheckerPass",
        params=dict(model=TRef("Model")), setup=setup, requires=["nonnull(model)"],
        ghost_init="g_failed = False",
        ensures=["result.modified == False and result.model is model and ir_clean()"],
        raises_default=["ir_clean()"], assert_mode="raise", dead=["onnx.checker.check_model("]))


_build14b = build


def build(eng, tier):
    _build14b(eng, tier)
    add_shape_inference_failure_target(eng)


def add_toposort_flag_target(eng):
    """TopologicalSortPass.call: `reports modified=False only if the model serializes exactly as before` - for this pass the only
    thing that can change is the order of nodes (Graph.sort permutes the node lists of the graph and its subgraphs; C12), so the
    clause reads: modified=False implies that the node sequence after sorting, over the main graph, every nested subgraph and
    every function, equals the sequence before, position by position.  The traversals are arbitrary node sequences (what they
    enumerate is traversal.py's business), the sorts arbitrary effects; proved: the accumulation of both sequences over the
    functions and the comparison loop."""
    from pyvc.core import Exc
    from pyvc.types import NULL, VNone, VOpaque, fresh_name
    import z3
    TS = "onnx_ir.passes.common.topological_sort"
    eng.declare_class_from_source(TS, "TopologicalSortPass", fields={})
    N = TRef("PNode")
    eng.add_class(ClassDecl("PNode"))
    eng.add_class(ClassDecl("PGraph", fields={}))
    eng.add_class(ClassDecl("PFunction", fields={}))
    eng.add_class(ClassDecl("PFunctions", fields={"g_vals": TSeq(TRef("PFunction"))}))
    # (the Model class of this check - PassResult.model is typed with it - gets the two fields the pass reads)
    eng.classes["Model"].fields["graph"] = TRef("PGraph")
    eng.classes["Model"].fields["functions"] = TRef("PFunctions")
    LN = eng.LIST(N)

    from pyvc.types import Ref
    tlen = z3.Function("traversal_len", Ref, z3.IntSort())       # sorting permutes: a traversal has the same length before and after

    def traversal(e, p, args, kwargs, node):
        v = e.symbolic_param(p, fresh_name("traversal"), TSeq(N))
        p.assume(v.len >= 0)
        p.assume(v.len == tlen(args[0].z))
        return [(p, v)]

    def sort(e, p, args, kwargs, node):
        return [(p, VNone()), (p.copy(), Exc("ValueError", f"L{node.lineno}:sort"))]

    def setup(e, p, env):
        e.lenient = False
        e.lib_models["c14.traversal"] = traversal
        from pyvc.types import VFunc
        e.method_models = dict(e.method_models)
        e.method_models[("PGraph", "sort")] = FnDecl("Graph.sort", "builtin", impl=sort)
        e.method_models[("PFunction", "sort")] = FnDecl("Function.sort", "builtin", impl=sort)
        e.method_models[("PFunctions", "values")] = FnDecl("functions.values", "builtin", impl=lambda e2, p2, a, k, n: [(p2, e2.read_field(p2, a[0], "g_vals"))])
        orig = e.module_attr

        def module_attr(m, name, p2):
            if name == "RecursiveGraphIterator":
                return VFunc("lib", "c14.traversal", "RecursiveGraphIterator")
            return orig(m, name, p2)
        e.module_attr = module_attr
    eng.add_target(Target("TopologicalSortPass.call", mod=TS, qual="TopologicalSortPass.call", self_cls="TopologicalSortPass",
        params=dict(model=TRef("Model")), setup=setup,
        requires=["nonnull(model)", "nonnull(model.graph)", "nonnull(model.functions)",
                  "forall(lambda j=int: implies(0 <= j and j < len(model.functions.g_vals), nonnull(model.functions.g_vals[j])))"],
        local_types={"original_nodes": LN, "sorted_nodes": LN},
        ghost_init="g_o = EmptySeq(PNode)\ng_s = EmptySeq(PNode)",
        ghost=[("modified = False", "before", "g_o = Seq(original_nodes)\ng_s = Seq(sorted_nodes)")],
        loops={"for function in model.functions.values()": LoopSpec(invariant=["nonnull(original_nodes)", "nonnull(sorted_nodes)", "len(original_nodes) == len(sorted_nodes)"],
                                                                     modifies=[f"{LN.cls}.$v", "$alloc"]),
               "for (node, new_node) in zip(original_nodes, sorted_nodes)": LoopSpec(
                   invariant=["modified == False", "forall(lambda j=int: implies(0 <= j and j < k, g_o[j] is g_s[j]))",
                              "seq_eq(g_o, Seq(original_nodes)) and seq_eq(g_s, Seq(sorted_nodes))"], modifies=[])},
        ensures=["result.model is model", "len(g_o) == len(g_s)",        # both sequences cover the same graphs and functions
                 "implies(result.modified == False, forall(lambda j=int: implies(0 <= j and j < len(g_o), g_o[j] is g_s[j])))"],
        raises={"ValueError": []}, raises_default=[], modifies=None, assert_mode="raise"))


_build14c = build


def build(eng, tier):
    _build14c(eng, tier)
    add_toposort_flag_target(eng)


def add_default_attributes_flag_target(eng):
    """_add_default_attributes_to_node (AddDefaultAttributesPass): `reports modified=False only if [nothing changed]` - the
    function returns False only if it made no IR edit at all.  The symbolic edit counter g_edits is incremented by every event
    that may change IR state (here: the store into node.attributes); the loop over the schema's attributes is cut with
    `an edit has happened => modified is already True`."""
    DA = "onnx_ir.passes.common.default_attributes"
    schema.core_ir(eng)
    eng.classes["Node"].fields.setdefault("version", TOpt(INT))

    def setup(e, p, env):
        e.lenient = True
        e.functions["onnx_ir.serde.deserialize_attribute"] = FnDecl("onnx_ir.serde.deserialize_attribute", "opaque", raises={"AnyException": []})
    t = Target("_add_default_attributes_to_node", mod=DA, qual="_add_default_attributes_to_node", setup=setup,
        params={"node": TRef("Node"), "opset_imports": eng.DICT(STR, INT)}, requires=["nonnull(node)", "nonnull(opset_imports)"],
        ghost_init="g_edits = 0",
        loops={"for (attr_name, attr_def) in op_schema.attributes.items()": LoopSpec(invariant=["implies(g_edits > 0, modified)"], modifies=[])},
        ensures=["implies(result == False, g_edits == 0)"], raises_default=[], assert_mode="raise")
    eng.add_target(t)


_build14d = build


def build(eng, tier):
    _build14d(eng, tier)
    add_default_attributes_flag_target(eng)
