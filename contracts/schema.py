"""Shared schema: the fields (private slots) of the real onnx_ir classes with the types the encoding gives them.
Field names are the names in /repo; only the *types* are supplied here (Python has no declarations)."""
from pyvc.core import ClassDecl
from pyvc.types import *  # noqa: F401,F403
from pyvc.types import BOOL, INT, STR, TOpt, TRec, TRef, TSeq, TTup

CORE = "onnx_ir._core"


def opaque_class(eng, name):
    if name not in eng.classes:
        eng.add_class(ClassDecl(name))
    return TRef(name)


def tensor_protocol(eng):
    """Abstract TensorProtocol object: what the external-data code reads from a tensor.
    ASSUMPTION (listed): `nbytes`, `name`, `dtype`, `shape` are stable attributes (reading twice gives the same
    value) and nbytes >= 0."""
    for n in ("DataType", "Shape", "NpArray", "File", "Callback"):
        opaque_class(eng, n)
    if "TensorLike" not in eng.classes:
        eng.add_class(ClassDecl("TensorLike", fields={
            "nbytes": INT, "name": TOpt(STR), "dtype": TRef("DataType"), "shape": TRef("Shape"), "size": INT}))
    return TRef("TensorLike")


def external_tensor(eng):
    tensor_protocol(eng)
    if "ExternalTensor" not in eng.classes:
        eng.declare_class_from_source(CORE, "ExternalTensor", fields={
            "_location": STR, "_base_dir": STR, "_offset": TOpt(INT), "_length": TOpt(INT),
            "_dtype": TRef("DataType"), "_shape": TRef("Shape"), "_array": TRef("NpArray"), "raw": TRef(None),
            "_metadata_props": TRef(None), "_metadata": TRef(None), "_valid": BOOL,
            "_name": TOpt(STR), "_doc_string": TOpt(STR)})
        eng.classes["ExternalTensor"].bases.append("TensorLike")
    return TRef("ExternalTensor")


def external_data_info(eng):
    if "_ExternalDataInfo" not in eng.classes:
        rec = TRec("_ExternalDataInfo", (("name", TOpt(STR)), ("offset", INT), ("length", INT)))
        eng.add_class(ClassDecl("_ExternalDataInfo", mod="onnx_ir.external_data", record=rec))
    return eng.classes["_ExternalDataInfo"].record


GC = "onnx_ir._graph_containers"
LLM = "onnx_ir._linked_list"
NA = "onnx_ir._name_authority"


def core_ir(eng):
    """Value / Node / Graph and the tracked containers, with the private slots the invariants talk about."""
    from pyvc.types import REAL
    if "Value" in eng.classes:
        return
    tensor_protocol(eng)
    for n in ("TypeObj", "MetadataStore", "Attributes", "Attr", "ModelConfiguration"):
        opaque_class(eng, n)
    for n in ("TypeObj", "Shape"):
        eng.classes[n].structural_eq = True       # the real classes define __eq__ over their contents
    usage = TRec("Usage", (("node", TRef("Node")), ("idx", INT)))
    eng.add_class(ClassDecl("Usage", mod=CORE, record=usage))
    eng.classes["Usage"].record.is_tuple = True
    USES = eng.DICT(usage, TRef(None))
    STRMAP = eng.DICT(STR, STR)
    eng.declare_class_from_source(LLM, "_LinkBox", fields={
        "prev": TRef("_LinkBox"), "next": TRef("_LinkBox"), "value": TRef(None), "owning_list": TRef("DoublyLinkedSet"),
        "g_pos": REAL, "g_lim": REAL})
    BOXMAP = eng.DICT(TRef(None), TRef("_LinkBox"))
    eng.declare_class_from_source(LLM, "DoublyLinkedSet", fields={
        "_root": TRef("_LinkBox"), "_length": INT, "_value_ids_to_boxes": BOXMAP})
    eng.declare_class_from_source(NA, "NameAuthority", fields={
        "_value_counter": INT, "_node_counter": INT, "_value_names": eng.SET(STR), "_node_names": eng.SET(STR)})
    eng.declare_class_from_source(CORE, "Value", fields={
        "_producer": TRef("Node"), "_index": TOpt(INT), "_name": TOpt(STR), "_graph": TRef("Graph"),
        "_is_graph_input": BOOL, "_is_graph_output": BOOL, "_is_initializer": BOOL, "_uses": USES,
        "_const_value": TRef("TensorLike"), "_type": TRef("TypeObj"), "_shape": TRef("Shape"),
        "_metadata": TRef("MetadataStore"), "_metadata_props": STRMAP, "_doc_string": TOpt(STR)}, bases=[])
    SV = TSeq(TRef("Value"))
    eng.declare_class_from_source(CORE, "Node", fields={
        "_inputs": SV, "_outputs": SV, "_graph": TRef("Graph"), "_name": TOpt(STR), "_op_type": STR, "_domain": STR,
        "_overload": STR, "_version": TOpt(INT), "_attributes": TRef("Attributes"), "_metadata": TRef("MetadataStore"),
        "_metadata_props": STRMAP, "_doc_string": TOpt(STR), "device_configurations": TSeq(TRef(None))}, bases=[])
    LV = eng.LIST(TRef("Value"))
    CV = eng.COUNTER(TRef("Value"))
    eng.declare_class_from_source(GC, "_GraphIO", fields={"data": LV, "_graph": TRef("Graph"), "_ref_counter": CV})
    eng.declare_class_from_source(GC, "GraphInputs")
    eng.declare_class_from_source(GC, "GraphOutputs")
    INITMAP = eng.DICT(STR, TRef("Value"))
    eng.declare_class_from_source(GC, "GraphInitializers", fields={"data": INITMAP, "_graph": TRef("Graph")})
    eng.declare_class_from_source(CORE, "Graph", fields={
        "_inputs": TRef("GraphInputs"), "_outputs": TRef("GraphOutputs"), "_initializers": TRef("GraphInitializers"),
        "_nodes": TRef("DoublyLinkedSet"), "_name_authority": TRef("NameAuthority"), "name": TOpt(STR),
        "_doc_string": TOpt(STR), "_opset_imports": eng.DICT(STR, INT), "_metadata": TRef("MetadataStore"),
        "_metadata_props": STRMAP}, bases=[])
    eng.global_overrides[("onnx_ir", "DEBUG")] = VBool(False)


from pyvc.types import VBool  # noqa: E402
