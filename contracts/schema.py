"""Shared schema: the fields (private slots) of the real onnx_ir classes with the types the encoding gives them.
Field names are the names in /repo; only the *types* are supplied here (Python has no declarations)."""
from pyvc.core import ClassDecl
from pyvc.types import *  # noqa: F401,F403
from pyvc.types import BOOL, INT, STR, TOpt, TRec, TRef, TSeq, TTup

CORE = "onnx_ir._core"


def opaque_class(eng, name):
    if name not in eng.classes:
        eng.add_class(ClassDecl(name))
    return TRef(name)


def tensor_protocol(eng):
    """Abstract TensorProtocol object: what the external-data code reads from a tensor.
    ASSUMPTION (listed): `nbytes`, `name`, `dtype`, `shape` are stable attributes (reading twice gives the same
    value) and nbytes >= 0."""
    for n in ("DataType", "Shape", "NpArray", "File", "Callback"):
        opaque_class(eng, n)
    if "TensorLike" not in eng.classes:
        eng.add_class(ClassDecl("TensorLike", fields={
            "nbytes": INT, "name": TOpt(STR), "dtype": TRef("DataType"), "shape": TRef("Shape"), "size": INT}))
    return TRef("TensorLike")


def external_tensor(eng):
    tensor_protocol(eng)
    if "ExternalTensor" not in eng.classes:
        eng.declare_class_from_source(CORE, "ExternalTensor", fields={
            "_location": STR, "_base_dir": STR, "_offset": TOpt(INT), "_length": TOpt(INT),
            "_dtype": TRef("DataType"), "_shape": TRef("Shape"), "_array": TRef("NpArray"), "raw": TRef(None),
            "_metadata_props": TRef(None), "_metadata": TRef(None), "_valid": BOOL,
            "_name": TOpt(STR), "_doc_string": TOpt(STR)})
        eng.classes["ExternalTensor"].bases.append("TensorLike")
    return TRef("ExternalTensor")


def external_data_info(eng):
    if "_ExternalDataInfo" not in eng.classes:
        rec = TRec("_ExternalDataInfo", (("name", TOpt(STR)), ("offset", INT), ("length", INT)))
        eng.add_class(ClassDecl("_ExternalDataInfo", mod="onnx_ir.external_data", record=rec))
    return eng.classes["_ExternalDataInfo"].record
