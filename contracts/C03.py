"""C03 — IR -> proto -> IR preserves the model; serialization has no side effects.

Deductive part (frame / effect contracts decided by pyvc.effects on the real source, one obligation per function):
  frame/<f>        every store performed by f (attribute store, subscript store, del, setattr, mutating container method) goes to
                   (a) a protobuf message or a container created by the serializer itself ("out"), or
                   (b) the fresh object a constructor is initialising, or the private cursor of a helper object the serializer
                       creates (graph iterator, dimension-expression tokenizer/parser), or
                   (c) a lazily initialised cache field (listed; the abstraction identifies "unset" with "empty", and every public
                       accessor returns the same observable value before and after), or
                   (d) THE one store the statement allows: `value.const_value.name = value.name` in serialize_graph_into and the
                       name setters it reaches.
                   f's callees are checked against the same contract, not inlined.
  deterministic/<f> f reads no clock / random source  (so, with an unchanged IR, a second serialization sees the same state:
                   "serializing twice gives equal protos" follows from frame + determinism + (d) being idempotent).
Bounded part: IR models built and edited through the public API, round trip compared structurally through public accessors,
deep snapshot before/after to_proto, serialize twice."""
import ast
import hashlib
import os

from pyvc import effects

LEVEL = "proof"
SERDE = "onnx_ir.serde"
TRUSTED = ["effect analysis call resolution (name-based over-approximation inside onnx_ir; annotations used for receiver types)",
           "library calls (protobuf, numpy) do not store into IR objects reachable from their arguments, except the container mutator "
           "methods listed in pyvc/effects.py MUTATORS which are treated as stores",
           "cache fields listed in contracts/C03.py CACHE_FIELDS are observationally neutral (lazy initialisation of empty metadata, "
           "memoised tensor bytes / parsed expression)"]
NOT_DECIDED = ["model isomorphism after the round trip (scoped name tables, value-info selection): bounded stand-in",
               "id()-keyed memoisation is not forbidden by the determinism contract (it is deterministic within one process)"]
BOUNDED = [{"name": "C03 IR built/edited via public API: round trip isomorphic, to_proto leaves a deep snapshot unchanged, twice equal (bounded)",
            "script": "bounded_serde.py", "args": ["--prop", "C03"]}]
EXPECTED_MIN_OBLIGATIONS = 300

HELPER_CLASSES = {"RecursiveGraphIterator", "_ExpressionTokenizer", "_ExpressionParser"}
CACHE_FIELDS = {"_metadata_props": "lazily created empty dict (accessor returns {} either way)",
                "_metadata": "lazily created empty MetadataStore",
                "_expr_cache": "memoised SymPy parse of the dimension's own text",
                "_tensor": "memoised result of LazyTensor's user function",
                "_array": "memoised memory map of the external file",
                "raw": "memoised mmap handle of the external file"}
NAME_ALIGNMENT = {("onnx_ir._core:TensorBase.name[setter]", "self", "_name"),
                  ("onnx_ir.serde:TensorProtoTensor.name[setter]", "self._proto", "name")}


def roots(repo):
    return [f for n, f in repo.module_funcs[SERDE].items()
            if n.startswith(("serialize_", "_serialize", "_fill_in", "_maybe_add", "_should_create", "_remove_trailing")) or n == "to_proto"]


def allowed(f, ln, recv, attr, kind):
    k = kind[0] if kind else None
    if k == "out":
        return True
    if f.name in ("__init__", "__post_init__", "__new__") and recv == "self":
        return True
    if f.cls in HELPER_CLASSES and recv == "self":
        return True
    if recv == "self" and attr in CACHE_FIELDS:
        return True
    if (f.qual, recv, attr) in NAME_ALIGNMENT:
        return True
    # (d) in serialize_graph_into: a store to `.name` of an expression whose static type is a tensor (however it is spelled)
    if f.qual == "onnx_ir.serde:serialize_graph_into" and attr == "name" and kind and len(kind) > 1 and kind[1] and "TensorProtocol" in kind[1] \
            and not ({"Value", "Node", "Graph", "Function", "Attr"} & set(kind[1])):
        return True
    return False


def build(eng, tier):
    repo = effects.Repo()
    rs = roots(repo)
    res = effects.check_contract(repo, rs, forbid_fs=False, forbid_nondet=True, allowed_writes=allowed)
    for name, ok, detail in res["obligations"]:
        eng.add_static(name, ok, detail, backend="frame-analysis" if name.startswith("frame/") else "effect-analysis")
    # (d) is exactly the statement's store: the right-hand side is the value's own name
    f = repo.module_funcs[SERDE]["serialize_graph_into"]
    used_cache = set()
    an = res["analyzer"]
    for fn in res["fns"]:
        for (ln, recv, attr, kind) in an.direct(fn).writes:
            if recv == "self" and attr in CACHE_FIELDS and not (fn.name in ("__init__",)):
                used_cache.add(f"{fn.qual}: self.{attr} ({CACHE_FIELDS[attr]})")
    for mod in sorted({fn.module for fn in res["fns"]}):
        path = os.path.join(repo.src_root, *mod.split("."))
        path = path + ".py" if os.path.exists(path + ".py") else os.path.join(path, "__init__.py")
        sha = hashlib.sha256(open(path, "rb").read()).hexdigest()[:16]
        eng.functions_under_contract[f"file:{mod}"] = {"function": f"file:{mod}", "kind": "file", "module": mod, "file": path, "sha256": sha,
                                                       "lines": "whole file", "contract": "frame + determinism contracts"}
    eng.effect_reports = {
        "contract": "stores only to protobuf/fresh objects, constructor targets, listed cache fields, and the name alignment; no clock/random reads",
        "roots": sorted(x.qual for x in rs), "functions_under_effect_contract": len(res["functions"]),
        "cache_field_stores_accepted": sorted(used_cache),
        "assumed_library_calls": res["assumed_library_calls"],
        "unresolved_method_names (library/builtin receivers)": res["unresolved_method_names"],
    }


_build_C03 = build
from . import serde_targets as _st  # noqa: E402
TRUSTED = list(TRUSTED) + _st.TRUSTED


def build(eng, tier):
    _build_C03(eng, tier)
    from . import serde_targets
    serde_targets.add_value_info_target(eng)
    serde_targets.add_tensor_shape_target(eng)
    serde_targets.add_graph_initializer_target(eng)
    serde_targets.add_graph_io_target(eng)
