"""Shared targets for C01 (invariant on every exit) and C06 (a raising call changes nothing)."""
from pyvc.core import ClassDecl, FnDecl
from pyvc.engine import Engine, Target
from pyvc.sem_stmt import LoopSpec
from pyvc.types import *  # noqa: F401,F403
from pyvc.types import BOOL, INT, STR, TOpt, TRef, TSeq
from . import schema

GC = schema.GC
CORE = schema.CORE

SPEC = '''
def io_wf(c, pend, k):
    return (nonnull(c.data) and allocated(c.data) and nonnull(c._ref_counter) and allocated(c._ref_counter) and nonnull(c._graph) and
            forall(lambda v=Value: box(c._ref_counter)[v] == count(box(c.data), v) + countp(pend, k, v)) and
            forall(lambda i=int: implies(0 <= i and i < len(box(c.data)), nonnull(box(c.data)[i]) and box(c.data)[i]._graph is c._graph)))

def out_wf(c, pend, k):
    return io_wf(c, pend, k) and c._graph._outputs is c and forall(lambda i=int: implies(0 <= i and i < len(box(c.data)), box(c.data)[i]._is_graph_output))

def in_wf(c, pend, k):
    return (io_wf(c, pend, k) and c._graph._inputs is c and
            forall(lambda i=int: implies(0 <= i and i < len(box(c.data)), box(c.data)[i]._is_graph_input and box(c.data)[i]._producer is None)))

def own_value(v, c, pend, k):
    return (iff(v._graph is None, not (v._is_graph_input or v._is_graph_output or v._is_initializer)) and
            implies(v._is_graph_output, nonnull(v._graph._outputs) and
                    count(box(v._graph._outputs.data), v) + ite(v._graph._outputs is c, countp(pend, k, v), 0) >= 1) and
            implies(v._is_graph_input, nonnull(v._graph._inputs) and v._producer is None and
                    count(box(v._graph._inputs.data), v) + ite(v._graph._inputs is c, countp(pend, k, v), 0) >= 1))

def OWNP(c, pend, k):
    return (forall(lambda d=GraphOutputs: out_wf(d, pend, ite(d is c, k, 0))) and forall(lambda d=GraphInputs: in_wf(d, pend, ite(d is c, k, 0))) and
            forall(lambda v=Value: own_value(v, c, pend, k)) and
            forall(lambda d=_GraphIO, e=_GraphIO: implies(d is not e, d.data is not e.data and d._ref_counter is not e._ref_counter)))

def OWN():
    return OWNP(None, NOVALS, 0)

def added_out(c, v):
    return v._graph is c._graph and v._is_graph_output

def added_in(c, v):
    return v._graph is c._graph and v._is_graph_input and v._producer is None

def can_add_out(c, v):
    return nonnull(v) and (v._graph is None or v._graph is c._graph)

def can_add_in(c, v):
    return nonnull(v) and (v._graph is None or v._graph is c._graph) and v._producer is None
'''


def build(eng, tier, prop):
    schema.core_ir(eng)
    eng.spec_fn(SPEC)
    from pyvc.types import VSeq
    eng.ghost_env = dict(eng.ghost_env)
    eng.ghost_env["NOVALS"] = VSeq.empty(TRef("Value"))
    LV = eng.LIST(TRef("Value")).cls
    CV = eng.COUNTER(TRef("Value")).cls
    mod = ["Value._graph", "Value._is_graph_input", "Value._is_graph_output", f"{LV}.$v", f"{CV}.$v", "$alloc"]
    unchanged = "unchanged(%s)" % ", ".join(repr(m) for m in mod if m != "$alloc")
    exc = ["OWN()"] if prop == "C01" else [unchanged]
    SV = TSeq(TRef("Value"))
    for cls, can, added in (("GraphOutputs", "can_add_out", "added_out"), ("GraphInputs", "can_add_in", "added_in")):
        def T(meth, params, **kw):
            t = Target(f"{cls}.{meth}", mod=GC, qual=f"_GraphIO.{meth}", self_cls=cls, params=params,
                       requires=["OWN()"] + kw.pop("requires", []), ensures=["OWN()"] + kw.pop("ensures", []),
                       raises_default=exc, modifies=mod, **kw)
            eng.add_target(t)
            return t
        T("append", dict(item=TRef("Value")), ensures=["seq_eq(box(self.data), old(box(self.data)) + Seq((item,)))"])
        T("pop", dict(i=INT))
        T("remove", dict(item=TRef("Value")))
        T("insert", dict(i=INT, item=TRef("Value")))
        T("__setitem__", dict(i=INT, item=TRef("Value")), dead=["raise TypeError", "if isinstance(item, Iterable) and isinstance(i, slice)", "for value in", "self._maybe_unset_graph(value)", "self._set_graph(value)", "item = tuple(item)", "self._check_value(value)", "super().__setitem__(i, item)", "self._check_invariance()", "return"])
        T("__delitem__", dict(i=INT))
        T("extend", dict(other=SV), loops={
            0: LoopSpec(invariant=["OWN()", f"forall(lambda j=int: implies(0 <= j and j < k, {can}(self, other[j])))"], modifies=[]),
            1: LoopSpec(invariant=["OWNP(self, other, k)", f"forall(lambda j=int: implies(0 <= j and j < len(other), {can}(self, other[j])))",
                                   f"forall(lambda j=int: implies(0 <= j and j < k, {added}(self, other[j])))",
                                   "seq_eq(box(self.data), old(box(self.data)))"],
                        modifies=["Value._graph", "Value._is_graph_input", "Value._is_graph_output", f"{CV}.$v"])},
          ensures=["seq_eq(box(self.data), old(box(self.data)) + other)"])
