"""C10 — external reads stay inside the base directory: the containment check against an independent specification
(z3 strings), and dominance of every file open by the check."""
import z3

from pyvc.core import ClassDecl, Exc, FnDecl
from pyvc.engine import Engine, Target
from pyvc.types import *  # noqa: F401,F403
from pyvc.types import BOOL, INT, STR, TOpt, TRec, TRef, VInt, VRec, VStr, VOpaque, VNone, fresh_name
from . import schema, libs

CORE = schema.CORE
LEVEL = "proof"
USE_Z3_STRINGS = True
TRUSTED = ["os.path.realpath returns the fully resolved location; abspath/normpath/normcase/join/fspath are deterministic "
           "functions of their arguments (uninterpreted); os.stat(p).st_nlink is the link count; os.sep == '/' (POSIX)",
           "TOCTOU between check and open, and the kernel's own path resolution, are outside the contract"]
NOT_DECIDED = ["_io.load hands dirname(abspath(path)) to set_base_dir for the main graph and every function body: PROVED (target load, dirname/abspath "
               "uninterpreted); that set_base_dir reaches every external tensor of a graph (attribute tensors, subgraphs) and what dirname/abspath "
               "return for every spelling: bounded stand-in",
               "behaviour on real file systems with symlinks/hard links: bounded stand-in with canary files"]
BOUNDED = [{"name": "C10 generated locations x base spellings x entry points on a real directory tree (bounded, not a proof)",
            "script": "bounded_paths.py", "args": []}]

SPEC = '''
def inside(p, b):
    return p == b or (prefixof(b, p) and strlen(p) > strlen(b) and (suffixof("/", b) or charat(p, strlen(b)) == "/"))

def norm(s):
    return os_path_normcase(os_path_normpath(os_path_abspath(s)))

def Contained(base, path):
    return (inside(norm(path), norm(os_fspath(base))) and
            inside(os_path_normcase(os_path_realpath(path)), os_path_normcase(os_path_realpath(os_fspath(base)))) and
            (stat_fails(os_path_normcase(os_path_realpath(path))) or nlink(os_path_normcase(os_path_realpath(path))) <= 1))
'''


def build(eng, tier):
    schema.external_tensor(eng)
    libs.install_os_path(eng)
    S = STR.sorts()[0]
    # spec-side names of the same uninterpreted library functions
    for nm, ar in (("os.path.normcase", 1), ("os.path.normpath", 1), ("os.path.abspath", 1), ("os.path.realpath", 1), ("os.fspath", 1)):
        f = eng.ufunc(nm, [S] * ar, S)
        eng.spec_ufuncs[nm.replace(".", "_")] = (f, STR)
    nlink = eng.ufunc("nlink", [S], z3.IntSort())
    stat_fails = eng.ufunc("stat_fails", [S], z3.BoolSort())
    eng.spec_ufuncs["nlink"] = (nlink, INT)
    eng.spec_ufuncs["stat_fails"] = (stat_fails, BOOL)
    eng.lib_consts = {"os.sep": VStr("/")}
    stat_rec = TRec("stat_result", (("st_nlink", INT),))

    def os_stat(e, p, args, kwargs, node):
        q = p.copy()
        q.assume(stat_fails(args[0].z))
        p.assume(z3.Not(stat_fails(args[0].z)))
        return [(p, VRec(stat_rec, {"st_nlink": VInt(nlink(args[0].z))})), (q, Exc("OSError", f"L{node.lineno}:os.stat"))]
    eng.lib_models["os.stat"] = os_stat
    eng.spec_fn(SPEC)
    eng.opaque_specs = {"Contained"}
    ET = TRef("ExternalTensor")
    eng.add_target(Target("ExternalTensor._check_path_containment", mod=CORE, qual="ExternalTensor._check_path_containment",
        self_cls="ExternalTensor", reveal=["Contained"],
        ensures=["self._base_dir == '' or Contained(self._base_dir, os_path_join(self._base_dir, self._location))",
                 "unchanged('ExternalTensor._base_dir', 'ExternalTensor._location')"],
        raises={"ValueError": ["self._base_dir != ''",
                               "not Contained(self._base_dir, os_path_join(self._base_dir, self._location))"]},
        modifies=[]))
    eng.spec_ufuncs["os_path_join"] = (eng.ufunc("os.path.join", [S, S], S), STR)

    # ---- dominance: every read entry point opens the file only after the containment check, with the same path -----
    eng.lenient = True
    check_c = FnDecl(f"{CORE}.ExternalTensor._check_path_containment", "contract", CORE, "ExternalTensor._check_path_containment",
        requires=[], ensures=["self._base_dir == '' or Contained(self._base_dir, os_path_join(self._base_dir, self._location))"],
        raises={"ValueError": []}, modifies=[])

    def open_model(e, p, args, kwargs, node):
        # precondition of every open()/mmap of an external tensor's file
        selfv = p.frame.lookup("self")
        if selfv is not None and getattr(selfv, "cls", None) == "ExternalTensor":
            goal = e.spec_bool("self._base_dir == '' or (path_arg == os_path_join(self._base_dir, self._location) and "
                               "Contained(self._base_dir, path_arg))", p, {"path_arg": args[0], "self": selfv})
            e.oblige(p, goal, "call-pre/open", f"L{node.lineno}")
        q = p.copy()
        return [(p, VOpaque("file")), (q, Exc("OSError", f"L{node.lineno}:open"))]
    eng.builtin_names = set(eng.builtin_names) | {"open"}
    eng.bi_open = lambda p, a, k, n: open_model(eng, p, a, k, n)

    def setup(e, p, env):
        e.functions[f"{CORE}.ExternalTensor._check_path_containment"] = check_c
        for fn_ in ("unpack_4bitx2", "unpack_2bitx4"):
            e.functions[f"onnx_ir._type_casting.{fn_}"] = FnDecl(f"onnx_ir._type_casting.{fn_}", "opaque", raises={"AnyException": []})
    for meth in ("_load", "tofile", "tobytes", "numpy", "__array__"):
        eng.add_target(Target(f"ExternalTensor.{meth}", mod=CORE, qual=f"ExternalTensor.{meth}", self_cls="ExternalTensor",
            params=dict(file=TRef("File"), dtype=TRef(None)), setup=setup, requires=[], ensures=[],
            raises_default=[], assert_mode="raise"))


# ------------------------------------------------------------------------------------------------------------------
# _io.load: every graph of the loaded model - the main graph and the body of every function - is given the model's
# directory as base directory
def add_load_target(eng):
    """`g_base` is the ghost record of what set_base_dir(graph, d) did for a graph (its contract: it assigns d to every
    external tensor reachable from the graph - initializers and attribute tensors, subgraphs included; that walk itself is
    bounded).  On a normal return of load(path): the main graph and every function body have
    g_base == os.path.dirname(os.path.abspath(path))."""
    from pyvc.sem_stmt import LoopSpec
    from pyvc.types import TMap, TSeq
    IO = "onnx_ir._io"
    ED = "onnx_ir.external_data"
    eng.add_class(ClassDecl("Graph10", fields={"g_base": TOpt(STR)}))
    eng.add_class(ClassDecl("Function10", fields={"graph": TRef("Graph10")}))
    # model.functions is viewed as the sequence of its values (g_vals): load() only iterates over .values()
    eng.add_class(ClassDecl("Functions10", fields={"g_vals": TSeq(TRef("Function10"))}))
    eng.add_class(ClassDecl("Model10", fields={"graph": TRef("Graph10"), "functions": TRef("Functions10")}))
    eng.method_models = dict(getattr(eng, "method_models", {}) or {})
    eng.method_models[("Functions10", "values")] = FnDecl("Functions.values", "builtin",
                                                          impl=lambda e, p, a, k, n: [(p, e.read_field(p, a[0], "g_vals"))])
    eng.functions[f"{ED}.set_base_dir"] = FnDecl(f"{ED}.set_base_dir", "contract", ED, "set_base_dir",
        requires=["nonnull(graph)"], ensures=["graph.g_base == base_dir",
                                              "forall(lambda g=Graph10: implies(g is not graph, g.g_base == old(g.g_base)))"],
        modifies=["Graph10.g_base"])

    def m_load(e, p, args, kwargs, node):
        return [(p, VOpaque("ModelProto")), (p.copy(), Exc("AnyException", f"L{node.lineno}:onnx.load"))]

    def m_deser(e, p, args, kwargs, node):
        m = e.symbolic_param(p, "loaded_model", TRef("Model10"))
        from pyvc.types import NULL
        p.assume(m.z != NULL)
        p.assume(e.spec_bool("nonnull(loaded_model.graph) and nonnull(loaded_model.functions) and "
                             "forall(lambda j=int: implies(0 <= j and j < len(loaded_model.functions.g_vals), nonnull(loaded_model.functions.g_vals[j]) and "
                             "nonnull(loaded_model.functions.g_vals[j].graph)))", p, {"loaded_model": m}))
        return [(p, m), (p.copy(), Exc("AnyException", f"L{node.lineno}:deserialize_model"))]

    def setup(e, p, env):
        e.lenient = False
        e.lib_models["onnx.load"] = m_load
        e.functions["onnx_ir.serde.deserialize_model"] = FnDecl("onnx_ir.serde.deserialize_model", "builtin", impl=m_deser)
    dirname = eng.ufunc("os.path.dirname", [STR.sorts()[0]], STR.sorts()[0])
    eng.spec_ufuncs["os_path_dirname"] = (dirname, STR)
    BASE = "os_path_dirname(os_path_abspath(path))"
    eng.add_target(Target("load", mod=IO, qual="load", setup=setup, params=dict(path=STR, format=TOpt(STR)), requires=[],
        loops={"for function in model.functions.values()": LoopSpec(
            invariant=[f"model.graph.g_base == {BASE}",
                       f"forall(lambda j=int: implies(0 <= j and j < k, it[j].graph.g_base == {BASE}))",
                       "forall(lambda j=int: implies(0 <= j and j < len(it), nonnull(it[j]) and nonnull(it[j].graph)))"],
            modifies=["Graph10.g_base"])},
        ensures=[f"result.graph.g_base == {BASE}",
                 f"forall(lambda j=int: implies(0 <= j and j < len(result.functions.g_vals), result.functions.g_vals[j].graph.g_base == {BASE}))"],
        raises_default=[], modifies=None, assert_mode="raise"))


_build10 = build


def build(eng, tier):
    _build10(eng, tier)
    add_load_target(eng)
