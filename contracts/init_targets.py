"""C01/C06 for the initializer dictionary of a graph: GraphInitializers.__setitem__ / add / __delitem__ under the ownership
invariant extended to initializers.

INIT:  every entry of a graph's initializer dictionary is a value flagged _is_initializer, owned by that graph and stored
       under its own name; conversely a value flagged _is_initializer is stored, under its name, in the dictionary of its
       graph; distinct dictionaries do not share their storage.
OWNF:  a value has an owning graph iff one of its three role flags is set (the part of the C01 ownership invariant these
       mutators can break).
C01: both hold on every exit.  C06: a rejected call (ValueError / TypeError / KeyError) changed no field."""
from pyvc.core import FnDecl
from pyvc.engine import Target
from pyvc.types import STR, TOpt, TRef
from . import schema

GC = schema.GC
CORE = schema.CORE

SPEC = '''
def init_entry(d, k):
    return (nonnull(box(d.data)[k]) and allocated(box(d.data)[k]) and isinstance(box(d.data)[k], Value) and box(d.data)[k]._is_initializer and
            box(d.data)[k]._graph is d._graph and box(d.data)[k]._name == k and k != '')

def INIT():
    return (forall(lambda d=GraphInitializers: nonnull(d.data) and allocated(d.data) and nonnull(d._graph) and allocated(d._graph) and
                   d._graph._initializers is d) and
            forall(lambda d=GraphInitializers, k=str: implies(k in box(d.data), init_entry(d, k))) and
            forall(lambda v=Value: implies(v._is_initializer, nonnull(v._graph) and nonnull(v._graph._initializers) and allocated(v._graph._initializers) and
                   v._name is not None and some(v._name) in box(v._graph._initializers.data) and
                   box(v._graph._initializers.data)[some(v._name)] is v)) and
            forall(lambda d=GraphInitializers, e=GraphInitializers: implies(d is not e, d.data is not e.data)))

def OWNF():
    return forall(lambda v=Value: iff(v._graph is None, not (v._is_graph_input or v._is_graph_output or v._is_initializer)))
'''


def build(eng, prop):
    schema.core_ir(eng)
    eng.spec_fn(SPEC)
    INITMAP = eng.classes["GraphInitializers"].fields["data"]
    mod = ["Value._graph", "Value._is_initializer", "Value._name", f"{INITMAP.cls}.$v", "$alloc"]
    unchanged = "unchanged(%s)" % ", ".join(repr(m) for m in mod if m != "$alloc")
    exc = ["INIT()", "OWNF()"] if prop == "C01" else [unchanged]
    inv = ["INIT()", "OWNF()"]

    def setup(e, p, env):
        e.lenient = False
        # a value without a name gets the key as its name: the plain-store half of the name setter (the value is not yet an
        # initializer on that path; the setter's own contract is the Value.name target)
        e.functions[f"{CORE}.Value.name#setter"] = FnDecl(f"{CORE}.Value.name#setter", "contract", CORE, "Value.name", kind="setter",
            requires=["not self._is_initializer"], ensures=["self._name == value",
                                                            "forall(lambda v=Value: implies(v is not self, v._name == old(v._name)))"],
            modifies=["Value._name"])
        e.functions[f"{CORE}.Value.producer"] = FnDecl(f"{CORE}.Value.producer", "contract", CORE, "Value.producer",
            requires=[], ensures=["result is self._producer"], ret=TRef("Node"), pure=True)
    common = dict(mod=GC, self_cls="GraphInitializers", setup=setup, raises_default=exc, modifies=mod, assert_mode="raise")
    eng.add_target(Target("GraphInitializers.__delitem__", qual="GraphInitializers.__delitem__", params=dict(key=STR),
        requires=inv, ensures=inv + ["not (key in box(self.data))",
                                     "forall(lambda k=str: implies(k != key, (k in box(self.data)) == old(k in box(self.data))))"], **common))
    eng.add_target(Target("GraphInitializers.__setitem__", qual="GraphInitializers.__setitem__", params=dict(key=STR, value=TRef("Value")),
        requires=inv,
        # (the first three are lemmas for the invariant: names of other values are untouched, the stored value carries the key,
        #  and a value that had no name was not stored anywhere)
        ensures=["forall(lambda v=Value: implies(v is not value, v._name == old(v._name)))", "value._name == key",
                 "forall(lambda d=GraphInitializers, k=str: implies(old(k in box(d.data)) and old(box(d.data)[k]) is value, k == key and d is self))"]
                + inv + ["key in box(self.data) and box(self.data)[key] is value",
                                     "forall(lambda k=str: implies(k != key, (k in box(self.data)) == old(k in box(self.data))))"],
        dead=["raise TypeError"], **common))
    # add(value) = self[value.name] = value: used through the contract of __setitem__ proved above (a None name is rejected
    # by its isinstance check before anything is written)
    setitem_c = FnDecl(f"{GC}.GraphInitializers.__setitem__", "contract", GC, "GraphInitializers.__setitem__",
        requires=inv, ensures=inv + ["key is not None", "some(key) in box(self.data) and box(self.data)[some(key)] is value"],
        raises={"TypeError": exc, "ValueError": exc}, modifies=mod)

    def setup_add(e, p, env):
        setup(e, p, env)
        e.functions[f"{GC}.GraphInitializers.__setitem__"] = setitem_c
    common_add = dict(common)
    common_add["setup"] = setup_add
    eng.add_target(Target("GraphInitializers.add", qual="GraphInitializers.add", params=dict(value=TRef("Value")),
        requires=inv + ["nonnull(value)"], ensures=inv + ["value._name is not None and box(self.data)[some(value._name)] is value"], **common_add))
