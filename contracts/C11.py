"""C11 — DoublyLinkedSet: representation invariant with ghost positions, mutator contracts, iterator contract.

Ghost state per box: g_pos (a real; root has 0), g_lim (for a live-or-root box: lower bound of the positions of the
tombstones parked in the gap after it).  The universe of a list L is U(L) = {b : b.owning_list is L} (owning_list is
written once, in _LinkBox.__init__)."""
from pyvc.core import ClassDecl, FnDecl
from pyvc.engine import Engine, Target
from pyvc.sem_stmt import LoopSpec
from pyvc.types import *  # noqa: F401,F403
from pyvc.types import BOOL, INT, REAL, STR, TOpt, TRef, TSeq

LL_MOD = "onnx_ir._linked_list"
LEVEL = "proof"
TRUSTED = ["id(x) identifies the object x (values stored in a list are kept alive by their boxes)"]
NOT_DECIDED = ["termination of an iterator step once edits stop (tombstone chains are finite: argued, no VC)",
               "traversal.RecursiveGraphIterator (nested generators with callbacks): bounded stand-in only"]
BOUNDED = [{"name": "C11 random interleavings of iterator steps (several iterators, both directions) with every node-list mutator on a real Graph "
                    "against an executable reference of the statement (bounded)", "script": "bounded_iter.py", "args": []}]

SPEC = '''
def inU(L, b):
    return b.owning_list is L

def live(L, b):
    return b.owning_list is L and b is not L._root and b.value is not None

def tomb(L, b):
    return b.owning_list is L and b is not L._root and b.value is None

def lor(L, b):
    return b is L._root or live(L, b)

def D(L):
    return box(L._value_ids_to_boxes)

def LL(L):
    return (nonnull(L._root) and allocated(L._root) and L._root.owning_list is L and L._root.value is None and L._root.g_pos == 0 and
        nonnull(L._value_ids_to_boxes) and
        forall(lambda b=_LinkBox: implies(inU(L, b), nonnull(b.next) and nonnull(b.prev) and inU(L, b.next) and inU(L, b.prev) and (b is L._root or b.g_pos > 0))) and
        forall(lambda b=_LinkBox: implies(inU(L, b) and b.next is not L._root, b.next.g_pos > b.g_pos)) and
        forall(lambda b=_LinkBox: implies(inU(L, b) and lor(L, b), lor(L, b.next) and b.next.prev is b and lor(L, b.prev) and b.prev.next is b)) and
        forall(lambda b=_LinkBox: implies(inU(L, b) and lor(L, b), b.g_pos < b.g_lim and (b.next is L._root or b.g_lim <= b.next.g_pos))) and
        forall(lambda b=_LinkBox, e=_LinkBox: implies(inU(L, b) and lor(L, b) and tomb(L, e) and b.g_pos < e.g_pos and (b.next is L._root or e.g_pos < b.next.g_pos), e.g_pos >= b.g_lim)) and
        forall(lambda b=_LinkBox, x=_LinkBox: implies(inU(L, b) and lor(L, b) and live(L, x) and x.g_pos > b.g_pos, b.next is not L._root and x.g_pos >= b.next.g_pos)) and
        forall(lambda e=_LinkBox, x=_LinkBox: implies(tomb(L, e) and live(L, x) and x.g_pos > e.g_pos, e.next is not L._root and x.g_pos >= e.next.g_pos)) and
        forall(lambda a=_LinkBox, b=_LinkBox: implies(inU(L, a) and inU(L, b) and a is not b, a.g_pos != b.g_pos)) and
        forall(lambda v=ref: implies(v in D(L), nonnull(v) and nonnull(D(L)[v]) and allocated(D(L)[v]) and live(L, D(L)[v]) and D(L)[v].value is v)) and
        forall(lambda b=_LinkBox: implies(live(L, b), b.value in D(L) and D(L)[b.value] is b)) and
        L._length == len(D(L)))

def R(L):
    return (forall(lambda b=_LinkBox: implies(old(allocated(b) and inU(L, b)), inU(L, b) and b.g_pos == old(b.g_pos))) and
            forall(lambda b=_LinkBox: implies(old(allocated(b) and tomb(L, b)), tomb(L, b) and b.next is old(b.next) and b.prev is old(b.prev))) and
            L._root is old(L._root))

def others_untouched(L):
    return forall(lambda b=_LinkBox: implies(old(allocated(b)) and b.owning_list is not L,
                  b.next is old(b.next) and b.prev is old(b.prev) and b.value is old(b.value) and b.g_pos == old(b.g_pos) and b.g_lim == old(b.g_lim)))
'''

BOXF = ["_LinkBox.next", "_LinkBox.prev", "_LinkBox.value", "_LinkBox.owning_list", "_LinkBox.g_pos", "_LinkBox.g_lim"]


def build(eng, tier):
    eng.declare_class_from_source(LL_MOD, "_LinkBox", fields={
        "prev": TRef("_LinkBox"), "next": TRef("_LinkBox"), "value": TRef(None), "owning_list": TRef("DoublyLinkedSet"),
        "g_pos": REAL, "g_lim": REAL})
    DICT = eng.DICT(TRef(None), TRef("_LinkBox"))
    eng.declare_class_from_source(LL_MOD, "DoublyLinkedSet", fields={
        "_root": TRef("_LinkBox"), "_length": INT, "_value_ids_to_boxes": DICT})
    eng.spec_fn(SPEC)
    LIST_F = ["DoublyLinkedSet._length", "%s.$v" % DICT.cls]
    unchanged = "unchanged(%s)" % ", ".join(repr(f) for f in BOXF + LIST_F)

    REMOVE_ENS = ["LL(self)", "R(self)", "others_untouched(self)", "old(value in D(self))", "value not in D(self)",
                  "self._length == old(self._length) - 1",
                  "forall(lambda v=ref: implies(v is not value, (v in D(self)) == old(v in D(self)) and implies(v in D(self), D(self)[v] is old(D(self)[v]))))",
                  "forall(lambda b=_LinkBox: implies(old(allocated(b)) and old(b.value) is not value, b.value is old(b.value)))",
                  "forall(lambda b=_LinkBox: implies(old(allocated(b)), b.g_lim == old(b.g_lim) and b.owning_list is old(b.owning_list)))",
                  "unchanged('DoublyLinkedSet._root', 'DoublyLinkedSet._value_ids_to_boxes', '$.alloc')"]
    REMOVE_RAISES = {"ValueError": [unchanged, "old(value not in D(self))"]}
    eng.add_target(Target("DoublyLinkedSet.remove", mod=LL_MOD, qual="DoublyLinkedSet.remove", self_cls="DoublyLinkedSet",
        params=dict(value=TRef(None)), requires=["LL(self)"], ensures=REMOVE_ENS, raises=REMOVE_RAISES))
    # callers use remove through its contract (modular)
    eng.functions[f"{LL_MOD}.DoublyLinkedSet.remove"] = FnDecl(
        f"{LL_MOD}.DoublyLinkedSet.remove", "contract", LL_MOD, "DoublyLinkedSet.remove",
        requires=["LL(self)"], ensures=REMOVE_ENS, raises=REMOVE_RAISES, modifies=BOXF + LIST_F)

    eng.add_target(Target("DoublyLinkedSet._insert_one_after", mod=LL_MOD, qual="DoublyLinkedSet._insert_one_after",
        self_cls="DoublyLinkedSet", params=dict(box=TRef("_LinkBox"), new_value=TRef(None)),
        requires=["LL(self)", "nonnull(box)", "implies(box.owning_list is self, lor(self, box))"],
        ghost=[("store:new_box", "after",
                "new_box.g_pos = (box.g_pos + box.g_lim) / 2\nnew_box.g_lim = box.g_lim\nbox.g_lim = new_box.g_pos")],
        ensures=[# hints (proved first, then available as lemmas): tombstones before the new box lie before `box`
                 "implies(result is not box, forall(lambda e=_LinkBox: implies(tomb(self, e) and e.g_pos < result.g_pos, e.g_pos < box.g_pos)))",
                 "LL(self)", "R(self)", "others_untouched(self)", "nonnull(result) and (result is box or lor(self, result))",
                 "new_value in D(self) or result is box", "implies(new_value in D(self) and box.owning_list is self, D(self)[new_value] is result)",
                 "implies(old(box.value) is not new_value, result.value is new_value and result.prev is box and result.g_pos > box.g_pos)",
                 "forall(lambda v=ref: implies(v is not new_value, (v in D(self)) == old(v in D(self))))",
                 "self._length == old(self._length) + ite(old(new_value in D(self)) or old(box.value) is new_value, 0, 1)"],
        raises={"TypeError": [unchanged, "new_value is None"],
                "ValueError": [unchanged, "box.owning_list is not self"]}))

    INS_REQ = ["LL(self)", "nonnull(box)", "implies(box.owning_list is self, lor(self, box))"]
    INS_ENS = ["LL(self)", "R(self)", "others_untouched(self)", "nonnull(result) and (result is box or lor(self, result))",
               "implies(old(box.value) is not new_value, new_value in D(self) and D(self)[new_value] is result and result.prev is box)",
               "forall(lambda v=ref: implies(v is not new_value, (v in D(self)) == old(v in D(self))))",
               "implies(box.owning_list is self, new_value in D(self))",
               "implies(result is box, %s)" % unchanged,
               "result is box or fresh(result)",
               "unchanged('DoublyLinkedSet._root', 'DoublyLinkedSet._value_ids_to_boxes')"]
    INS_RAISES = {"TypeError": [unchanged, "new_value is None"], "ValueError": [unchanged, "box.owning_list is not self"]}
    eng.functions[f"{LL_MOD}.DoublyLinkedSet._insert_one_after"] = FnDecl(
        f"{LL_MOD}.DoublyLinkedSet._insert_one_after", "contract", LL_MOD, "DoublyLinkedSet._insert_one_after",
        requires=INS_REQ, ensures=INS_ENS, raises=INS_RAISES, ret=TRef("_LinkBox"), modifies=BOXF + LIST_F + ["$alloc"])
    # re-state the target with exactly the clauses its callers rely on (checked against the body above as well)
    t_ins = [t for t in eng.targets if t.name == "DoublyLinkedSet._insert_one_after"][0]
    t_ins.ensures += [e for e in INS_ENS if e not in t_ins.ensures]

    SEQ = TSeq(TRef(None))
    MANY_INV = ["LL(self)", "R(self)", "others_untouched(self)", "nonnull(insertion_point)",
                "insertion_point is box or lor(self, insertion_point)",
                "implies(insertion_point is box, %s)" % unchanged,
                "unchanged('DoublyLinkedSet._root', 'DoublyLinkedSet._value_ids_to_boxes')"]
    eng.add_target(Target("DoublyLinkedSet._insert_many_after", mod=LL_MOD, qual="DoublyLinkedSet._insert_many_after",
        self_cls="DoublyLinkedSet", params=dict(box=TRef("_LinkBox"), new_values=SEQ),
        requires=INS_REQ, ensures=["LL(self)", "R(self)", "others_untouched(self)"],
        raises={"TypeError": ["LL(self)", "R(self)", "others_untouched(self)"], "ValueError": ["LL(self)", "R(self)", "others_untouched(self)"]},
        loops={0: LoopSpec(invariant=MANY_INV, modifies=BOXF + LIST_F + ["$alloc"])}))
    MANY_ENS = ["LL(self)", "R(self)", "others_untouched(self)", "unchanged('DoublyLinkedSet._root', 'DoublyLinkedSet._value_ids_to_boxes')"]
    eng.functions[f"{LL_MOD}.DoublyLinkedSet._insert_many_after"] = FnDecl(
        f"{LL_MOD}.DoublyLinkedSet._insert_many_after", "contract", LL_MOD, "DoublyLinkedSet._insert_many_after",
        requires=INS_REQ, ensures=MANY_ENS, raises={"TypeError": MANY_ENS, "ValueError": MANY_ENS},
        modifies=BOXF + LIST_F + ["$alloc"])

    eng.add_target(Target("DoublyLinkedSet.append", mod=LL_MOD, qual="DoublyLinkedSet.append", self_cls="DoublyLinkedSet",
        params=dict(value=TRef(None)), requires=["LL(self)"],
        ensures=["LL(self)", "R(self)", "others_untouched(self)", "value in D(self)",
                 "forall(lambda v=ref: implies(v is not value, (v in D(self)) == old(v in D(self))))"],
        raises={"TypeError": [unchanged, "value is None"]}))
    APP_ENS = ["LL(self)", "R(self)", "others_untouched(self)", "unchanged('DoublyLinkedSet._root', 'DoublyLinkedSet._value_ids_to_boxes')"]
    eng.functions[f"{LL_MOD}.DoublyLinkedSet.append"] = FnDecl(
        f"{LL_MOD}.DoublyLinkedSet.append", "contract", LL_MOD, "DoublyLinkedSet.append",
        requires=["LL(self)"], ensures=APP_ENS + ["value in D(self)"], raises={"TypeError": [unchanged, "value is None"]},
        modifies=BOXF + LIST_F + ["$alloc"])
    [t for t in eng.targets if t.name == "DoublyLinkedSet.append"][0].ensures += [APP_ENS[3]]

    eng.add_target(Target("DoublyLinkedSet.extend", mod=LL_MOD, qual="DoublyLinkedSet.extend", self_cls="DoublyLinkedSet",
        params=dict(values=SEQ), requires=["LL(self)"],
        ensures=["LL(self)", "R(self)", "others_untouched(self)"],
        raises={"TypeError": ["LL(self)", "R(self)", "others_untouched(self)"]},
        loops={0: LoopSpec(invariant=APP_ENS, modifies=BOXF + LIST_F + ["$alloc"])}))

    for nm in ("insert_after", "insert_before"):
        eng.add_target(Target(f"DoublyLinkedSet.{nm}", mod=LL_MOD, qual=f"DoublyLinkedSet.{nm}", self_cls="DoublyLinkedSet",
            params=dict(value=TRef(None), new_values=SEQ), requires=["LL(self)"],
            ensures=["LL(self)", "R(self)", "others_untouched(self)"],
            raises={"TypeError": ["LL(self)", "R(self)", "others_untouched(self)"],
                    "ValueError": ["LL(self)", "R(self)", "others_untouched(self)"]}))

    eng.add_target(Target("DoublyLinkedSet.__len__", mod=LL_MOD, qual="DoublyLinkedSet.__len__", self_cls="DoublyLinkedSet",
        requires=["LL(self)"], ensures=["result == len(D(self))", unchanged]))

    # ---- iterators: a generator's only state is its cursor `box`; `yield` is an interference point -------------------
    # rely (what any code running between two steps may do, as guaranteed by R(self) of every mutator above)
    RELY = ["LL(self)", "R(self)"]
    CURSOR = ["LL(self)", "nonnull(box)", "allocated(box)", "inU(self, box)", "g_last >= 0",
              "box is self._root or box.g_pos > g_last",
              # nothing live between the last yielded position and the cursor
              "forall(lambda x=_LinkBox: implies(live(self, x) and x.g_pos > g_last, box is not self._root and x.g_pos >= box.g_pos))"]
    eng.add_target(Target("DoublyLinkedSet.__iter__", mod=LL_MOD, qual="DoublyLinkedSet.__iter__", self_cls="DoublyLinkedSet",
        requires=["LL(self)"], ghost_init="g_last = self._root.g_pos",
        yield_spec=dict(
            ensures=["yielded is not None", "live(self, box) and yielded is box.value",      # a member, now
                     "box.g_pos > g_last",                                                   # strictly forward: at most once
                     # ... and the first live node after the previous yield (none is skipped)
                     "forall(lambda x=_LinkBox: implies(live(self, x) and x.g_pos > g_last, x.g_pos >= box.g_pos))"],
            ghost="g_last = box.g_pos", rely=RELY, modifies=BOXF + LIST_F + ["$alloc"]),
        loops={0: LoopSpec(invariant=CURSOR, modifies=BOXF + LIST_F + ["$alloc"])},
        # exhaustion: when the generator returns nothing live lies beyond the last yielded position
        ensures=["forall(lambda x=_LinkBox: implies(live(self, x), x.g_pos <= g_last))"],
        dead=["raise RuntimeError"]))

    eng.functions[f"{LL_MOD}.DoublyLinkedSet.extend"] = FnDecl(
        f"{LL_MOD}.DoublyLinkedSet.extend", "contract", LL_MOD, "DoublyLinkedSet.extend",
        requires=["LL(self)"], ensures=["LL(self)", "R(self)", "others_untouched(self)"],
        raises={"TypeError": ["LL(self)", "R(self)", "others_untouched(self)"]}, modifies=BOXF + LIST_F + ["$alloc"])
    eng.add_target(Target("DoublyLinkedSet.__init__", mod=LL_MOD, qual="DoublyLinkedSet.__init__", self_cls="DoublyLinkedSet",
        params=dict(values=TSeq(TRef(None))),
        # a list under construction: no box refers to it yet
        requires=["forall(lambda b=_LinkBox: b.owning_list is not self)"],
        ghost=[("store:root_", "after", "root_.g_pos = 0\nroot_.g_lim = 1")],
        ensures=["LL(self)", "others_untouched(self)"],
        raises={"TypeError": ["LL(self)", "others_untouched(self)"]}))

    encapsulation_obligations(eng)


def encapsulation_obligations(eng):
    """The list-level contracts carry the statement for Graph / Function only if (E1) a graph keeps ONE node container for
    its whole life - an iterator holds a reference to that container, so replacing it (even by an equal one) detaches
    every live iterator - and (E2) nobody outside _linked_list.py writes the list's private fields.  Both are frame
    obligations decided syntactically over every module of the package on every run."""
    import ast
    import os
    from pyvc import extract
    root = os.path.join(extract.SRC, "onnx_ir")
    private = {"owning_list", "_root", "_value_ids_to_boxes"}     # names specific to the list (prev/next/_length are too generic to key on)
    e1, e2, files = [], [], 0
    for dirpath, _dirs, fnames in os.walk(root):
        for fn in fnames:
            if not fn.endswith(".py") or fn.endswith("_test.py"):
                continue
            path = os.path.join(dirpath, fn)
            rel = os.path.relpath(path, extract.SRC)
            tree = ast.parse(open(path).read())
            files += 1
            for cls in [n for n in ast.walk(tree) if isinstance(n, ast.ClassDef)] + [tree]:
                for fnode in (cls.body if isinstance(cls, ast.ClassDef) else [n for n in tree.body if isinstance(n, (ast.FunctionDef, ast.AsyncFunctionDef))]):
                    if not isinstance(fnode, (ast.FunctionDef, ast.AsyncFunctionDef)):
                        continue
                    owner = cls.name if isinstance(cls, ast.ClassDef) else "<module>"
                    for n in ast.walk(fnode):
                        targets = []
                        if isinstance(n, ast.Assign):
                            targets = n.targets
                        elif isinstance(n, (ast.AugAssign, ast.AnnAssign)):
                            targets = [n.target]
                        elif isinstance(n, ast.Delete):
                            targets = n.targets
                        elif isinstance(n, ast.Call) and isinstance(n.func, ast.Name) and n.func.id in ("setattr", "delattr") and len(n.args) >= 2 \
                                and isinstance(n.args[1], ast.Constant):
                            targets = [ast.Attribute(value=n.args[0], attr=n.args[1].value, ctx=ast.Store())]
                        for t in targets:
                            for a in ast.walk(t):
                                if not isinstance(a, ast.Attribute):
                                    continue
                                where = f"{rel}:{n.lineno} in {owner}.{fnode.name}"
                                if a.attr == "_nodes" and not (fnode.name == "__init__" and isinstance(a.value, ast.Name) and a.value.id == "self"):
                                    e1.append(where)
                                if a.attr in private and not rel.endswith("_linked_list.py"):
                                    e2.append(f"{where}: .{a.attr}")
    eng.add_static("frame/Graph._nodes-is-assigned-only-by-the-constructor", not e1,
                   "stores to `._nodes` outside a constructor's `self._nodes = ...`: " + "; ".join(e1) if e1 else f"{files} modules scanned",
                   backend="frame-analysis (syntactic, whole package)")
    eng.add_static("frame/linked-list-private-fields-written-only-in-_linked_list.py", not e2,
                   "stores to private list fields outside _linked_list.py: " + "; ".join(e2) if e2 else f"{files} modules scanned",
                   backend="frame-analysis (syntactic, whole package)")
