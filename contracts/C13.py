"""C13 — clones are independent: freshness postconditions on Cloner._clone_or_get_value (every object an edit of the
clone can write through - the Value, its Shape, its type object, its metadata containers - is new; tensors may be
shared); clone_node/clone_graph/Model.clone/functionalize and edit-independence: bounded stand-in."""
import z3

from pyvc.core import ClassDecl, Exc, FnDecl
from pyvc.engine import Engine, Target
from pyvc.types import *  # noqa: F401,F403
from pyvc.types import BOOL, INT, NULL, STR, TOpt, TRef, TSeq, VNone, VRef
from . import schema

CL = "onnx_ir._cloner"
LEVEL = "proof"
TRUSTED = ["Shape.copy() returns a new Shape; copy.deepcopy(x) returns None for None and otherwise a new object of x's class "
           "(library contracts, trusted; exercised natively by the bounded stand-in)"]
NOT_DECIDED = ["clone_node / clone_graph / Graph.clone / Model.clone / functionalize: bounded stand-in (clone, edit one copy with every "
               "setter of the statement, deep-snapshot the other)"]
BOUNDED = [{"name": "C13 clone then edit either copy: the other copy's deep snapshot is unchanged; clone serializes like the original (bounded)",
            "script": "bounded_clone.py", "args": []}]


def build(eng, tier):
    schema.core_ir(eng)
    VMAP = eng.DICT(TRef("Value"), TRef("Value"))
    eng.declare_class_from_source(CL, "Cloner", fields={"_value_map": VMAP, "_allow_outer_scope_values": BOOL})

    def shape_copy(e, p, args, kwargs, node):
        new = e.new_object(p, "Shape")
        return [(p, new)]
    eng.method_models = dict(eng.method_models)
    eng.method_models[("Shape", "copy")] = FnDecl("onnx_ir._core.Shape.copy", "builtin", impl=shape_copy)

    def deepcopy(e, p, args, kwargs, node):
        v = args[0]
        if isinstance(v, VNone):
            return [(p, v)]
        pt, pf = e.fork(p, v.z == NULL, f"deepcopy L{node.lineno}")
        out = []
        if pt is not None:
            out.append((pt, VRef(NULL, v.cls)))
        if pf is not None:
            out.append((pf, e.new_object(pf, v.cls)))
        return out
    eng.lib_models["copy.deepcopy"] = deepcopy
    # metadata accessors of a Value: only their effect on *which objects exist* matters here
    MS = FnDecl("meta", "opaque")
    eng.lenient = True
    # clone_meta copies entries between two MetadataStore objects (unmodelled): no effect on the fields of this contract
    eng.functions[f"{CL}.Cloner.clone_meta"] = FnDecl(f"{CL}.Cloner.clone_meta", "opaque", raises={"AnyException": []})
    eng.add_target(Target("Cloner._clone_or_get_value", mod=CL, qual="Cloner._clone_or_get_value", self_cls="Cloner",
        params=dict(value=TRef("Value"), deep_copy=BOOL),
        requires=["nonnull(value)", "nonnull(self._value_map)",
                  "forall(lambda v=Value: implies(v in box(self._value_map), nonnull(box(self._value_map)[v])))"],
        ensures=["nonnull(result)",
                 "implies(old(value in box(self._value_map)), result is old(box(self._value_map)[value]))",
                 "implies(not old(value in box(self._value_map)), fresh(result) and "
                 "(result._shape is None or fresh(result._shape)) and (result._type is None or fresh(result._type)) and "
                 "iff(result._shape is None, old(value._shape) is None) and iff(result._type is None, old(value._type) is None) and "
                 "result._const_value is old(value._const_value) and result._name == old(value._name) and "
                 "(result._metadata_props is None or fresh(result._metadata_props)) and (result._metadata is None or fresh(result._metadata)) and "
                 "result._producer is None and result._graph is None and "
                 "value in box(self._value_map) and box(self._value_map)[value] is result)",
                 # nothing of the original value is written
                 "value._shape is old(value._shape) and value._type is old(value._type) and value._name == old(value._name)"],
        raises_default=[], assert_mode="raise"))

