"""Functional contracts on leaf (de)serializers of serde.py, shared by C02 and C03.

deserialize_value_info_proto(proto, value): afterwards the value's Shape and Type are the objects that the two type-proto
deserializers have just built from THIS proto - never an object that existed before the call (a value must not go on
sharing the shape/type object of its tensor or of another value: the declared type, including denotations, wins, and later
edits of one object must not show through another; C02 `exactly the declared type`, C03 `to_proto leaves the IR unchanged /
isomorphic round trip`)."""
from pyvc.core import ClassDecl, FnDecl
from pyvc.engine import Target
from pyvc.types import STR, TOpt, TRef
from . import schema

SER = "onnx_ir.serde"
TRUSTED = ["deserialize_value_info_proto: deserialize_type_proto_for_shape / _for_type return None or a newly built object and may "
           "raise (assumed contract of the two callees; they are pure constructors over the proto); metadata/doc-string helpers do not "
           "touch Value._shape/_type (lenient frame)"]


def add_value_info_target(eng):
    schema.core_ir(eng)
    for n in ("TypeProtoLike",):
        schema.opaque_class(eng, n)
    eng.add_class(ClassDecl("ValueInfoLike2", fields={"type": TRef("TypeProtoLike"), "name": STR}))
    eng.functions[f"{SER}.deserialize_type_proto_for_shape"] = FnDecl(f"{SER}.deserialize_type_proto_for_shape", "contract", SER,
        "deserialize_type_proto_for_shape", requires=[], ensures=["result is None or fresh(result)"], ret=TRef("Shape"),
        raises={"AnyException": []}, modifies=["$alloc"])
    eng.functions[f"{SER}.deserialize_type_proto_for_type"] = FnDecl(f"{SER}.deserialize_type_proto_for_type", "contract", SER,
        "deserialize_type_proto_for_type", requires=[], ensures=["result is None or fresh(result)"], ret=TRef("TypeObj"),
        raises={"AnyException": []}, modifies=["$alloc"])

    STRMAP = eng.DICT(STR, STR)
    eng.functions[f"{SER}.deserialize_metadata_props"] = FnDecl(f"{SER}.deserialize_metadata_props", "contract", SER,
        "deserialize_metadata_props", requires=[], ensures=["result is None or fresh(result)"], ret=STRMAP,
        raises={"AnyException": []}, modifies=["$alloc", f"{STRMAP.cls}.$v"])

    def setup(e, p, env):
        e.lenient = True
        for prop_ in ("shape", "type"):
            key = f"onnx_ir._core.Value.{prop_}#setter"
            e.functions[key] = FnDecl(key, "inline", "onnx_ir._core", f"Value.{prop_}", "setter")
    eng.add_target(Target("deserialize_value_info_proto", mod=SER, qual="deserialize_value_info_proto", setup=setup,
        params=dict(proto=TRef("ValueInfoLike2"), value=TRef("Value")),
        requires=["nonnull(proto)", "nonnull(value)"],
        ensures=["result is value",
                 "value._shape is None or fresh(value._shape)",
                 "value._type is None or fresh(value._type)"],
        raises_default=[], modifies=None, assert_mode="raise",
        dead=["value = _core.Value(name=proto.name)"]))


def add_tensor_shape_target(eng):
    """deserialize_tensor_shape(proto): the Shape returned is a new object on every call (a deserialized shape is never shared
    between values: frozen or not, `value.shape is other.shape` would make a later replacement of one value's dimensions
    denotations or a merge visible through the other, and the serialized protos of two round trips would alias)."""
    schema.core_ir(eng)
    schema.opaque_class(eng, "ShapeProtoLike")

    def new_shape(e, p, args, kwargs, node):
        return [(p, e.new_object(p, "Shape"))]

    def setup(e, p, env):
        from pyvc.types import VFunc
        e.lenient = True
        e.lib_models["serde.Shape"] = new_shape
        # the per-dimension helper is a pure function of one DimensionProto: opaque here
        e.functions[f"{SER}.deserialize_dimension"] = FnDecl(f"{SER}.deserialize_dimension", "opaque", raises={"AnyException": []})
        e.global_overrides[("onnx_ir._core", "Shape")] = VFunc("lib", "serde.Shape", "Shape")
    eng.add_target(Target("deserialize_tensor_shape", mod=SER, qual="deserialize_tensor_shape", setup=setup,
        params=dict(proto=TRef("ShapeProtoLike")), requires=["nonnull(proto)"],
        ensures=["fresh(result)"], raises_default=[], modifies=None, assert_mode="raise", ret=TRef("Shape")))
