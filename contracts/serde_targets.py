"""Functional contracts on leaf (de)serializers of serde.py, shared by C02 and C03.

deserialize_value_info_proto(proto, value): afterwards the value's Shape and Type are the objects that the two type-proto
deserializers have just built from THIS proto - never an object that existed before the call (a value must not go on
sharing the shape/type object of its tensor or of another value: the declared type, including denotations, wins, and later
edits of one object must not show through another; C02 `exactly the declared type`, C03 `to_proto leaves the IR unchanged /
isomorphic round trip`)."""
from pyvc.core import ClassDecl, FnDecl
from pyvc.engine import Target
from pyvc.types import INT as INT_, STR, TOpt, TRef
from . import schema

SER = "onnx_ir.serde"
TRUSTED = ["deserialize_value_info_proto: deserialize_type_proto_for_shape / _for_type return None or a newly built object and may "
           "raise (assumed contract of the two callees; they are pure constructors over the proto); metadata/doc-string helpers do not "
           "touch Value._shape/_type (lenient frame)",
           "serialize_graph_into targets: graph_proto.initializer is the sequence of slots handed out by add(); serialize_tensor_into(slot, "
           "from_=t) fills the slot from t with t's current name (assumed contract of the leaf serializer, whose field coverage is C02's "
           "other obligation) and may raise; from_.initializers.values() is the sequence of the dictionary's values, all non-null; the "
           "other serializers called in the function do not touch the initializer field or tensor names (lenient frame); "
           "_maybe_add_quantization_annotation, serialize_value_into, _should_create_value_info_for_value, serialize_node_into are "
           "opaque (arbitrary result, may raise) in the [initializers] target; in the [inputs/outputs] target graph_proto.input / "
           ".output / .value_info / .node are pairwise distinct sequences of slots handed out by add(), serialize_value_into(slot, v) "
           "and serialize_node_into(slot, from_=n) fill the slot from v / n (assumed contracts of the two serializers) and may raise, "
           "and iterating the graph yields the sequence of its nodes (ghost g_nodes), all non-null"]


def add_value_info_target(eng):
    schema.core_ir(eng)
    for n in ("TypeProtoLike",):
        schema.opaque_class(eng, n)
    eng.add_class(ClassDecl("ValueInfoLike2", fields={"type": TRef("TypeProtoLike"), "name": STR}))
    eng.functions[f"{SER}.deserialize_type_proto_for_shape"] = FnDecl(f"{SER}.deserialize_type_proto_for_shape", "contract", SER,
        "deserialize_type_proto_for_shape", requires=[], ensures=["result is None or fresh(result)"], ret=TRef("Shape"),
        raises={"AnyException": []}, modifies=["$alloc"])
    eng.functions[f"{SER}.deserialize_type_proto_for_type"] = FnDecl(f"{SER}.deserialize_type_proto_for_type", "contract", SER,
        "deserialize_type_proto_for_type", requires=[], ensures=["result is None or fresh(result)"], ret=TRef("TypeObj"),
        raises={"AnyException": []}, modifies=["$alloc"])

    STRMAP = eng.DICT(STR, STR)
    eng.functions[f"{SER}.deserialize_metadata_props"] = FnDecl(f"{SER}.deserialize_metadata_props", "contract", SER,
        "deserialize_metadata_props", requires=[], ensures=["result is None or fresh(result)"], ret=STRMAP,
        raises={"AnyException": []}, modifies=["$alloc", f"{STRMAP.cls}.$v"])

    def setup(e, p, env):
        e.lenient = True
        for prop_ in ("shape", "type"):
            key = f"onnx_ir._core.Value.{prop_}#setter"
            e.functions[key] = FnDecl(key, "inline", "onnx_ir._core", f"Value.{prop_}", "setter")
    eng.add_target(Target("deserialize_value_info_proto", mod=SER, qual="deserialize_value_info_proto", setup=setup,
        params=dict(proto=TRef("ValueInfoLike2"), value=TRef("Value")),
        requires=["nonnull(proto)", "nonnull(value)"],
        ensures=["result is value",
                 "value._shape is None or fresh(value._shape)",
                 "value._type is None or fresh(value._type)"],
        raises_default=[], modifies=None, assert_mode="raise",
        dead=["value = _core.Value(name=proto.name)"]))


def add_tensor_shape_target(eng):
    """deserialize_tensor_shape(proto): the Shape returned is a new object on every call (a deserialized shape is never shared
    between values: frozen or not, `value.shape is other.shape` would make a later replacement of one value's dimensions
    denotations or a merge visible through the other, and the serialized protos of two round trips would alias)."""
    schema.core_ir(eng)
    schema.opaque_class(eng, "ShapeProtoLike")

    def new_shape(e, p, args, kwargs, node):
        return [(p, e.new_object(p, "Shape"))]

    def setup(e, p, env):
        from pyvc.types import VFunc
        e.lenient = True
        e.lib_models["serde.Shape"] = new_shape
        # the per-dimension helper is a pure function of one DimensionProto: opaque here
        e.functions[f"{SER}.deserialize_dimension"] = FnDecl(f"{SER}.deserialize_dimension", "opaque", raises={"AnyException": []})
        e.global_overrides[("onnx_ir._core", "Shape")] = VFunc("lib", "serde.Shape", "Shape")
    eng.add_target(Target("deserialize_tensor_shape", mod=SER, qual="deserialize_tensor_shape", setup=setup,
        params=dict(proto=TRef("ShapeProtoLike")), requires=["nonnull(proto)"],
        ensures=["fresh(result)"], raises_default=[], modifies=None, assert_mode="raise", ret=TRef("Shape")))


def add_graph_annotation_target(eng):
    """serialize_graph_into: EVERY initializer value and EVERY graph output is handed to _maybe_add_quantization_annotation, on
    every path through the body of its loop (C02: `No ... attribute of any kind ... is lost`: the input loop skips inputs that are
    also initializers `to avoid double adding`, so the initializer loop is the only place their quantization annotation is written).
    Control-flow obligation on the real function in lenient mode: at the end of each body path of the two loops the loop element
    is the last value annotated, or the path is infeasible.  An element handed to a repository function this contract does not
    know makes the target undecided (the annotation may have moved there), not failed."""
    import z3
    from pyvc.core import Exc, Unsupported
    from pyvc.sem_stmt import LoopSpec
    from pyvc.types import VBool, VFunc, VNone, VOpaque
    eng.add_class(ClassDecl("GraphProtoLike", fields={"name": STR, "doc_string": STR}))
    eng.add_class(ClassDecl("GraphLike"))
    KNOWN = ("serialize_value_into", "_should_create_value_info_for_value", "serialize_tensor_into", "serialize_node_into",
             "_serialize_metadata_props_into")

    def annotate(e, p, args, kwargs, node):
        p.ghost["$annotated"] = args[1] if len(args) > 1 else kwargs.get("value")
        return [(p, VNone()), (p.copy(), Exc("AnyException", f"L{node.lineno}:_maybe_add_quantization_annotation"))]

    def known(name):
        def call(e, p, args, kwargs, node):
            return [(p, VOpaque("result of " + name)), (p.copy(), Exc("AnyException", f"L{node.lineno}:{name}"))]
        return VFunc("py", call, name)

    def body_end(what):
        def check(e, q, s):
            elem = q.frame.lookup(s.target.id) if hasattr(s.target, "id") else None
            if elem is None:
                raise Unsupported(f"loop at L{s.lineno}: the loop target is not a plain name")
            done = q.ghost.get("$annotated") is elem
            if not done and q.ghost.get("$escaped") is elem:
                raise Unsupported(f"loop at L{s.lineno}: the element is handed to {q.ghost.get('$escaped_to')}, which this contract does not know")
            e.oblige(q, z3.BoolVal(done), "annotated", f"L{s.lineno}:every {what} is handed to _maybe_add_quantization_annotation")
        return check

    def setup(e, p, env):
        e.lenient = True
        e.global_overrides = dict(e.global_overrides)
        e.global_overrides[(SER, "_maybe_add_quantization_annotation")] = VFunc("py", annotate, "_maybe_add_quantization_annotation")
        for name in KNOWN:
            e.global_overrides[(SER, name)] = known(name)
        orig = e.call_opaque

        def call_opaque(p2, f, args, kwargs, node):
            if not f.what.startswith(("logger", "logging", "warnings")):
                for a in list(args) + list(kwargs.values()):
                    if isinstance(a, VOpaque) and a.what == "element of unmodelled iterable":
                        p2.ghost["$escaped"], p2.ghost["$escaped_to"] = a, f.what
            return orig(p2, f, args, kwargs, node)
        e.call_opaque = call_opaque
    eng.add_target(Target("serialize_graph_into[annotations]", mod=SER, qual="serialize_graph_into", setup=setup,
        params=dict(graph_proto=TRef("GraphProtoLike"), from_=TRef("GraphLike"), model_ir_version=TOpt(INT_)),
        requires=["nonnull(graph_proto)", "nonnull(from_)"], ensures=[], raises_default=[], modifies=None, assert_mode="raise",
        # loops of serialize_graph_into, in source order: inputs, the set comprehension over the inputs, initializers, nodes, node outputs, outputs (ordinals re-anchored on
        # the recorded headers, contracts/loop_headers.json, so that a renamed loop variable does not detach the contract)
        loops={2: LoopSpec(modifies=None, body_end=body_end("initializer")),
               5: LoopSpec(modifies=None, body_end=body_end("graph output"))}))


def add_graph_initializer_target(eng):
    """serialize_graph_into, initializer loop, as a functional contract (C02 `No ... tensor payload or storage field ... is lost`,
    C03 `initializer and constant bytes`, `aligning each initializer tensor's own name with the name of its value`):

      the TensorProtos added to graph_proto.initializer are, IN ORDER, one per initializer value that has a const_value - none for
      the others -, each filled by serialize_tensor_into from exactly that value's tensor, at a moment when the tensor's name equals
      the value's name.

    graph_proto.initializer is modelled as the sequence of slots handed out by add(); serialize_tensor_into(slot, from_=t) records
    (t, t.name) in the slot.  The correspondence is carried through the loop by two ghost witnesses: g_idx (for every slot the
    index of its initializer, strictly increasing) and g_pos (for every visited initializer its slot, or -1 when it has no tensor).
    from_.initializers.values() is the sequence of the dictionary's values (assumed non-null Value objects)."""
    import z3
    from pyvc.core import Exc
    from pyvc.sem_stmt import LoopSpec
    from pyvc.types import BOOL, NULL, TSeq, VFunc, VNone, VOpaque, VSeq, fresh_name
    schema.core_ir(eng)
    V = TRef("Value")
    eng.add_class(ClassDecl("InitSlot", fields={"src": TRef("TensorLike"), "sname": TOpt(STR), "filled": BOOL}))
    eng.add_class(ClassDecl("InitField", fields={"slots": TSeq(TRef("InitSlot"))}))
    eng.add_class(ClassDecl("GraphProtoI", fields={"name": STR, "doc_string": STR, "initializer": TRef("InitField")}))
    eng.add_class(ClassDecl("SerInits", fields={"g_seq": TSeq(V)}))
    eng.add_class(ClassDecl("GraphLikeI", fields={"initializers": TRef("SerInits")}))

    G = "from_.initializers.g_seq"
    S = "graph_proto.initializer.slots"

    def m_values(e, p, args, kwargs, node):
        return [(p, e.read_field(p, args[0], "g_seq"))]

    def no_slot(e, q, s):
        # end of an iteration that filled no slot: the initializer has none
        e.run_ghost(q, "g_pos = ite(len(g_pos) == g_k, g_pos + IntSeq(-1), g_pos)")

    def m_add(e, p, args, kwargs, node):
        slot = e.new_object(p, "InitSlot")
        e.write_field(p, slot, "src", TRef("TensorLike").null() if hasattr(TRef("TensorLike"), "null") else e.read_field(p, slot, "src"))
        e.write_field(p, slot, "filled", __import__("pyvc.types", fromlist=["VBool"]).VBool(False))
        s = e.read_field(p, args[0], "slots")
        e.write_field(p, args[0], "slots", VSeq(s.len + 1, [z3.Store(a, s.len, c) for a, c in zip(s.arrs, slot.comps())], s.elem))
        return [(p, slot)]
    eng.method_models = dict(getattr(eng, "method_models", {}) or {})
    eng.method_models[("SerInits", "values")] = FnDecl("SerInits.values", "builtin", impl=m_values)
    eng.method_models[("InitField", "add")] = FnDecl("InitField.add", "builtin", impl=m_add)

    def ser_tensor(e, p, args, kwargs, node):
        from pyvc.types import VBool, VRef
        slot = args[0]
        t = kwargs.get("from_", args[1] if len(args) > 1 else None)
        if not (isinstance(slot, VRef) and slot.cls == "InitSlot"):
            return [(p, VOpaque("serialize_tensor_into")), (p.copy(), Exc("AnyException", f"L{node.lineno}:serialize_tensor_into"))]
        e.oblige(p, t.z != NULL, "call-pre", f"L{node.lineno}:serialize_tensor_into is given a tensor")
        q = p.copy()
        e.write_field(p, slot, "src", t)
        e.write_field(p, slot, "sname", e.read_field(p, t, "name"))
        e.write_field(p, slot, "filled", VBool(True))
        # ghost witnesses: the slot just filled belongs to the initializer of this iteration
        e.run_ghost(p, f"g_idx = g_idx + IntSeq(g_k)\ng_pos = g_pos + IntSeq(len({S}) - 1)")
        return [(p, VNone()), (q, Exc("AnyException", f"L{node.lineno}:serialize_tensor_into"))]

    def known(name):
        def call(e, p, args, kwargs, node):
            return [(p, VOpaque("result of " + name)), (p.copy(), Exc("AnyException", f"L{node.lineno}:{name}"))]
        return VFunc("py", call, name)

    def setup(e, p, env):
        e.lenient = True
        e.global_overrides = dict(e.global_overrides)
        e.global_overrides[(SER, "serialize_tensor_into")] = VFunc("py", ser_tensor, "serialize_tensor_into")
        for name in ("serialize_value_into", "_should_create_value_info_for_value", "serialize_node_into", "_serialize_metadata_props_into",
                     "_maybe_add_quantization_annotation"):
            e.global_overrides[(SER, name)] = known(name)
    eng.spec_fn('''
def ser_filtered(vals, slots, idx, pos, n):
    return (len(idx) == len(slots) and len(pos) == n and
            forall(lambda m=int: implies(0 <= m and m < len(slots), 0 <= idx[m] and idx[m] < n and nonnull(slots[m]) and allocated(slots[m]) and slots[m].filled and
                                         slots[m].src is vals[idx[m]]._const_value and slots[m].sname == vals[idx[m]]._name and pos[idx[m]] == m)) and
            forall(lambda m=int, k2=int: implies(0 <= m and m < k2 and k2 < len(slots), idx[m] < idx[k2] and slots[m] is not slots[k2])) and
            forall(lambda j=int: implies(0 <= j and j < n and vals[j]._const_value is None, pos[j] == -1)) and
            forall(lambda j=int: implies(0 <= j and j < n and vals[j]._const_value is not None,
                                         0 <= pos[j] and pos[j] < len(slots) and idx[pos[j]] == j)))
''')
    wf = ["nonnull(graph_proto) and nonnull(from_) and nonnull(from_.initializers) and nonnull(graph_proto.initializer)",
          f"forall(lambda j=int: implies(0 <= j and j < len({G}), nonnull({G}[j])))"]
    eng.add_target(Target("serialize_graph_into[initializers]", mod=SER, qual="serialize_graph_into", setup=setup,
        params=dict(graph_proto=TRef("GraphProtoI"), from_=TRef("GraphLikeI"), model_ir_version=TOpt(INT_)),
        requires=wf + [f"len({S}) == 0"],
        ghost_init=f"g_idx = IntSeq()\ng_pos = IntSeq()\ng_vals = {G}",
        loops={2: LoopSpec(invariant=wf + [f"seq_eq(g_vals, it) and seq_eq({G}, g_vals)",
                                           f"ser_filtered(g_vals, {S}, g_idx, g_pos, k)"],
                           modifies=["InitField.slots", "InitSlot.src", "InitSlot.sname", "InitSlot.filled", "TensorLike.name", "$alloc"],
                           body_end=no_slot)},
        ensures=[f"ser_filtered(g_vals, {S}, g_idx, g_pos, len(g_vals))"], raises_default=[], modifies=None, assert_mode="raise"))


def add_graph_io_target(eng):
    """serialize_graph_into, graph inputs and outputs (C02 / C03 `same ... connectivity`; C05 speaks of `the number and order of
    graph outputs and of non-initializer inputs`): graph_proto.input holds exactly one ValueInfoProto per graph input, in order,
    each filled by serialize_value_into from that input; the same for graph_proto.output and the graph outputs.  Everything the
    function does in between (initializers, nodes, value_info - which share serialize_value_into) leaves the two fields alone: the
    invariants are carried through all five loops.  The same for graph_proto.node and the nodes of the graph (C03 `same node
    order`): one NodeProto per node, in iteration order, each filled by serialize_node_into from that node (iterating from_ is
    modelled as iterating the ghost sequence g_nodes of its nodes)."""
    import z3
    from pyvc.core import Exc
    from pyvc.sem_stmt import LoopSpec
    from pyvc.types import BOOL, NULL, TSeq, VBool, VFunc, VNone, VOpaque, VRef, VSeq
    schema.core_ir(eng)
    V = TRef("Value")
    eng.add_class(ClassDecl("VSlot", fields={"src": V, "filled": BOOL}))
    eng.add_class(ClassDecl("VField", fields={"slots": TSeq(TRef("VSlot"))}))
    eng.add_class(ClassDecl("GraphProtoIO", fields={"name": STR, "doc_string": STR, "input": TRef("VField"), "output": TRef("VField"),
                                                    "value_info": TRef("VField")}))
    eng.add_class(ClassDecl("GraphLikeIO", fields={"inputs": TSeq(V), "outputs": TSeq(V), "g_nodes": TSeq(TRef("Node"))}))
    eng.add_class(ClassDecl("NSlot", fields={"nsrc": TRef("Node"), "nfilled": BOOL}))
    eng.add_class(ClassDecl("NField", fields={"nslots": TSeq(TRef("NSlot"))}))
    eng.classes["GraphProtoIO"].fields["node"] = TRef("NField")

    def m_nadd(e, p, args, kwargs, node):
        slot = e.new_object(p, "NSlot")
        e.write_field(p, slot, "nfilled", VBool(False))
        s = e.read_field(p, args[0], "nslots")
        e.write_field(p, args[0], "nslots", VSeq(s.len + 1, [z3.Store(a, s.len, c) for a, c in zip(s.arrs, slot.comps())], s.elem))
        return [(p, slot)]

    def ser_node(e, p, args, kwargs, node):
        slot = args[0]
        n = kwargs.get("from_", args[1] if len(args) > 1 else None)
        if not (isinstance(slot, VRef) and slot.cls == "NSlot") or not (isinstance(n, VRef) and n.cls == "Node"):
            return [(p, VOpaque("serialize_node_into")), (p.copy(), Exc("AnyException", f"L{node.lineno}:serialize_node_into"))]
        q = p.copy()
        e.write_field(p, slot, "nsrc", n)
        e.write_field(p, slot, "nfilled", VBool(True))
        e.run_ghost(p, "g_n = g_n + 1")          # ghost: number of nodes serialized so far
        return [(p, VNone()), (q, Exc("AnyException", f"L{node.lineno}:serialize_node_into"))]

    def m_add(e, p, args, kwargs, node):
        slot = e.new_object(p, "VSlot")
        e.write_field(p, slot, "filled", VBool(False))
        s = e.read_field(p, args[0], "slots")
        e.write_field(p, args[0], "slots", VSeq(s.len + 1, [z3.Store(a, s.len, c) for a, c in zip(s.arrs, slot.comps())], s.elem))
        return [(p, slot)]
    eng.method_models = dict(getattr(eng, "method_models", {}) or {})
    eng.method_models[("VField", "add")] = FnDecl("VField.add", "builtin", impl=m_add)
    eng.method_models[("NField", "add")] = FnDecl("NField.add", "builtin", impl=m_nadd)

    def ser_value(e, p, args, kwargs, node):
        slot = args[0]
        v = kwargs.get("from_", args[1] if len(args) > 1 else None)
        if not (isinstance(slot, VRef) and slot.cls == "VSlot") or not (isinstance(v, VRef) and v.cls == "Value"):
            return [(p, VOpaque("serialize_value_into")), (p.copy(), Exc("AnyException", f"L{node.lineno}:serialize_value_into"))]
        q = p.copy()
        e.write_field(p, slot, "src", v)
        e.write_field(p, slot, "filled", VBool(True))
        return [(p, VNone()), (q, Exc("AnyException", f"L{node.lineno}:serialize_value_into"))]

    def known(name):
        def call(e, p, args, kwargs, node):
            return [(p, VOpaque("result of " + name)), (p.copy(), Exc("AnyException", f"L{node.lineno}:{name}"))]
        return VFunc("py", call, name)

    def setup(e, p, env):
        e.lenient = True
        e.global_overrides = dict(e.global_overrides)
        e.global_overrides[(SER, "serialize_value_into")] = VFunc("py", ser_value, "serialize_value_into")
        e.global_overrides[(SER, "serialize_node_into")] = VFunc("py", ser_node, "serialize_node_into")
        for name in ("serialize_tensor_into", "_should_create_value_info_for_value", "_serialize_metadata_props_into",
                     "_maybe_add_quantization_annotation"):
            e.global_overrides[(SER, name)] = known(name)
        orig_iter = e.iter_extra

        def iter_extra(v, p2):
            if isinstance(v, VRef) and v.cls == "GraphLikeIO":
                return e.read_field(p2, v, "g_nodes")
            return orig_iter(v, p2)
        e.iter_extra = iter_extra
    eng.spec_fn('''
def n_prefix(slots, nodes, n):
    return (len(slots) == n and
            forall(lambda m=int: implies(0 <= m and m < n, nonnull(slots[m]) and allocated(slots[m]) and slots[m].nfilled and slots[m].nsrc is nodes[m])) and
            forall(lambda m=int, k2=int: implies(0 <= m and m < k2 and k2 < n, slots[m] is not slots[k2])))

def io_prefix(slots, vals, n):
    return (len(slots) == n and
            forall(lambda m=int: implies(0 <= m and m < n, nonnull(slots[m]) and allocated(slots[m]) and slots[m].filled and slots[m].src is vals[m])) and
            forall(lambda m=int, k2=int: implies(0 <= m and m < k2 and k2 < n, slots[m] is not slots[k2])))
''')
    IN, OUT = "graph_proto.input.slots", "graph_proto.output.slots"
    NS = "graph_proto.node.nslots"
    wf = ["nonnull(graph_proto) and nonnull(from_) and nonnull(graph_proto.input) and nonnull(graph_proto.output) and nonnull(graph_proto.value_info) "
          "and nonnull(graph_proto.node)",
          "forall(lambda j=int: implies(0 <= j and j < len(from_.g_nodes), nonnull(from_.g_nodes[j])))",
          "graph_proto.input is not graph_proto.output and graph_proto.input is not graph_proto.value_info and "
          "graph_proto.output is not graph_proto.value_info",
          "forall(lambda j=int: implies(0 <= j and j < len(from_.inputs), nonnull(from_.inputs[j])))",
          "forall(lambda j=int: implies(0 <= j and j < len(from_.outputs), nonnull(from_.outputs[j])))"]
    MOD = ["VField.slots", "VSlot.src", "VSlot.filled", "NField.nslots", "NSlot.nsrc", "NSlot.nfilled", "$alloc"]
    ins_done = f"io_prefix({IN}, from_.inputs, len(from_.inputs))"
    nodes_done = f"n_prefix({NS}, from_.g_nodes, len(from_.g_nodes))"
    mid = LoopSpec(invariant=wf + [ins_done, f"len({OUT}) == 0", f"len({NS}) == 0 and g_n == 0"], modifies=MOD)
    nodes = LoopSpec(invariant=wf + [ins_done, f"len({OUT}) == 0", "seq_eq(it, from_.g_nodes)", "g_n == k", f"n_prefix({NS}, from_.g_nodes, k)"],
                     modifies=MOD)
    node_outputs = LoopSpec(invariant=wf + [ins_done, f"len({OUT}) == 0", "0 <= g_n and g_n <= len(from_.g_nodes)",
                                            f"n_prefix({NS}, from_.g_nodes, g_n)"], modifies=MOD)
    eng.add_target(Target("serialize_graph_into[inputs/outputs]", mod=SER, qual="serialize_graph_into", setup=setup,
        params=dict(graph_proto=TRef("GraphProtoIO"), from_=TRef("GraphLikeIO"), model_ir_version=TOpt(INT_)),
        requires=wf + [f"len({IN}) == 0 and len({OUT}) == 0 and len({NS}) == 0"],
        ghost_init="g_n = 0",
        loops={0: LoopSpec(invariant=wf + [f"io_prefix({IN}, from_.inputs, k)", "seq_eq(it, from_.inputs)", f"len({OUT}) == 0",
                                           f"len({NS}) == 0 and g_n == 0"], modifies=MOD),
               2: mid, 3: nodes, 4: node_outputs,
               5: LoopSpec(invariant=wf + [ins_done, nodes_done, f"io_prefix({OUT}, from_.outputs, k)", "seq_eq(it, from_.outputs)"], modifies=MOD)},
        ensures=[ins_done, nodes_done, f"io_prefix({OUT}, from_.outputs, len(from_.outputs))"], raises_default=[], modifies=None, assert_mode="raise"))
