"""Functional contracts on leaf (de)serializers of serde.py, shared by C02 and C03.

deserialize_value_info_proto(proto, value): afterwards the value's Shape and Type are the objects that the two type-proto
deserializers have just built from THIS proto - never an object that existed before the call (a value must not go on
sharing the shape/type object of its tensor or of another value: the declared type, including denotations, wins, and later
edits of one object must not show through another; C02 `exactly the declared type`, C03 `to_proto leaves the IR unchanged /
isomorphic round trip`)."""
from pyvc.core import ClassDecl, FnDecl
from pyvc.engine import Target
from pyvc.types import INT as INT_, STR, TOpt, TRef
from . import schema

SER = "onnx_ir.serde"
TRUSTED = ["deserialize_value_info_proto: deserialize_type_proto_for_shape / _for_type return None or a newly built object and may "
           "raise (assumed contract of the two callees; they are pure constructors over the proto); metadata/doc-string helpers do not "
           "touch Value._shape/_type (lenient frame)"]


def add_value_info_target(eng):
    schema.core_ir(eng)
    for n in ("TypeProtoLike",):
        schema.opaque_class(eng, n)
    eng.add_class(ClassDecl("ValueInfoLike2", fields={"type": TRef("TypeProtoLike"), "name": STR}))
    eng.functions[f"{SER}.deserialize_type_proto_for_shape"] = FnDecl(f"{SER}.deserialize_type_proto_for_shape", "contract", SER,
        "deserialize_type_proto_for_shape", requires=[], ensures=["result is None or fresh(result)"], ret=TRef("Shape"),
        raises={"AnyException": []}, modifies=["$alloc"])
    eng.functions[f"{SER}.deserialize_type_proto_for_type"] = FnDecl(f"{SER}.deserialize_type_proto_for_type", "contract", SER,
        "deserialize_type_proto_for_type", requires=[], ensures=["result is None or fresh(result)"], ret=TRef("TypeObj"),
        raises={"AnyException": []}, modifies=["$alloc"])

    STRMAP = eng.DICT(STR, STR)
    eng.functions[f"{SER}.deserialize_metadata_props"] = FnDecl(f"{SER}.deserialize_metadata_props", "contract", SER,
        "deserialize_metadata_props", requires=[], ensures=["result is None or fresh(result)"], ret=STRMAP,
        raises={"AnyException": []}, modifies=["$alloc", f"{STRMAP.cls}.$v"])

    def setup(e, p, env):
        e.lenient = True
        for prop_ in ("shape", "type"):
            key = f"onnx_ir._core.Value.{prop_}#setter"
            e.functions[key] = FnDecl(key, "inline", "onnx_ir._core", f"Value.{prop_}", "setter")
    eng.add_target(Target("deserialize_value_info_proto", mod=SER, qual="deserialize_value_info_proto", setup=setup,
        params=dict(proto=TRef("ValueInfoLike2"), value=TRef("Value")),
        requires=["nonnull(proto)", "nonnull(value)"],
        ensures=["result is value",
                 "value._shape is None or fresh(value._shape)",
                 "value._type is None or fresh(value._type)"],
        raises_default=[], modifies=None, assert_mode="raise",
        dead=["value = _core.Value(name=proto.name)"]))


def add_tensor_shape_target(eng):
    """deserialize_tensor_shape(proto): the Shape returned is a new object on every call (a deserialized shape is never shared
    between values: frozen or not, `value.shape is other.shape` would make a later replacement of one value's dimensions
    denotations or a merge visible through the other, and the serialized protos of two round trips would alias)."""
    schema.core_ir(eng)
    schema.opaque_class(eng, "ShapeProtoLike")

    def new_shape(e, p, args, kwargs, node):
        return [(p, e.new_object(p, "Shape"))]

    def setup(e, p, env):
        from pyvc.types import VFunc
        e.lenient = True
        e.lib_models["serde.Shape"] = new_shape
        # the per-dimension helper is a pure function of one DimensionProto: opaque here
        e.functions[f"{SER}.deserialize_dimension"] = FnDecl(f"{SER}.deserialize_dimension", "opaque", raises={"AnyException": []})
        e.global_overrides[("onnx_ir._core", "Shape")] = VFunc("lib", "serde.Shape", "Shape")
    eng.add_target(Target("deserialize_tensor_shape", mod=SER, qual="deserialize_tensor_shape", setup=setup,
        params=dict(proto=TRef("ShapeProtoLike")), requires=["nonnull(proto)"],
        ensures=["fresh(result)"], raises_default=[], modifies=None, assert_mode="raise", ret=TRef("Shape")))


def add_graph_annotation_target(eng):
    """serialize_graph_into: EVERY initializer value and EVERY graph output is handed to _maybe_add_quantization_annotation, on
    every path through the body of its loop (C02: `No ... attribute of any kind ... is lost`: the input loop skips inputs that are
    also initializers `to avoid double adding`, so the initializer loop is the only place their quantization annotation is written).
    Control-flow obligation on the real function in lenient mode: at the end of each body path of the two loops the loop element
    is the last value annotated, or the path is infeasible.  An element handed to a repository function this contract does not
    know makes the target undecided (the annotation may have moved there), not failed."""
    import z3
    from pyvc.core import Exc, Unsupported
    from pyvc.sem_stmt import LoopSpec
    from pyvc.types import VBool, VFunc, VNone, VOpaque
    eng.add_class(ClassDecl("GraphProtoLike", fields={"name": STR, "doc_string": STR}))
    eng.add_class(ClassDecl("GraphLike"))
    KNOWN = ("serialize_value_into", "_should_create_value_info_for_value", "serialize_tensor_into", "serialize_node_into",
             "_serialize_metadata_props_into")

    def annotate(e, p, args, kwargs, node):
        p.ghost["$annotated"] = args[1] if len(args) > 1 else kwargs.get("value")
        return [(p, VNone()), (p.copy(), Exc("AnyException", f"L{node.lineno}:_maybe_add_quantization_annotation"))]

    def known(name):
        def call(e, p, args, kwargs, node):
            return [(p, VOpaque("result of " + name)), (p.copy(), Exc("AnyException", f"L{node.lineno}:{name}"))]
        return VFunc("py", call, name)

    def body_end(what):
        def check(e, q, s):
            elem = q.frame.lookup(s.target.id) if hasattr(s.target, "id") else None
            if elem is None:
                raise Unsupported(f"loop at L{s.lineno}: the loop target is not a plain name")
            done = q.ghost.get("$annotated") is elem
            if not done and q.ghost.get("$escaped") is elem:
                raise Unsupported(f"loop at L{s.lineno}: the element is handed to {q.ghost.get('$escaped_to')}, which this contract does not know")
            e.oblige(q, z3.BoolVal(done), "annotated", f"L{s.lineno}:every {what} is handed to _maybe_add_quantization_annotation")
        return check

    def setup(e, p, env):
        e.lenient = True
        e.global_overrides = dict(e.global_overrides)
        e.global_overrides[(SER, "_maybe_add_quantization_annotation")] = VFunc("py", annotate, "_maybe_add_quantization_annotation")
        for name in KNOWN:
            e.global_overrides[(SER, name)] = known(name)
        orig = e.call_opaque

        def call_opaque(p2, f, args, kwargs, node):
            if not f.what.startswith(("logger", "logging", "warnings")):
                for a in list(args) + list(kwargs.values()):
                    if isinstance(a, VOpaque) and a.what == "element of unmodelled iterable":
                        p2.ghost["$escaped"], p2.ghost["$escaped_to"] = a, f.what
            return orig(p2, f, args, kwargs, node)
        e.call_opaque = call_opaque
    eng.add_target(Target("serialize_graph_into[annotations]", mod=SER, qual="serialize_graph_into", setup=setup,
        params=dict(graph_proto=TRef("GraphProtoLike"), from_=TRef("GraphLike"), model_ir_version=TOpt(INT_)),
        requires=["nonnull(graph_proto)", "nonnull(from_)"], ensures=[], raises_default=[], modifies=None, assert_mode="raise",
        # loops of serialize_graph_into, in source order: inputs, the set comprehension over the inputs, initializers, nodes, node outputs, outputs (ordinals re-anchored on
        # the recorded headers, contracts/loop_headers.json, so that a renamed loop variable does not detach the contract)
        loops={2: LoopSpec(modifies=None, body_end=body_end("initializer")),
               5: LoopSpec(modifies=None, body_end=body_end("graph output"))}))
