"""C18 — capture analysis is exact: _collect_implicit_usages under contract (for each input of a node that is not defined
in the current subgraph, exactly the graphs of the scope stack strictly inside the defining graph record it; nothing else
changes); region extraction (backward walk, frontier validation, clone of a view) and the whole-analysis result: bounded."""
from pyvc.core import ClassDecl, Exc, FnDecl
from pyvc.engine import Engine, Target
from pyvc.sem_stmt import LoopSpec
from pyvc.types import *  # noqa: F401,F403
from pyvc.types import BOOL, INT, STR, TOpt, TRef, TSeq
from . import schema

IU = "onnx_ir.analysis._implicit_usage"
LEVEL = "proof"
TRUSTED = []
NOT_DECIDED = ["_process_node: the scope stack is balanced on every normal return (PROVED, target _process_node); that the recursion visits every "
               "nested graph exactly once, _find_subgraph_bounded_by_values worklist (closure + "
               "minimality), frontier validation, extract = view + clone: bounded stand-in against brute-force oracles"]
BOUNDED = [{"name": "C18 every (inputs, outputs) cut of small graphs with a nested body vs brute-force reachability; capture analysis vs brute-force scopes (bounded)",
            "script": "bounded_extract.py", "args": []}]

SPEC = '''
def inside_def(S, j, gdef):
    return forall(lambda i=int: implies(j <= i and i < len(S), S[i] is not gdef))

def vgraph(v):
    return ite(v._graph is not None, v._graph, ite(v._producer is not None, v._producer._graph, None))

def stack_ok(S, U):
    return (len(S) >= 1 and nonnull(S[0]) and allocated(S[0]) and typeis(S[0], Graph) and
            forall(lambda j=int: implies(1 <= j and j < len(S), nonnull(S[j]) and allocated(S[j]) and typeis(S[j], Graph) and S[j] in U and nonnull(U[S[j]]) and allocated(U[S[j]]))) and
            forall(lambda i=int, j=int: implies(0 <= i and i < j and j < len(S), S[i] is not S[j])) and
            forall(lambda g=Graph, h=Graph: implies(g in U and h in U and g is not h, U[g] is not U[h])))
'''


def build(eng, tier):
    schema.core_ir(eng)
    SETV = eng.SET(TRef("Value"))
    UMAP = eng.DICT(TRef("Graph"), SETV)
    LG = eng.LIST(TRef("Graph"))
    eng.spec_fn(SPEC)
    eng.add_target(Target("_collect_implicit_usages", mod=IU, qual="_collect_implicit_usages",
        params=dict(node=TRef("Node"), subgraph=TRef("Graph"), graph_stack=LG, implicit_usages=UMAP),
        # the root graph S[0] has no entry in the result (as in analyze_implicit_usage); every value used is defined in a
        # graph of the scope stack (well-scoped model) -- otherwise the walk reaches the root and raises KeyError
        requires=["nonnull(node)", "nonnull(graph_stack)", "nonnull(implicit_usages)", "stack_ok(box(graph_stack), box(implicit_usages))",
                  "subgraph is box(graph_stack)[len(box(graph_stack)) - 1]",        # every call site pushes the subgraph first
                  "forall(lambda t=int: implies(0 <= t and t < len(node._inputs) and node._inputs[t] is not None, "
                  "exists(lambda i=int: 0 <= i and i < len(box(graph_stack)) and box(graph_stack)[i] is vgraph(node._inputs[t]))))"],
        loops={0: LoopSpec(invariant=[
                   "seq_eq(box(graph_stack), old(box(graph_stack)))", "stack_ok(box(graph_stack), box(implicit_usages))",
                   "unchanged(%r)" % (UMAP.cls + ".$v"),
                   # exactly the captures of the inputs processed so far have been added
                   "forall(lambda j=int, v=Value: implies(1 <= j and j < len(box(graph_stack)), "
                   "iff(v in box(box(implicit_usages)[box(graph_stack)[j]]), "
                   "old(v in box(box(implicit_usages)[box(graph_stack)[j]])) or "
                   "exists(lambda t=int: 0 <= t and t < k and it[t] is v and vgraph(v) is not subgraph and inside_def(box(graph_stack), j, vgraph(v))))))"],
                 modifies=[f"{SETV.cls}.$v"]),
               1: LoopSpec(invariant=[
                   "seq_eq(box(graph_stack), old(box(graph_stack)))", "stack_ok(box(graph_stack), box(implicit_usages))",
                   "unchanged(%r)" % (UMAP.cls + ".$v"), "nonnull(inp)",
                   # the reversed walk has not met the defining graph yet: the k innermost graphs recorded inp
                   "forall(lambda i=int: implies(len(box(graph_stack)) - k <= i and i < len(box(graph_stack)), box(graph_stack)[i] is not vgraph(inp)))",
                   "forall(lambda j=int, v=Value: implies(1 <= j and j < len(box(graph_stack)), "
                   "iff(v in box(box(implicit_usages)[box(graph_stack)[j]]), "
                   "at_loop(v in box(box(implicit_usages)[box(graph_stack)[j]])) or (v is inp and j >= len(box(graph_stack)) - k))))"],
                 modifies=[f"{SETV.cls}.$v"])},
        ensures=["forall(lambda j=int, v=Value: implies(1 <= j and j < len(box(graph_stack)), "
                 "iff(v in box(box(implicit_usages)[box(graph_stack)[j]]), "
                 "old(v in box(box(implicit_usages)[box(graph_stack)[j]])) or "
                 "(v in node._inputs and vgraph(v) is not subgraph and inside_def(box(graph_stack), j, vgraph(v))))))"],
        raises_default=[], modifies=[f"{SETV.cls}.$v"]))


def add_process_node_target(eng):
    """_process_node (the DFS over graph-valued attributes): the scope stack is balanced - on a normal return graph_stack holds
    exactly the graphs it held at entry, in order (every push is matched by a pop on every path, for GRAPH and GRAPHS
    attributes and around the recursive calls).  Effect contract in lenient mode: the attribute/graph iterations are
    unmodelled iterables cut with this invariant; the recursive call and _collect_implicit_usages are used through their
    contracts (they leave graph_stack as they found it - for the recursion that is this very postcondition)."""
    LG = eng.LIST(TRef("Graph"))
    SETV = eng.SET(TRef("Value"))
    UMAP = eng.DICT(TRef("Graph"), SETV)
    bal = "seq_eq(box(graph_stack), old(box(graph_stack)))"
    frame = [f"{UMAP.cls}.$v", f"{SETV.cls}.$v", "$alloc"]
    rec = FnDecl(f"{IU}._process_node", "contract", IU, "_process_node", requires=["nonnull(graph_stack)"], ensures=[],
                 raises={"AnyException": []}, modifies=frame)
    col = FnDecl(f"{IU}._collect_implicit_usages", "contract", IU, "_collect_implicit_usages", requires=["nonnull(graph_stack)"], ensures=[],
                 raises={"AnyException": []}, modifies=frame)

    def fresh_seq(e, p, ety, name):
        import z3
        from pyvc.types import NULL, fresh_name
        v = e.symbolic_param(p, fresh_name(name), TSeq(ety))
        i = z3.Int(fresh_name("qi"))
        p.assume(v.len >= 0)
        p.assume(z3.ForAll([i], z3.Implies(z3.And(0 <= i, i < v.len), v.at(i).z != NULL)))
        return v

    def m_attr_values(e, p, args, kwargs, node):
        return [(p, fresh_seq(e, p, TRef("Attr"), "attrs"))]

    def m_as_graph(e, p, args, kwargs, node):
        from pyvc.types import NULL, fresh_name
        g = e.symbolic_param(p, fresh_name("subgraph"), TRef("Graph"))
        p.assume(g.z != NULL)
        return [(p, g), (p.copy(), Exc("AnyException", f"L{node.lineno}:as_graph"))]

    def m_as_graphs(e, p, args, kwargs, node):
        return [(p, fresh_seq(e, p, TRef("Graph"), "subgraphs")), (p.copy(), Exc("AnyException", f"L{node.lineno}:as_graphs"))]

    def setup(e, p, env):
        e.lenient = True
        e.functions[f"{IU}._process_node"] = rec
        e.functions[f"{IU}._collect_implicit_usages"] = col
        e.method_models = dict(e.method_models)
        e.method_models[("Attributes", "values")] = FnDecl("Attributes.values", "builtin", impl=m_attr_values)
        e.method_models[("Attr", "as_graph")] = FnDecl("Attr.as_graph", "builtin", impl=m_as_graph)
        e.method_models[("Attr", "as_graphs")] = FnDecl("Attr.as_graphs", "builtin", impl=m_as_graphs)
        orig_iter = e.iter_extra

        def iter_extra(v, p2):
            from pyvc.types import VRef
            if isinstance(v, VRef) and v.cls == "Graph":
                return fresh_seq(e, p2, TRef("Node"), "graph_nodes")     # the nodes of a graph: some sequence of nodes
            return orig_iter(v, p2)
        e.iter_extra = iter_extra
    pushed = ("len(box(graph_stack)) == old(len(box(graph_stack))) + 1 and "
              "forall(lambda i=int: implies(0 <= i and i < old(len(box(graph_stack))), box(graph_stack)[i] is old(box(graph_stack)[i])))")
    mods = [f"{LG.cls}.$v"] + frame
    eng.add_target(Target("_process_node", mod=IU, qual="_process_node", setup=setup,
        params=dict(node=TRef("Node"), implicit_usages=UMAP, graph_stack=LG),
        requires=["nonnull(node)", "nonnull(node._attributes)", "nonnull(graph_stack)", "nonnull(implicit_usages)"],
        loops={"for attr in node.attributes.values()": LoopSpec(invariant=[bal, "nonnull(graph_stack)"], modifies=mods),
               "for subgraph in attr.as_graphs()": LoopSpec(invariant=[bal, "nonnull(graph_stack)"], modifies=mods),
               # inside a pushed scope (both `for node in subgraph` loops): exactly one more graph than at entry, the entry
               # prefix untouched
               "for node in subgraph": LoopSpec(invariant=[pushed, "nonnull(graph_stack)"], modifies=frame)},
        ensures=[bal], raises_default=[], modifies=None, assert_mode="raise"))


_build18 = build


def build(eng, tier):
    _build18(eng, tier)
    add_process_node_target(eng)
