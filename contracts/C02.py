"""C02 — proto -> IR -> proto is lossless for every supported proto.

Deductive part (coverage contracts over the real descriptors and the real source, decided by pyvc.protocov):
  read/<M>.<f>     the deserializer reads field f from an expression of static protobuf type M
  written/<M>.<f>  the serializer writes field f on an expression of static protobuf type M
for every field of every message type reachable from onnx.ModelProto in the installed onnx, except the fields of the features the
statement excludes (sparse tensors, training info, map/opaque types) which are listed with the reason.  A field that stops being
read or written is a field that the round trip can no longer preserve: the obligation names it.
This is a necessary condition for losslessness per field, not the equality itself; equality up to the named normalisations is
checked by the bounded stand-in on generated protos (all attribute kinds but sparse, element types x storage fields, nested types with
shapes/denotations, subgraphs capturing outer values, functions with overloads and reference attributes, metadata on every carrier,
IR versions 3..13) and on the leaf messages of each."""
import hashlib
import os

from pyvc import effects, protocov

LEVEL = "other"
EXPLANATION = ("field-coverage contracts (every supported field of every message type is read by the deserializer and written by the "
               "serializer) are discharged deductively on the real source and descriptors - a necessary condition per field; the round-trip "
               "equality itself is checked only by the bounded stand-in on generated protos and is not counted as proved")
SERDE = "onnx_ir.serde"
TRUSTED = ["protobuf static typing from annotations and the installed onnx descriptors (pyvc/protocov.py); wholesale CopyFrom / wrapping a "
           "TensorProto in TensorProtoTensor counts as writing / reading every field of the message"]
NOT_DECIDED = ["field-wise equality of to_proto(from_proto(p)) and p up to the statement's normalisations: bounded stand-in (generated protos)",
               "the normalisations themselves (ai.onnx -> '', value-info for initializers, dropped unreferenced value-info, trimmed trailing "
               "outputs, unset = default) are encoded in the bounded comparator only"]
BOUNDED = [{"name": "C02 generated protos: to_proto(from_proto(p)) == p field by field up to the named normalisations; leaf messages too (bounded)",
            "script": "bounded_serde.py", "args": ["--prop", "C02"]}]
EXPECTED_MIN_OBLIGATIONS = 150

UNSUPPORTED = {
    "onnx.ModelProto.training_info": "training info is outside the supported feature set",
    "onnx.GraphProto.sparse_initializer": "sparse tensors are excluded by the statement",
    "onnx.AttributeProto.sparse_tensor": "sparse attributes are excluded by the statement",
    "onnx.AttributeProto.sparse_tensors": "sparse attributes are excluded by the statement",
    "onnx.TypeProto.map_type": "map types are not in the supported type set (tensor/sparse/sequence/optional)",
    "onnx.TypeProto.opaque_type": "opaque types are not in the supported type set",
}
UNSUPPORTED_MESSAGES = {"onnx.SparseTensorProto", "onnx.TrainingInfoProto", "onnx.TypeProto.Map", "onnx.TypeProto.Opaque"}
SER_PREFIX = ("serialize", "_serialize", "_fill_in", "_maybe_add", "to_proto", "_should", "_remove_trailing")


def build(eng, tier):
    desc = protocov.descriptors()
    repo = effects.Repo()
    cov = protocov.Cov(desc)
    fns = list(repo.module_funcs[SERDE].values()) + [f for f in repo.funcs.values() if f.module == SERDE and f.cls == "TensorProtoTensor"]
    for fn in fns:
        side = "ser" if fn.name.startswith(SER_PREFIX) else "de"
        protocov.analyse(fn.node, fn.qual, desc, cov, side, wrappers=("TensorProtoTensor",))
    de_reads = {k: [w for w in v if not w.split(":")[1].split(".")[-1].startswith(SER_PREFIX)] for k, v in cov.reads.items()}
    ser_writes = {k: [w for w in v if w.split(":")[1].split(".")[-1].startswith(SER_PREFIX) or "TensorProtoTensor" in w] for k, v in cov.writes.items()}
    n = 0
    for m in sorted(desc):
        if m in UNSUPPORTED_MESSAGES:
            continue
        for f in sorted(desc[m]):
            key = f"{m}.{f}"
            if key in UNSUPPORTED:
                continue
            n += 1
            r = de_reads.get((m, f), [])
            w = ser_writes.get((m, f), [])
            eng.add_static(f"read/{key}", bool(r), f"no deserializer function reads {key} any more: the field would be lost on proto -> IR", backend="field-coverage")
            eng.add_static(f"written/{key}", bool(w), f"no serializer function writes {key} any more: the field would be lost on IR -> proto", backend="field-coverage")
    path = os.path.join(repo.src_root, "onnx_ir", "serde.py")
    eng.functions_under_contract["file:onnx_ir.serde"] = {"function": "file:onnx_ir.serde", "kind": "file", "module": SERDE, "file": path,
                                                          "sha256": hashlib.sha256(open(path, "rb").read()).hexdigest()[:16], "lines": "whole file",
                                                          "contract": "field coverage of every supported protobuf field, both directions"}
    eng.effect_reports = {"contract": "every supported field of the real descriptors is read by the deserializer and written by the serializer",
                          "message_types": sorted(m for m in desc if m not in UNSUPPORTED_MESSAGES), "fields_under_contract": n,
                          "excluded_fields": UNSUPPORTED, "excluded_messages": sorted(UNSUPPORTED_MESSAGES),
                          "functions_analysed": sorted(f.qual for f in fns)}


_build_C02 = build
from . import serde_targets as _st  # noqa: E402
TRUSTED = list(TRUSTED) + _st.TRUSTED


def build(eng, tier):
    _build_C02(eng, tier)
    from . import serde_targets
    serde_targets.add_value_info_target(eng)
    serde_targets.add_tensor_shape_target(eng)
    serde_targets.add_graph_annotation_target(eng)
    serde_targets.add_graph_initializer_target(eng)
    serde_targets.add_graph_io_target(eng)
