"""C06 — a rejected edit leaves every IR object exactly as it was: exceptional postcondition `unchanged` + frame."""
from . import ir_targets

LEVEL = "proof"
TRUSTED = ["count(seq, x) lemmas (effect of list operations on element counts; by induction, assumed)"]
NOT_DECIDED = ["_convenience.replace_nodes_and_values is composite, not atomic by construction (the statement lists atomic mutators)"]
BOUNDED = [{"name": "C06 short histories of public mutators, snapshot equality on raise (bounded, not a proof)",
            "script": "bounded_ir.py", "args": ["--prop", "C06"]}]


def build(eng, tier):
    ir_targets.build(eng, tier, "C06")
