"""C06 — a rejected edit leaves every IR object exactly as it was: exceptional postcondition `unchanged` + frame."""
from . import ir_targets

LEVEL = "proof"
TRUSTED = ["count(seq, x) lemmas (effect of list operations on element counts; by induction, assumed)"]
NOT_DECIDED = ["_convenience.replace_nodes_and_values is composite, not atomic by construction (the statement lists atomic mutators)"]
BOUNDED = [{"name": "C06 short histories of public mutators, snapshot equality on raise (bounded, not a proof)",
            "script": "bounded_ir.py", "args": ["--prop", "C06"]},
           {"name": "C06 a sort rejected for a cycle (also confined to a nested graph) leaves every graph as it was (bounded)",
            "script": "bounded_sort.py", "args": []},
           {"name": "C06 rejected rename_values (single graph and across graphs) changes nothing (bounded)",
            "script": "bounded_names.py", "args": []},
           {"name": "C06 a rejected Node.resize_outputs / resize_inputs leaves the node, its outputs and their users as they were (bounded, directed)",
            "script": "bounded_resize.py", "args": []}]


def build(eng, tier):
    ir_targets.build(eng, tier, "C06")
    from . import usedef_targets
    usedef_targets.build(eng, "C06")
    usedef_targets.add_resize_outputs_effect_target(eng)
    usedef_targets.add_graph_nodelist_effect_targets(eng)
    from . import init_targets
    init_targets.build(eng, "C06")
    from . import C12
    add_rename_target(eng)
    add_value_name_target(eng)
    C12.add_sort_target(eng)      # Graph.sort: ValueError exit => nothing changed (last target: switches to lenient mode)


def add_rename_target(eng):
    """convenience.rename_values: every ValueError / TypeError exit happens before the first IR store or IR-mutating call
    (validation of ALL graphs' groups precedes the first pop): effect obligation in lenient mode."""
    from pyvc.engine import Target
    CONV = "onnx_ir._convenience"
    fields = ["Value._name", "Value._graph", "Value._is_initializer", "Value._const_value", "Node._name"]
    # (a check that declares a smaller abstract Value/Node, like C15, states the frame over the fields it has)
    fields = [f for f in fields if f.split(".")[0] in eng.classes and f.split(".")[1] in eng.classes[f.split(".")[0]].fields]
    unchanged = "unchanged(%s)" % ", ".join(repr(f) for f in fields)

    from pyvc.core import Exc, FnDecl
    from pyvc.types import VOpaque

    def ir_mutator(what):
        def impl(e, p, args, kwargs, node):
            # an IR mutation: the path is dirty from here on, the IR heap is arbitrary afterwards, and the call may raise
            p.ghost["$ir_dirty"] = f"{what} at L{node.lineno}"
            e.havoc_heap(p, None)
            q = p.copy()
            return [(p, VOpaque("result of " + what)), (q, Exc("AnyException", f"L{node.lineno}:{what}"))]
        return impl

    def setup(e, p, env):
        e.lenient = True
        e.functions["stdlib:_collections_abc.MutableMapping.pop"] = FnDecl("initializers.pop", "builtin", impl=ir_mutator("initializers.pop"))
        e.functions["onnx_ir._graph_containers.GraphInitializers.add"] = FnDecl("initializers.add", "builtin", impl=ir_mutator("initializers.add"))
        e.functions["onnx_ir._core.Value.name#setter"] = FnDecl("Value.name=", "builtin", impl=ir_mutator("Value.name setter"))
    from pyvc.types import STR, TRef, TSeq
    t = Target("rename_values", mod=CONV, qual="rename_values", params={"values": TSeq(TRef("Value")), "names": TSeq(STR)}, requires=[], ensures=[], setup=setup,
               raises={"ValueError": [unchanged, "ir_clean()"], "TypeError": [unchanged, "ir_clean()"]}, raises_default=[], assert_mode="raise")
    # unreachable under the parameter types of this target (sequences of Values / strs): the scalar-argument conveniences
    t.dead = ["values = (values,)", "names = (names,)", "raise TypeError(f'name must be a string"]
    t.local_containers = ("values", "names", "target_by_value", "ordered_pairs", "initializer_pairs_by_graph", "initializer_values_by_graph",
                          "seen_targets", "renamed_initializers", "initializer_pairs")
    eng.add_target(t)


def add_value_name_target(eng):
    """Value.name = x: every rejection (None/empty/colliding name of an initializer) AND a failure of the backing tensor's own
    name setter (e.g. a proto-backed tensor refusing the string) happens before the value is renamed or the initializer
    map is touched - so the initializer stays stored under its current name whether the call succeeds or raises."""
    from pyvc.core import Exc, FnDecl
    from pyvc.engine import Target
    from pyvc.sem_stmt import NEXT
    from pyvc.types import NULL, STR, TOpt, VOpaque, VRef
    CORE = "onnx_ir._core"
    unchanged = "unchanged('Value._name', 'Value._graph', 'Value._is_initializer')"

    def ir_mutator(what):
        def impl(e, p, args, kwargs, node):
            p.ghost["$ir_dirty"] = f"{what} at L{node.lineno}"
            e.havoc_heap(p, None)
            q = p.copy()
            return [(p, VOpaque("result of " + what)), (q, Exc("AnyException", f"L{node.lineno}:{what}"))]
        return impl

    def setup(e, p, env):
        e.lenient = True
        e.functions["stdlib:_collections_abc.MutableMapping.pop"] = FnDecl("initializers.pop", "builtin", impl=ir_mutator("initializers.pop"))
        e.functions["onnx_ir._graph_containers.GraphInitializers.__setitem__"] = FnDecl("initializers[k]=v", "builtin", impl=ir_mutator("initializers.__setitem__"))
        e.functions["onnx_ir._graph_containers.GraphInitializers.__getitem__"] = FnDecl("initializers[k]", "builtin",
            impl=lambda e2, p2, a, k, n: [(p2, VOpaque("initializer entry")), (p2.copy(), Exc("KeyError", f"L{n.lineno}"))])
        orig = e.set_attr

        def set_attr(p2, obj, name, v, node):
            q = p2.copy()          # before the store: the forks below reuse p2
            res = orig(p2, obj, name, v, node)
            if isinstance(obj, VRef) and obj.cls == "TensorLike" and name == "name":
                # the tensor's own name setter may refuse the name (proto-backed tensors: non-str / unencodable text)
                q.assume(obj.z != NULL)
                res = list(res) + [(q, ("raise", Exc("TensorNameError", f"L{node.lineno}:tensor.name setter")))]
            return res
        e.set_attr = set_attr
    t = Target("Value.name[setter]", mod=CORE, qual="Value.name", kind="setter", self_cls="Value", params={"value": STR},
               requires=[], ensures=[], setup=setup, dead=["raise ValueError('Initializer value cannot have name set to None"],
               raises={"ValueError": [unchanged, "ir_clean()"], "TensorNameError": [unchanged, "ir_clean()"]}, raises_default=[], assert_mode="raise")
    t.local_containers = ()
    eng.add_target(t)
