"""C19 — device annotations never dangle: _drop_sharding_for_value and sharding_of under contract (specs of a value
that left the node are dropped in *every* configuration, all other specs/configurations kept position by position);
shard/set_pipeline_stage validation, clone remapping, cascade removal and the IR-11 round trip: bounded stand-in."""
import z3

from pyvc.core import ClassDecl, FnDecl
from pyvc.engine import Engine, Target
from pyvc.sem_stmt import LoopSpec
from pyvc.types import *  # noqa: F401,F403
from pyvc.types import BOOL, INT, STR, TOpt, TRec, TRef, TSeq, VRec, coerce

CORE = "onnx_ir._core"
LEVEL = "proof"
TRUSTED = ["dataclasses.replace on a frozen dataclass returns a copy with the named fields replaced"]
NOT_DECIDED = ["Node.shard merging/validation (nested generators over axis normalisation), set_pipeline_stage, clone remapping, "
               "remove_device_configuration(cascade), serializer references, _check_device_configurations: bounded stand-in"]
BOUNDED = [{"name": "C19 interleavings of shard/stage/add/remove/rename/replace_input/resize/clone/round trip on a 3-node model (bounded)",
            "script": "bounded_devices.py", "args": []}]


def build(eng, tier):
    for n in ("ModelConfiguration", "ShardedDim", "Value"):
        eng.add_class(ClassDecl(n))
    # frozen dataclasses = immutable heap objects compared by identity here (the code only uses `is` on specs' values and
    # rebuilds tuples; structural == on these records is never evaluated by the functions under contract)
    eng.add_class(ClassDecl("ShardingSpec", mod=None, fields={"value": TRef("Value"), "device": TSeq(INT), "sharded_dims": TSeq(TRef("ShardedDim"))}))
    eng.classes["ShardingSpec"].dataclass_fields = ["value", "device", "sharded_dims"]
    SPEC = TRef("ShardingSpec")
    eng.add_class(ClassDecl("NodeDeviceConfiguration", mod=None, fields={"configuration": TRef("ModelConfiguration"),
                  "sharding_specs": TSeq(SPEC), "pipeline_stage": TOpt(INT)}))
    eng.classes["NodeDeviceConfiguration"].dataclass_fields = ["configuration", "sharding_specs", "pipeline_stage"]
    CFG = TRef("NodeDeviceConfiguration")
    SV = TSeq(TRef("Value"))
    eng.declare_class_from_source(CORE, "Node", fields={"_inputs": SV, "_outputs": SV, "device_configurations": TSeq(CFG)}, bases=[])

    def dc_replace(e, p, args, kwargs, node):
        src = args[0]
        d = e.classes[src.cls]
        new = e.new_object(p, src.cls)
        for f in d.dataclass_fields:
            e.write_field(p, new, f, kwargs[f] if f in kwargs else e.read_field(p, src, f))
        return [(p, new)]
    eng.lib_models["dataclasses.replace"] = dc_replace
    LCFG = eng.LIST(CFG)
    LSPEC = eng.LIST(SPEC)
    CF = ["NodeDeviceConfiguration.configuration", "NodeDeviceConfiguration.sharding_specs", "NodeDeviceConfiguration.pipeline_stage"]
    eng.spec_fn('''
def in_io(n, v):
    return v in n._inputs or v in n._outputs

def targets(cfgs, v):
    return exists(lambda i=int, j=int: 0 <= i and i < len(cfgs) and 0 <= j and j < len(cfgs[i].sharding_specs) and cfgs[i].sharding_specs[j].value is v)

def filtered(new, old, v):
    return (forall(lambda j=int: implies(0 <= j and j < len(new), new[j].value is not v and
                   exists(lambda i=int: 0 <= i and i < len(old) and old[i] is new[j]))) and
            forall(lambda i=int: implies(0 <= i and i < len(old) and old[i].value is not v,
                   exists(lambda j=int: 0 <= j and j < len(new) and new[j] is old[i]))))

def cfgs_ok(cfgs):
    return forall(lambda i=int: implies(0 <= i and i < len(cfgs), nonnull(cfgs[i]) and allocated(cfgs[i]) and
                  forall(lambda j=int: implies(0 <= j and j < len(cfgs[i].sharding_specs), nonnull(cfgs[i].sharding_specs[j]) and allocated(cfgs[i].sharding_specs[j])))))
''')
    eng.add_target(Target("Node._drop_sharding_for_value", mod=CORE, qual="Node._drop_sharding_for_value", self_cls="Node",
        params=dict(value=TRef("Value")), requires=["nonnull(value)", "cfgs_ok(self.device_configurations)"],
        local_types={"new_configurations": LCFG},
        loops={0: LoopSpec(invariant=[
                    "len(new_configurations) == k", "unchanged('ShardingSpec.value')", "cfgs_ok(it)",
                    "forall(lambda i=int: implies(0 <= i and i < len(it), it[i].configuration is old(it[i].configuration) and "
                    "it[i].sharding_specs == old(it[i].sharding_specs) and it[i].pipeline_stage == old(it[i].pipeline_stage)))",
                    "forall(lambda i=int: implies(0 <= i and i < k, nonnull(new_configurations[i]) and allocated(new_configurations[i]) and "
                    "new_configurations[i].configuration is it[i].configuration and "
                    "new_configurations[i].pipeline_stage == it[i].pipeline_stage and "
                    "filtered(new_configurations[i].sharding_specs, it[i].sharding_specs, value)))",
                    "implies(not changed, forall(lambda i=int: implies(0 <= i and i < k, new_configurations[i] is it[i])))"],
                 modifies=[f"{LCFG.cls}.$v", f"{LSPEC.cls}.$v", "$alloc"] + CF),
               1: LoopSpec(invariant=["len(acc) <= k",
                                      "forall(lambda j=int: implies(0 <= j and j < len(acc), acc[j].value is not value and "
                                      "exists(lambda i=int: 0 <= i and i < k and it[i] is acc[j])))",
                                      "forall(lambda i=int: implies(0 <= i and i < k and it[i].value is not value, "
                                      "exists(lambda j=int: 0 <= j and j < len(acc) and acc[j] is it[i])))",
                                      "implies(len(acc) == k, forall(lambda i=int: implies(0 <= i and i < k, acc[i] is it[i])))"],
                           modifies=["$alloc", f"{LSPEC.cls}.$v"], elem=SPEC)},
        ensures=[# a value that is no longer an input/output of the node has no spec left, in any configuration
                 "implies(not in_io(self, value), not targets(self.device_configurations, value))",
                 # everything else is kept, configuration by configuration
                 "len(self.device_configurations) == len(old(self.device_configurations))",
                 "implies(in_io(self, value), self.device_configurations == old(self.device_configurations))",
                 "forall(lambda i=int: implies(0 <= i and i < len(self.device_configurations) and not in_io(self, value), "
                 "self.device_configurations[i].configuration is old(old(self.device_configurations)[i].configuration) and "
                 "self.device_configurations[i].pipeline_stage == old(old(self.device_configurations)[i].pipeline_stage) and "
                 "filtered(self.device_configurations[i].sharding_specs, old(old(self.device_configurations)[i].sharding_specs), value)))"],
        modifies=["Node.device_configurations", f"{LCFG.cls}.$v", f"{LSPEC.cls}.$v"] + CF))

    add_shard_effect_target(eng)


def add_shard_effect_target(eng):
    """Node.shard / set_pipeline_stage: `invalid annotation requests ... are rejected without effect` - every ValueError exit
    precedes the only store (`self.device_configurations = ...`) and every call that could write annotations: effect
    obligation in lenient mode (the merge logic itself stays bounded)."""
    def setup(e, p, env):
        e.lenient = True
    for meth, params in (("shard", dict(value=TRef("Value"), configuration=TRef("ModelConfiguration"), axis=INT, num_shards=INT,
                                        device_indices=TSeq(INT), pipeline_stage=TOpt(INT))),
                         ("set_pipeline_stage", dict(configuration=TRef("ModelConfiguration"), stage=INT))):
        t = Target(f"Node.{meth}[effects]", mod=CORE, qual=f"Node.{meth}", self_cls="Node", params=params, requires=[], ensures=[], setup=setup,
                   raises={"ValueError": ["unchanged_old('Node.device_configurations')", "ir_clean()"]}, raises_default=[], assert_mode="raise")
        t.local_containers = ("configurations", "specs")
        t.dead = ["def _normalize_axis"]      # evaluated inside a generator over unmodelled records; a pure helper
        eng.add_target(t)
