#!/bin/bash
# tools/benign_run.sh <benign-dir-name> [props...] : apply a behaviour-preserving patch to a scratch copy and run the checks: they must stay quiet
cd "$(dirname "$0")/.."
name=$1; shift
dir=benign/$name
prop=$(python3 -c "import json;print(json.load(open('$dir/meta.json'))['property'])")
props=${*:-$prop}
D=$(mktemp -d /tmp/benXXXX); trap 'rm -rf $D' EXIT
mkdir -p $D/repo; (cd /repo && git ls-files -z | xargs -0 cp --parents -t $D/repo 2>/dev/null)
if ! (cd $D/repo && patch -p1 -s --no-backup-if-mismatch < /verif/$dir/patch.diff >/dev/null 2>&1); then echo "$name: PATCH-DOES-NOT-APPLY"; exit 9; fi
for p in $props; do
  out=$(PYVC_REPO=$D/repo ./check $p --tier quick ${CHECK_ARGS:-} 2>&1); rc=$?
  echo "$name: check $p rc=$rc $(echo "$out" | grep -v WARN | tail -1 | cut -c1-110)"
  [ $rc -ne 0 ] && echo "$out" | grep -E "^VIOLATION|UNDECIDED|CHECKER|unsupported|vacuity" | head -6 | cut -c1-300 | sed 's/^/    /'
done
