#!/bin/bash
# tools/seeded_new.sh <pattern> : run seeded changes whose directory name matches, 4 at a time; deductive-only and full
cd "$(dirname "$0")/.."
ls seeded | grep -E "${1:-_[ab]$}" | xargs -P 3 -I{} bash -c 'n={}; (CHECK_ARGS=--no-bounded tools/seeded_run.sh $n 2>&1 | sed "s/^/[deductive] /"; tools/seeded_run.sh $n 2>&1 | grep -v "demo unchanged" | sed "s/^/[full]      /") > out/seeded_$n.txt 2>&1'
cat out/seeded_*_[ab].txt 2>/dev/null
