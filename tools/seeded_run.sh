#!/bin/bash
# usage: tools/seeded_run.sh <seeded-dir-name> [props...]      (default props: the property the change breaks)
# Applies seeded/<name>/patch(.rebased).diff to a scratch copy of /repo's working tree (outside /repo and /verif),
# confirms the demo fails there and passes on /repo, runs the named checks against the copy (PYVC_REPO) and prints
# one line per check. The copy is removed afterwards. /repo itself is never touched.
set -u
cd "$(dirname "$0")/.."
name=$1; shift
dir=seeded/$name
prop=$(python3 -c "import json;print(json.load(open('$dir/meta.json'))['property'])")
props=${*:-$prop}
patch=$dir/patch.diff; [ -f $dir/patch.rebased.diff ] && patch=$dir/patch.rebased.diff
D=$(mktemp -d /tmp/seedXXXX)
trap 'rm -rf $D' EXIT
mkdir -p $D/repo; (cd /repo && git ls-files -z | xargs -0 cp --parents -t $D/repo 2>/dev/null)
if ! (cd $D/repo && patch -p1 -s --no-backup-if-mismatch < /verif/$patch >/dev/null 2>&1); then echo "$name: PATCH-DOES-NOT-APPLY ($patch)"; exit 9; fi
demo=$(ls $dir/demo_* 2>/dev/null | head -1)
if [ -n "$demo" ]; then
  (cd $D && PYTHONPATH=/repo/src timeout 600 /venv/bin/python /verif/$demo >/dev/null 2>&1); a=$?
  (cd $D && PYTHONPATH=$D/repo/src timeout 600 /venv/bin/python /verif/$demo >/dev/null 2>&1); b=$?
  echo "$name: demo unchanged=$a changed=$b"
fi
for p in $props; do
  out=$(PYVC_REPO=$D/repo ./check $p --tier ${TIER:-quick} ${CHECK_ARGS:-} 2>&1); rc=$?
  v=$( (echo "$out" | grep -E "^VIOLATION.*obligation=" | head -3; echo "$out" | grep -E "^VIOLATION" | grep -v "obligation=" | head -2) | cut -c1-260)
  echo "$name: check $p rc=$rc"; [ -n "$v" ] && echo "$v" | sed 's/^/    /'
  [ $rc -ge 2 ] && echo "$out" | grep -E "UNDECIDED|CHECKER|unsupported|vacuity" | head -5 | cut -c1-260 | sed 's/^/    /'
done
# (evidence of scratch runs goes to out/evidence_scratch, never to evidence/)
