#!/usr/bin/env python3
"""tools/catch_table.py : read out/seeded_final_table.txt (tools/seeded_final.sh) and (1) print the markdown catch table for
DESIGN.md 10.6, (2) record `detected_by` in every seeded/<name>/meta.json."""
import json
import os
import sys

ROOT = os.path.dirname(os.path.dirname(os.path.abspath(__file__)))
rows = []
for line in open(os.path.join(ROOT, "out", "seeded_final_table.txt")):
    parts = line.rstrip("\n").split("|")
    if len(parts) < 7:
        continue
    name, rc, ded, bnd, und, demo, first = parts[:7]
    rows.append(dict(name=name, rc=rc.split("=")[1], ded=ded.endswith("yes"), bnd=bnd.endswith("yes"), und=und.endswith("yes"),
                     demo=demo, first=first.replace("obligation=", "")))
print("| change | property | caught by | first failing obligation (deductive) |")
print("|--------|----------|-----------|--------------------------------------|")
tot = dict(ded=0, bnd_only=0, missed=0, na=0)
for r in rows:
    prop = r["name"].split("_")[0]
    if r["rc"] == "":
        how = "patch no longer applies (superseded by a later fix of the same lines)"
        tot["na"] += 1
    elif r["ded"] and r["bnd"]:
        how = "failed proof obligation + bounded stand-in"
        tot["ded"] += 1
    elif r["ded"]:
        how = "failed proof obligation"
        tot["ded"] += 1
    elif r["bnd"]:
        how = "bounded stand-in only" + (" (target undecided: code left the contract's shape)" if r["und"] else "")
        tot["bnd_only"] += 1
    else:
        how = "**not caught**"
        tot["missed"] += 1
    print(f"| {r['name']} | {prop} | {how} | {('`' + r['first'][len(prop) + 1:] + '`') if r['first'] else ''} |")
    mp = os.path.join(ROOT, "seeded", r["name"], "meta.json")
    if os.path.exists(mp) and "--write" in sys.argv:
        m = json.load(open(mp))
        m["detected_by"] = how + (f": {r['first']}" if r["first"] else "")
        json.dump(m, open(mp, "w"), indent=1)
print()
print(f"Totals: {len(rows)} seeded changes; {tot['ded']} fail a proof obligation of their property's check, {tot['bnd_only']} are caught by the "
      f"bounded stand-in only, {tot['missed']} not caught, {tot['na']} no longer apply.")
