#!/bin/bash
# tools/seeded_final.sh [regex] : run every seeded change once against its own property's full quick check (scratch copy, never
# /repo) and classify what caught it: a failed proof obligation (deductive), the bounded stand-in, or nothing.
cd "$(dirname "$0")/.."
mkdir -p out/seeded_final
one() {
  n=$1
  out=$(tools/seeded_run.sh $n 2>&1)
  rc=$(echo "$out" | grep -o "check C[0-9]* rc=[0-9]*" | head -1 | sed 's/.*rc=//')
  demo=$(echo "$out" | grep -o "demo unchanged=[0-9]* changed=[0-9]*" | head -1)
  ded=no; bnd=no; und=no
  echo "$out" | grep -q "VIOLATION.*obligation=" && ded=yes
  echo "$out" | grep -q "VIOLATION.*bounded-standin=" && bnd=yes
  echo "$out" | grep -q "unsupported\]" && und=yes
  first=$(echo "$out" | grep -o "obligation=[^ ]*" | head -1 | cut -c1-110)
  echo "$n|rc=$rc|deductive=$ded|bounded=$bnd|target-undecided=$und|$demo|$first" > out/seeded_final/$n.txt
}
export -f one
ls seeded | grep -E "${1:-.}" | xargs -P ${PAR:-3} -I{} bash -c 'one {}'
cat out/seeded_final/*.txt > out/seeded_final_table.txt
