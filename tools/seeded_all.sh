#!/bin/bash
# tools/seeded_all.sh : every seeded change, deductive part only (--no-bounded) and full quick check; table on stdout
cd "$(dirname "$0")/.."
for d in seeded/*/; do n=$(basename $d)
  CHECK_ARGS=--no-bounded tools/seeded_run.sh $n "$@" 2>&1 | sed "s/^/[deductive] /"
  tools/seeded_run.sh $n "$@" 2>&1 | grep -v "demo unchanged" | sed "s/^/[full]      /"
done
