#!/bin/bash
# tools/record_loops.sh : (re)generate contracts/loop_headers.json - the header text of every loop of every function that
# carries ordinal-keyed loop contracts, on the tree the contracts are written against (run on the unchanged /repo only).
cd "$(dirname "$0")/.."
rm -f /tmp/loops.json
for i in 01 02 04 05 06 07 08 09 10 11 12 13 14 15 16 18 19 20; do
  PYVC_RECORD_LOOPS=/tmp/loops.json PYVC_Z3_TIMEOUT_MS=100 PYVC_EMATCH_TIMEOUT_MS=100 PYVC_FALLBACK_TIMEOUT_S=1 timeout 600 ./check C$i --no-bounded >/dev/null 2>&1
done
cp /tmp/loops.json contracts/loop_headers.json; rm -f /tmp/loops.json
git checkout -- evidence 2>/dev/null   # the short-timeout runs above must not leave their evidence behind
