"""Modular effect contracts over the real source (re-read from /repo on every run).

An *effect contract* on a function f is a declared upper bound on what f may do:
    fs = {}            f performs no file-system access
    writes <= W        f stores only to the (class-or-pattern).attribute pairs listed in W (frame condition)
    nondet = {}        f reads no identity/clock/random/unordered source

The obligation for one function is local (a caller is checked against its callees' *contracts*, never their bodies):
    direct(f) within the bound,  and  every callee that f's body may reach is either under the same contract (and so has an
    obligation of its own) or is on a named list of assumed library functions.
Call resolution is a sound over-approximation for repository code: a method call on a receiver whose class is not known
statically resolves to *every* method of that name in the repository; attribute loads resolve to every property getter of that
name; implicit protocol calls (len, iteration, subscripts, ==, hash, str/repr/format, bool, np.asarray) resolve to every
class defining the corresponding dunder.  What is outside the repository (numpy, onnx/protobuf, stdlib) is not analysed: such
calls are classified by a table of file-system primitives and the rest is reported as an assumption.
No SMT is involved: the obligations are decided by the resolution itself (backend "effect-analysis")."""
import ast
import os

from . import extract

FS_CALLS = {
    # builtins / stdlib
    "open", "io.open", "os.open", "os.fdopen", "os.stat", "os.lstat", "os.listdir", "os.scandir", "os.walk", "os.remove", "os.unlink",
    "os.rename", "os.replace", "os.makedirs", "os.mkdir", "os.rmdir", "os.readlink", "os.link", "os.symlink", "os.truncate",
    "os.access", "os.chmod", "os.utime", "os.getcwd", "os.chdir", "os.fsync", "os.close", "os.read", "os.write",
    "os.path.exists", "os.path.lexists", "os.path.isfile", "os.path.isdir", "os.path.islink", "os.path.getsize", "os.path.getmtime",
    "os.path.realpath", "os.path.abspath", "os.path.samefile", "os.path.ismount", "os.path.expanduser",
    "mmap.mmap", "shutil.copy", "shutil.copyfile", "shutil.move", "shutil.rmtree", "shutil.copyfileobj",
    "tempfile.mkstemp", "tempfile.mkdtemp", "tempfile.NamedTemporaryFile", "tempfile.TemporaryDirectory", "tempfile.TemporaryFile",
    "pathlib.Path.cwd", "pathlib.Path.home",
    # numpy / onnx
    "numpy.memmap", "numpy.fromfile", "numpy.load", "numpy.save", "numpy.savez", "numpy.loadtxt", "numpy.savetxt", "numpy.genfromtxt",
    "onnx.load", "onnx.load_model", "onnx.save", "onnx.save_model", "onnx.load_tensor", "onnx.save_tensor",
    "onnx.load_external_data_for_model", "onnx.external_data_helper.load_external_data_for_model",
    "onnx.external_data_helper.load_external_data_for_tensor", "onnx.external_data_helper.convert_model_to_external_data",
    "onnx.external_data_helper.write_external_data_tensors", "onnx.external_data_helper.save_external_data",
    "onnx.checker.check_model", "onnx.shape_inference.infer_shapes_path",
    "safetensors.safe_open", "safetensors.numpy.load_file", "safetensors.numpy.save_file",
    "subprocess.run", "subprocess.Popen", "subprocess.check_output", "subprocess.call",
}
FS_PREFIXES = ("shutil.", "tempfile.", "glob.", "fnmatch.", "subprocess.", "safetensors.")
# methods that touch the file system whatever (library) receiver they are called on
FS_METHODS = {"read_bytes", "write_bytes", "read_text", "write_text", "exists", "is_file", "is_dir", "stat", "lstat", "mkdir", "unlink",
              "rmdir", "rename", "replace", "resolve", "iterdir", "glob", "rglob", "touch", "open", "tofile", "readinto", "readline",
              "readlines", "fileno", "truncate", "flush", "seek", "tell", "samefile", "expanduser", "absolute", "is_symlink", "readlink",
              "symlink_to", "hardlink_to", "chmod", "owner", "group", "madvise"}
# `read`/`write`/`close` are too generic to ban by name on unknown receivers inside protobuf code; they are banned on receivers that
# are known file objects (results of open()).
NONDET_CALLS = {"time.time", "time.monotonic", "time.perf_counter", "time.time_ns", "random.random", "random.randint", "random.choice",
                "random.shuffle", "uuid.uuid4", "uuid.uuid1", "os.urandom", "os.getpid", "datetime.datetime.now", "datetime.datetime.utcnow",
                "secrets.token_hex", "secrets.token_bytes"}
NONDET_PREFIXES = ("random.", "uuid.", "secrets.", "numpy.random.")

DUNDER_OF_BUILTIN = {"len": ["__len__"], "str": ["__str__", "__repr__"], "repr": ["__repr__"], "format": ["__format__", "__str__"],
                     "hash": ["__hash__"], "bool": ["__bool__", "__len__"], "iter": ["__iter__"], "next": ["__next__"], "reversed": ["__reversed__", "__len__", "__getitem__"],
                     "sorted": ["__iter__", "__lt__"], "list": ["__iter__", "__len__"], "tuple": ["__iter__", "__len__"], "set": ["__iter__", "__hash__", "__eq__"],
                     "frozenset": ["__iter__", "__hash__", "__eq__"], "dict": ["__iter__", "__getitem__", "keys"], "enumerate": ["__iter__"], "zip": ["__iter__"], "any": ["__iter__", "__bool__"],
                     "all": ["__iter__", "__bool__"], "sum": ["__iter__", "__add__"], "min": ["__iter__", "__lt__"], "max": ["__iter__", "__lt__"],
                     "int": ["__int__", "__index__"], "float": ["__float__"], "bytes": ["__bytes__", "__iter__"], "abs": ["__abs__"], "getattr": [], "setattr": [],
                     "isinstance": [], "issubclass": [], "type": [], "print": ["__str__"], "map": ["__iter__"], "filter": ["__iter__"], "range": ["__index__"]}
DISPLAY = {"__str__", "__repr__", "__format__"}
# library-container methods that mutate their receiver: a call on anything but a protobuf object or a local fresh container is a store
MUTATORS = {"append", "extend", "insert", "pop", "remove", "clear", "update", "setdefault", "add", "discard", "sort", "reverse", "popitem",
            "popleft", "appendleft", "rotate", "fill", "put", "itemset", "setflags", "difference_update", "intersection_update",
            "symmetric_difference_update", "move_to_end", "subtract"}
ARRAY_CALLS = {"numpy.array", "numpy.asarray", "numpy.ascontiguousarray", "numpy.asanyarray", "numpy.stack", "numpy.concatenate"}


class Fn:
    def __init__(self, module, cls, name, node, kind):
        self.module, self.cls, self.name, self.node, self.kind = module, cls, name, node, kind   # kind: func|method|getter|setter|deleter

    @property
    def qual(self):
        return f"{self.module}:{self.cls + '.' if self.cls else ''}{self.name}" + ("" if self.kind in ("func", "method") else f"[{self.kind}]")

    def __repr__(self):
        return self.qual


class Repo:
    def __init__(self, src_root=None, package="onnx_ir"):
        self.src_root = src_root or os.path.join(os.environ.get("PYVC_REPO", "/repo"), "src") if not src_root else src_root
        if not os.path.isdir(os.path.join(self.src_root, package)):
            self.src_root = os.path.join(os.environ.get("PYVC_REPO", "/repo"), "src")
        self.package = package
        self.modules = {}            # module name -> ast.Module
        self.imports = {}            # module name -> {alias: dotted target}
        self.funcs = {}              # qual -> Fn
        self.module_funcs = {}       # module -> {name: Fn}
        self.classes = {}            # class name -> {"module","bases","methods":{name:[Fn]}}   (class names are unique enough; collisions merge)
        self.methods_by_name = {}
        self.getters_by_name = {}
        self.setters_by_name = {}
        self.module_assign = {}      # module -> {name: ast expr}  (aliases such as _serialize_metadata_props_into = f)
        self.container_elem = {}     # class deriving from a library container -> element class names
        self.field_ann = {}          # class -> {field: [annotation class names]} from `self.f: T = ...` / `self.f = <annotated parameter>`
        self._load()

    def _load(self):
        base = os.path.join(self.src_root, self.package)
        for dp, _dn, fns in os.walk(base):
            for fn in fns:
                if not fn.endswith(".py") or fn.endswith("_test.py"):
                    continue
                path = os.path.join(dp, fn)
                rel = os.path.relpath(path, self.src_root)[:-3].replace(os.sep, ".")
                if rel.endswith(".__init__"):
                    rel = rel[: -len(".__init__")]
                try:
                    tree = ast.parse(open(path).read())
                except SyntaxError:
                    continue
                self.modules[rel] = tree
        for mod, tree in self.modules.items():
            self.imports[mod] = self._imports(mod, tree)
            self.module_funcs[mod] = {}
            self.module_assign[mod] = {}
            for st in tree.body:
                self._decl(mod, st)

    def _decl(self, mod, st):
        if isinstance(st, (ast.FunctionDef, ast.AsyncFunctionDef)):
            if any(isinstance(d, ast.Attribute) and d.attr == "overload" or isinstance(d, ast.Name) and d.id == "overload" for d in st.decorator_list):
                return
            f = Fn(mod, None, st.name, st, "func")
            self.funcs[f.qual] = f
            self.module_funcs[mod][st.name] = f
        elif isinstance(st, ast.ClassDef):
            info = self.classes.setdefault(st.name, {"module": mod, "bases": [], "methods": {}, "modules": []})
            info["modules"].append(mod)
            for b in st.bases:
                n = b.attr if isinstance(b, ast.Attribute) else b.id if isinstance(b, ast.Name) else None
                if isinstance(b, ast.Subscript):
                    v = b.value
                    n = v.attr if isinstance(v, ast.Attribute) else v.id if isinstance(v, ast.Name) else None
                    if n in ("UserList", "UserDict", "Sequence", "Mapping", "MutableSequence", "MutableMapping", "Iterator", "Reversible", "Collection"):
                        self.container_elem.setdefault(st.name, []).extend(x for x in ann_class(b.slice) if x not in ("str", "int"))
                if n:
                    info["bases"].append(n)
            for it in st.body:
                if isinstance(it, (ast.FunctionDef, ast.AsyncFunctionDef)):
                    kind = "method"
                    for d in it.decorator_list:
                        if isinstance(d, ast.Name) and d.id in ("property", "cached_property") or isinstance(d, ast.Attribute) and d.attr in ("cached_property",):
                            kind = "getter"
                        elif isinstance(d, ast.Attribute) and d.attr == "setter":
                            kind = "setter"
                        elif isinstance(d, ast.Attribute) and d.attr == "deleter":
                            kind = "deleter"
                        elif isinstance(d, ast.Attribute) and d.attr == "overload" or isinstance(d, ast.Name) and d.id == "overload":
                            kind = None
                    if kind is None:
                        continue
                    f = Fn(mod, st.name, it.name, it, kind)
                    self.funcs[f.qual] = f
                    info["methods"].setdefault(it.name, []).append(f)
                    self._field_types(st.name, it)
                    tab = {"method": self.methods_by_name, "getter": self.getters_by_name, "setter": self.setters_by_name}.get(kind)
                    if tab is not None:
                        tab.setdefault(it.name, []).append(f)
                elif isinstance(it, ast.AnnAssign) and isinstance(it.target, ast.Name):
                    tab = self.field_ann.setdefault(st.name, {})
                    tab[it.target.id] = tab.get(it.target.id, []) + ann_class(it.annotation)
                elif isinstance(it, ast.Assign) and len(it.targets) == 1 and isinstance(it.targets[0], ast.Name):
                    # alias inside a class body:  __rmul__ = __mul__
                    if isinstance(it.value, ast.Name) and it.value.id in info["methods"]:
                        for f0 in info["methods"][it.value.id]:
                            f = Fn(mod, st.name, it.targets[0].id, f0.node, f0.kind)
                            info["methods"].setdefault(f.name, []).append(f)
                            self.methods_by_name.setdefault(f.name, []).append(f)
        elif isinstance(st, ast.Assign) and len(st.targets) == 1 and isinstance(st.targets[0], ast.Name):
            self.module_assign[mod][st.targets[0].id] = st.value
        elif isinstance(st, ast.If):
            for s in st.body + st.orelse:
                self._decl(mod, s)
        elif isinstance(st, ast.Try):
            for s in st.body:
                self._decl(mod, s)

    def _field_types(self, cls, fnode):
        anns = {a.arg: a.annotation for a in fnode.args.posonlyargs + fnode.args.args + fnode.args.kwonlyargs if a.annotation is not None}
        tab = self.field_ann.setdefault(cls, {})
        for n in ast.walk(fnode):
            tgt = val = ann = None
            if isinstance(n, ast.AnnAssign):
                tgt, val, ann = n.target, n.value, n.annotation
            elif isinstance(n, ast.Assign) and len(n.targets) == 1:
                tgt, val = n.targets[0], n.value
            if isinstance(tgt, ast.Attribute) and isinstance(tgt.value, ast.Name) and tgt.value.id == "self":
                names = None
                if ann is not None:
                    names = ann_class(ann)
                elif isinstance(val, ast.Name) and val.id in anns:
                    names = ann_class(anns[val.id])
                elif isinstance(val, ast.Constant):
                    names = [type(val.value).__name__ if val.value is not None else "None"]
                elif isinstance(val, (ast.List, ast.ListComp)):
                    names = ["list"]
                elif isinstance(val, (ast.Dict, ast.DictComp)):
                    names = ["dict"]
                elif isinstance(val, ast.JoinedStr):
                    names = ["str"]
                if names is None:
                    tab[tgt.attr] = tab.get(tgt.attr, []) + ["?"]
                else:
                    tab[tgt.attr] = tab.get(tgt.attr, []) + names

    def _imports(self, mod, tree):
        out = {}
        pkg_parts = mod.split(".")
        is_pkg = os.path.isdir(os.path.join(self.src_root, *pkg_parts))
        for n in ast.walk(tree):
            if isinstance(n, ast.Import):
                for a in n.names:
                    out[a.asname or a.name.split(".")[0]] = a.name if a.asname else a.name.split(".")[0]
            elif isinstance(n, ast.ImportFrom):
                if n.level:
                    basep = pkg_parts if is_pkg else pkg_parts[:-1]
                    basep = basep[: len(basep) - (n.level - 1)] if n.level > 1 else basep
                    m = ".".join(basep + ([n.module] if n.module else []))
                else:
                    m = n.module or ""
                for a in n.names:
                    out[a.asname or a.name] = f"{m}.{a.name}" if m else a.name
        return out

    # ---- class hierarchy helpers
    def family(self, cls):
        """cls, its ancestors and its descendants (the classes a `self` of static class cls may dispatch into)."""
        up, st = set(), [cls]
        while st:
            c = st.pop()
            if c in up:
                continue
            up.add(c)
            st.extend(self.classes.get(c, {}).get("bases", []))
        down, changed = {cls}, True
        while changed:
            changed = False
            for c, info in self.classes.items():
                if c not in down and any(b in down for b in info["bases"]):
                    down.add(c)
                    changed = True
        return up | down

    def lookup_methods(self, classes, name, kinds=("method",)):
        out = []
        for c in classes:
            for f in self.classes.get(c, {}).get("methods", {}).get(name, []):
                if f.kind in kinds:
                    out.append(f)
        return out

    def resolve_dotted(self, dotted):
        """dotted name -> ('fn', Fn) | ('class', name) | ('module', mod) | ('lib', dotted)"""
        seen = set()
        while dotted not in seen:
            seen.add(dotted)
            if dotted in self.modules:
                return ("module", dotted)
            if "." in dotted:
                m, n = dotted.rsplit(".", 1)
                if m in self.modules:
                    if n in self.module_funcs[m]:
                        return ("fn", self.module_funcs[m][n])
                    if n in self.classes and m in self.classes[n]["modules"]:
                        return ("class", n)
                    if n in self.imports[m]:
                        dotted = self.imports[m][n]
                        continue
                    if n in self.module_assign[m]:
                        v = self.module_assign[m][n]
                        d = dotted_name(v)
                        if d:
                            root = d.split(".")[0]
                            if root in self.module_funcs[m] or root in self.classes:
                                dotted = f"{m}.{d}"
                            elif root in self.imports[m]:
                                dotted = self.imports[m][root] + d[len(root):]
                            else:
                                return ("lib", dotted)
                            continue
                    return ("lib", dotted)
                # class attribute access  Module.Class.method
                r = self.resolve_dotted(m)
                if r[0] == "class":
                    ms = self.lookup_methods(self.family(r[1]), n, ("method", "getter"))
                    if ms:
                        return ("fns", ms)
                    return ("lib", dotted)
                if r[0] == "module":
                    return ("lib", dotted)
            break
        return ("lib", dotted)


def dotted_name(e):
    parts = []
    while isinstance(e, ast.Attribute):
        parts.append(e.attr)
        e = e.value
    if isinstance(e, ast.Name):
        parts.append(e.id)
        return ".".join(reversed(parts))
    return None


def ann_class(ann):
    """class names mentioned by an annotation (unions, Optional, quotes)."""
    out = []
    if ann is None:
        return out
    if isinstance(ann, ast.Constant) and isinstance(ann.value, str):
        try:
            return ann_class(ast.parse(ann.value, mode="eval").body)
        except SyntaxError:
            return out
    for n in ast.walk(ann):
        if isinstance(n, ast.Attribute):
            out.append(n.attr)
        elif isinstance(n, ast.Name):
            out.append(n.id)
        elif isinstance(n, ast.Constant) and isinstance(n.value, str) and n is not ann:
            try:
                out.extend(ann_class(ast.parse(n.value, mode="eval").body))
            except SyntaxError:
                pass
    return out


class Direct:
    """What one function body does by itself, and what it may call."""

    def __init__(self):
        self.fs = []            # (lineno, what)
        self.nondet = []
        self.writes = []        # (lineno, receiver description, attr, receiver-kind)
        self.callees = set()    # Fn
        self.formats = []       # (lineno, source of the formatted expression, static type or None)
        self.lib = {}           # dotted/lib description -> count
        self.unknown_methods = {}


SCALAR_LIB = {"str", "int", "float", "bool", "bytes", "bytearray", "complex", "ndarray", "dtype", "Path", "PathLike", "memoryview", "None",
              "Literal", "DTypeLike", "NDArray", "generic", "number", "integer", "floating", "uint8", "int8", "uint16", "int16", "uint32",
              "int32", "uint64", "int64", "float16", "float32", "float64", "bool_", "ArrayLike", "Number", "Real", "Integral", "SupportsIndex",
              "SupportsInt", "BufferedIOBase", "IOBase", "BinaryIO", "TextIO", "IO", "Pattern", "Match", "Logger", "slice"}
CONTAINER_LIB = {"list", "dict", "set", "tuple", "frozenset", "Sequence", "Mapping", "Iterable", "Collection", "Iterator", "MutableMapping",
                 "MutableSequence", "AbstractSet", "Optional", "Union", "List", "Dict", "Set", "Tuple", "FrozenSet", "Generator", "KeysView", "ValuesView", "ItemsView"}
PASSTHROUGH_ROOTS = ("copy.", "dataclasses.", "functools.", "itertools.", "contextlib.", "typing.", "operator.", "weakref.", "collections.",
                     "heapq.", "bisect.", "abc.", "types.", "inspect.", "builtins.", "typing_extensions.", "concurrent.", "threading.", "queue.")
LIB_RESULT_ROOTS = ("numpy.", "math.", "os.path.", "os.fspath", "struct.", "textwrap.", "re.", "json.", "hashlib.", "base64.")
LIB_TYPES = {"str", "int", "float", "bool", "bytes", "bytearray", "list", "dict", "set", "tuple", "frozenset", "Sequence", "Mapping", "Iterable",
             "Collection", "Any", "Callable", "Iterator", "MutableMapping", "MutableSequence", "None", "Optional", "Union", "ndarray", "dtype", "object",
             "Path", "PathLike", "Literal", "Self", "TypeVar", "Generic", "AbstractSet", "Hashable", "memoryview", "complex", "type", "Type"}


def lib_call_result(dotted):
    """static type of the result of calling a library function/class by dotted name."""
    full = "numpy" + dotted[2:] if dotted.startswith("np.") else dotted
    if full.split(".")[-1].endswith("Proto") or full.startswith("onnx.") and full.split(".")[-1][:1].isupper() and "helper" not in full:
        return ("proto", full)
    if full.startswith(PASSTHROUGH_ROOTS) or "." not in full:
        return None           # may hand back (a copy of / a wrapper around) one of its arguments
    return ("lib", full + "()")


BUILTIN_LIB_RESULT = {"open", "str", "int", "float", "bool", "bytes", "len", "repr", "format", "hash", "id", "abs", "round", "ord", "chr", "bytearray",
                      "isinstance", "issubclass", "hasattr", "callable", "range", "divmod", "pow", "hex", "oct", "bin", "complex", "memoryview"}


class Analyzer:
    def __init__(self, repo, proto_roots=("onnx",)):
        self.repo = repo
        self.cache = {}
        self.proto_roots = proto_roots

    def local_types(self, fn):
        """name -> set of repo class names (None = unknown) from annotations and constructor assignments."""
        types = {}
        node = fn.node
        args = node.args
        for a in args.posonlyargs + args.args + args.kwonlyargs + ([args.vararg] if args.vararg else []) + ([args.kwarg] if args.kwarg else []):
            cs = ann_class(a.annotation)
            types[a.arg] = self._classify(fn, cs)
        if fn.cls and (args.posonlyargs + args.args):
            first = (args.posonlyargs + args.args)[0].arg
            if first in ("self", "cls"):
                types[first] = ("repo", self.repo.family(fn.cls))
        for n in ast.walk(node):
            if isinstance(n, ast.AnnAssign) and isinstance(n.target, ast.Name):
                types.setdefault(n.target.id, self._classify(fn, ann_class(n.annotation)))
        return types

    def _classify(self, fn, names):
        """static type of an annotation: ('repo', classes) | ('proto', desc) | ('lib', desc) | None (unknown: Any, object, TypeVars...).
        'proto' and 'lib' are closed under attribute access, calls, subscripts and iteration (protobuf messages contain protobuf
        messages and scalars; str/int/bytes/ndarray and containers of them contain no IR object)."""
        repo_cls = set()
        scalar = proto = False
        other = False
        for c in names:
            if c in self.repo.classes:
                repo_cls |= self.repo.family(c)
            elif c.endswith("Proto") or c in ("RepeatedCompositeFieldContainer", "RepeatedScalarFieldContainer", "Dimension"):
                proto = True
            elif c in SCALAR_LIB:
                scalar = True
            elif c in CONTAINER_LIB or c in ("onnx", "np", "numpy", "typing", "npt", "proto_containers", "os", "collections", "abc"):
                continue
            elif c in self.repo.modules or any(m.endswith("." + c) for m in self.repo.modules):
                continue
            else:
                other = True
        if other and "onnx" in names and not repo_cls:
            other = False
            proto = True              # onnx.<Message> (TensorAnnotation, StringStringEntryProto, ...)
        if repo_cls:
            if any(c in CONTAINER_LIB for c in names):
                return ("cont", repo_cls)          # a library container of repository objects (and possibly scalars)
            return ("repo", repo_cls)
        if other:
            return None
        if proto:
            return ("proto", ",".join(names))
        if scalar:
            return ("lib", ",".join(names))
        return None

    def _resolve_name(self, fn, dotted):
        root = dotted.split(".")[0]
        rest = dotted[len(root):]
        mod = fn.module
        if root in self.repo.module_funcs[mod] and not rest:
            return ("fn", self.repo.module_funcs[mod][root])
        if root in self.repo.classes and mod in self.repo.classes[root]["modules"]:
            if not rest:
                return ("class", root)
            ms = self.repo.lookup_methods(self.repo.family(root), rest[1:], ("method", "getter"))
            return ("fns", ms) if ms else ("lib", dotted)
        if root in self.repo.imports[mod]:
            return self.repo.resolve_dotted(self.repo.imports[mod][root] + rest)
        if root in self.repo.module_assign[mod] and not rest:
            d = dotted_name(self.repo.module_assign[mod][root])
            if d and d != dotted:
                return self._resolve_name(fn, d)
        return None

    def direct(self, fn):
        if fn.qual in self.cache:
            return self.cache[fn.qual]
        d = Direct()
        self.cache[fn.qual] = d
        types = self.local_types(fn)
        ann_locals = set(types)
        file_vars = set()
        local_defs = {n.name for n in ast.walk(fn.node) if isinstance(n, (ast.FunctionDef, ast.AsyncFunctionDef)) and n is not fn.node}
        params = {a.arg for a in fn.node.args.posonlyargs + fn.node.args.args + fn.node.args.kwonlyargs}
        local_names = set(params)
        for n in ast.walk(fn.node):
            if isinstance(n, ast.Name) and isinstance(n.ctx, ast.Store):
                local_names.add(n.id)
            elif isinstance(n, ast.arg):
                local_names.add(n.arg)

        def add_methods(recv_type, name, kinds, lineno, what):
            if recv_type and recv_type[0] == "repo":
                fs = self.repo.lookup_methods(recv_type[1], name, kinds)
                for f in fs:
                    d.callees.add(f)
                return bool(fs)
            if recv_type and recv_type[0] in ("lib", "proto", "mod", "cont", "lcont"):
                return False
            if recv_type and recv_type[0] == "cls":
                fs = self.repo.lookup_methods(self.repo.family(recv_type[1]), name, kinds)
                for f in fs:
                    d.callees.add(f)
                return bool(fs)
            tab = {"method": self.repo.methods_by_name, "getter": self.repo.getters_by_name, "setter": self.repo.setters_by_name}
            hit = False
            for k in kinds:
                for f in tab[k].get(name, []):
                    d.callees.add(f)
                    hit = True
            return hit

        def ret_type(fns):
            """union of the return annotations of candidate callees; None when any is missing/unknown."""
            repo_cls, kinds = set(), set()
            for g in fns:
                if g.node.returns is None:
                    return None
                names = [x for x in ann_class(g.node.returns) if x != "None"]
                if "Self" in names and g.cls:
                    names = [x for x in names if x != "Self"] + [g.cls]
                if not names:
                    kinds.add("lib")
                    continue
                t = Analyzer._classify(self, g, names)
                if t is None:
                    return None
                if t[0] in ("repo", "cont"):
                    repo_cls |= t[1]
                kinds.add(t[0])
            if len(kinds) != 1:
                return None
            k = kinds.pop()
            return (k, repo_cls) if k in ("repo", "cont") else (k, "ret")

        CLOSED = ("proto", "lib")

        def elem_of(classes):
            """element classes when every class of the (non-protocol part of the) family is a container of repository objects."""
            out, n = set(), 0
            for c in classes:
                names = self.repo.container_elem.get(c)
                if names:
                    n += 1
                    for x in names:
                        if x in self.repo.classes:
                            out |= self.repo.family(x)
            return out if n else None

        def recv_type(e):
            if isinstance(e, ast.Name):
                if e.id in types and types[e.id] is not None:
                    return types[e.id]
                if e.id in types or e.id in local_names:
                    return None
                r = self._resolve_name(fn, e.id)
                if r and r[0] in ("module", "lib"):
                    return ("mod", r[1])
                if r and r[0] == "class":
                    return ("cls", r[1])
                return None
            if isinstance(e, ast.Call):
                f = e.func
                if isinstance(f, ast.Name) and f.id not in types and f.id not in local_names and self._resolve_name(fn, f.id) is None:
                    if f.id in BUILTIN_LIB_RESULT:
                        return ("lib", f.id + "()")
                    if f.id == "getattr" and e.args:
                        b = recv_type(e.args[0])
                        return b if b and b[0] == "proto" else None
                    if f.id == "super" and fn.cls:
                        return ("repo", self.repo.family(fn.cls))
                    if f.id in ("reversed", "sorted", "list", "tuple", "iter", "next", "enumerate", "zip", "min", "max", "set", "frozenset") and e.args:
                        b = recv_type(e.args[0])
                        if b and b[0] == "cont" and f.id in ("reversed", "sorted", "list", "tuple", "iter", "set", "frozenset"):
                            return b
                        if b and b[0] == "cont" and f.id in ("next", "min", "max"):
                            return ("repo", b[1])
                        return b if b and b[0] in CLOSED else None
                    return None
                dn = dotted_name(f)
                if dn and dn.split(".")[0] not in types and dn.split(".")[0] not in local_names:
                    r = self._resolve_name(fn, dn)
                    if r and r[0] == "class":
                        return ("repo", self.repo.family(r[1]))
                    if r and r[0] == "lib":
                        return lib_call_result(r[1])
                    if r and r[0] == "fn":
                        return ret_type([r[1]])
                    if r and r[0] == "fns":
                        return ret_type(r[1])
                if isinstance(f, ast.Attribute):
                    base = recv_type(f.value)
                    if base and base[0] == "repo":
                        ms = self.repo.lookup_methods(base[1], f.attr, ("method",))
                        if ms:
                            return ret_type(ms)
                        el = elem_of(base[1])
                        if el and f.attr in ("values", "get", "pop", "popitem", "setdefault", "copy", "items", "keys"):
                            return ("repo", el) if f.attr in ("get", "pop", "setdefault") else ("cont", el)
                        return None
                    if base and base[0] in CLOSED:
                        return (base[0], base[1] + "." + f.attr + "()")
                    if base and base[0] == "mod":
                        return lib_call_result(base[1] + "." + f.attr)
                    if base and base[0] == "cont":
                        if f.attr in ("values", "get", "pop", "popitem", "setdefault", "__getitem__", "copy", "items", "keys", "popleft"):
                            return ("repo", base[1]) if f.attr in ("get", "pop", "setdefault", "__getitem__", "popleft") else ("cont", base[1])
                        return None
                return None
            if isinstance(e, ast.Attribute):
                dn = dotted_name(e)
                if dn and dn.split(".")[0] not in types and dn.split(".")[0] not in local_names:
                    r = self._resolve_name(fn, dn)
                    if r and r[0] in ("module", "lib"):
                        return ("mod", r[1])
                    if r and r[0] == "class":
                        return ("cls", r[1])
                base = recv_type(e.value)
                if base and base[0] in CLOSED:
                    return (base[0], base[1] + "." + e.attr)
                if base and base[0] == "mod":
                    return ("mod", base[1] + "." + e.attr)
                if base and base[0] == "repo":
                    gs = self.repo.lookup_methods(base[1], e.attr, ("getter",))
                    names = []
                    for c in base[1]:
                        names += self.repo.field_ann.get(c, {}).get(e.attr, [])
                    tg = ret_type(gs) if gs else None
                    tf = self._classify(fn, [x for x in names if x != "None"]) if names and "?" not in names else None
                    if gs and not names:
                        return tg
                    if names and not gs:
                        return tf
                    if tg and tf and tg[0] == tf[0]:
                        return (tg[0], tg[1] | tf[1]) if tg[0] in ("repo", "cont") else tg
                    if tg and tf and tg[0] == "repo" and tf[0] == "cont" and elem_of(tg[1]):
                        return tg          # a repository container class (getter) implementing the protocol's Mapping/Sequence annotation
                return None
            if isinstance(e, ast.Subscript):
                base = recv_type(e.value)
                if base and base[0] == "cont":
                    return ("cont", base[1]) if isinstance(e.slice, ast.Slice) else ("repo", base[1])
                return base if base and base[0] in CLOSED else None
            if isinstance(e, ast.Constant) or isinstance(e, ast.JoinedStr):
                return ("lib", "literal")
            if isinstance(e, (ast.List, ast.Dict, ast.Set, ast.Tuple, ast.ListComp, ast.DictComp, ast.SetComp, ast.GeneratorExp)):
                return ("lcont", "literal container")      # a builtin container created here: its methods are library methods
            if isinstance(e, (ast.BinOp,)):
                a, b = recv_type(e.left), recv_type(e.right)
                return a if a and b and a[0] == "lib" and b[0] == "lib" else None
            if isinstance(e, ast.IfExp):
                a, b = recv_type(e.body), recv_type(e.orelse)
                return a if a and b and a[0] == b[0] and a[0] in CLOSED else None
            return None

        def store_kind(e):
            """where a stored-to object lives: 'out' = a protobuf message / library object rooted at a protobuf-typed name or at a
            local fresh container (never part of the IR); otherwise the static type kind of the receiver (an IR-side store)."""
            x = e
            while True:
                if isinstance(x, (ast.Attribute, ast.Subscript)):
                    x = x.value
                elif isinstance(x, ast.Call) and isinstance(x.func, ast.Attribute):
                    x = x.func.value
                else:
                    break
            rt = recv_type(e)
            if isinstance(x, ast.Name):
                root = types.get(x.id)
                if root and root[0] == "proto":
                    return "out"
                if root and root[0] in ("lcont", "lib") and x.id not in params:
                    return "out"
                if root is None and x.id not in local_names:
                    r = recv_type(x)
                    if r and r[0] in ("mod", "cls"):
                        return "global"
            elif isinstance(x, ast.Call):
                r = recv_type(x)
                if r and r[0] in ("proto", "lib", "lcont"):
                    return "out"
            return rt[0] if rt else None

        def dunder(e, names, lineno):
            rt = recv_type(e)
            if any(nm in DISPLAY for nm in names):
                if not (isinstance(e, ast.Constant) or (rt and rt[0] in ("lib", "proto", "mod", "cls", "lcont"))):
                    d.formats.append((lineno, ast.unparse(e), rt))
                    if rt and rt[0] == "repo":
                        for nm in names:
                            add_methods(rt, nm, ("method",), lineno, nm)
                names = [nm for nm in names if nm not in DISPLAY]
            for nm in names:
                add_methods(rt, nm, ("method",), lineno, nm)

        class W(ast.NodeVisitor):
            def visit_Call(w, n):  # noqa: N805
                f = n.func
                dn = dotted_name(f)
                handled = False
                if dn is not None:
                    root = dn.split(".")[0]
                    if isinstance(f, ast.Name):
                        if root in local_defs:
                            handled = True          # nested function: its body is part of this function's node
                        elif root in DUNDER_OF_BUILTIN and self._resolve_name(fn, dn) is None:
                            for a in n.args:
                                dunder(a, DUNDER_OF_BUILTIN[root], n.lineno)
                            if root == "open":
                                d.fs.append((n.lineno, "open()"))
                            if root == "setattr" and len(n.args) >= 2:
                                attr = n.args[1].value if isinstance(n.args[1], ast.Constant) else "<dynamic>"
                                d.writes.append((n.lineno, ast.unparse(n.args[0]), str(attr), (store_kind(n.args[0]),)))
                            handled = True
                        elif root == "open":
                            d.fs.append((n.lineno, "open()"))
                            handled = True
                    if not handled and not (isinstance(f, ast.Attribute) and root in types and root not in self.repo.imports[fn.module]) \
                            and not (root in params or root in ("self", "cls")):
                        r = self._resolve_name(fn, dn)
                        if r is not None:
                            handled = True
                            if r[0] == "fn":
                                d.callees.add(r[1])
                            elif r[0] == "fns":
                                for x in r[1]:
                                    d.callees.add(x)
                            elif r[0] == "class":
                                for nm in ("__init__", "__post_init__", "__new__", "__init_subclass__"):
                                    for x in self.repo.lookup_methods(self.repo.family(r[1]), nm):
                                        d.callees.add(x)
                            elif r[0] in ("lib", "module"):
                                full = r[1]
                                full = "numpy" + full[2:] if full.startswith("np.") else full
                                if full in FS_CALLS or full.startswith(FS_PREFIXES):
                                    d.fs.append((n.lineno, full + "()"))
                                elif full in NONDET_CALLS or full.startswith(NONDET_PREFIXES):
                                    d.nondet.append((n.lineno, full + "()"))
                                else:
                                    d.lib[full] = d.lib.get(full, 0) + 1
                                    if full in ARRAY_CALLS:
                                        for a in n.args[:1]:
                                            dunder(a, ["__array__", "__iter__", "__len__", "__getitem__"], n.lineno)
                if not handled:
                    if isinstance(f, ast.Attribute):
                        rt = recv_type(f.value)
                        name = f.attr
                        hit = add_methods(rt, name, ("method",), n.lineno, name)
                        # a property returning a callable, or a callable attribute
                        add_methods(rt, name, ("getter",), n.lineno, name)
                        if name in MUTATORS and not hit:
                            if store_kind(f.value) != "out":
                                d.writes.append((n.lineno, ast.unparse(f.value), f".{name}()", (store_kind(f.value),)))
                        if name in ("debug", "info", "warning", "error", "exception", "critical", "warn", "log") and not hit:
                            for a in n.args[1:]:
                                dunder(a, ["__str__", "__repr__", "__format__"], n.lineno)
                        if isinstance(f.value, ast.Name) and f.value.id in file_vars and name in ("read", "write", "close", "readinto", "seek"):
                            d.fs.append((n.lineno, f"{f.value.id}.{name}()"))
                        elif name in FS_METHODS and not (rt and rt[0] == "repo"):
                            d.fs.append((n.lineno, f"<{ast.unparse(f.value)[:40]}>.{name}()"))
                        elif not hit:
                            d.unknown_methods[name] = d.unknown_methods.get(name, 0) + 1
                    elif isinstance(f, ast.Name):
                        # a local variable / parameter holding a callable: cannot be resolved
                        d.unknown_methods[f"<callable {f.id}>"] = d.unknown_methods.get(f"<callable {f.id}>", 0) + 1
                    else:
                        d.unknown_methods["<computed callable>"] = d.unknown_methods.get("<computed callable>", 0) + 1
                w.generic_visit(n)

            def visit_With(w, n):  # noqa: N805
                for it in n.items:
                    ce = it.context_expr
                    if isinstance(ce, ast.Call) and dotted_name(ce.func) in ("open", "io.open") and isinstance(it.optional_vars, ast.Name):
                        file_vars.add(it.optional_vars.id)
                    rt = recv_type(ce)
                    add_methods(rt, "__enter__", ("method",), n.lineno, "__enter__")
                    add_methods(rt, "__exit__", ("method",), n.lineno, "__exit__")
                w.generic_visit(n)

            def visit_Attribute(w, n):  # noqa: N805
                if isinstance(n.ctx, ast.Load):
                    dn = dotted_name(n)
                    r = self._resolve_name(fn, dn) if dn else None
                    if r is None or r[0] not in ("fn", "class", "module", "lib", "fns"):
                        add_methods(recv_type(n.value), n.attr, ("getter",), n.lineno, n.attr)
                w.generic_visit(n)

            def _store(w, t, lineno):  # noqa: N805
                if isinstance(t, ast.Attribute):
                    rt = recv_type(t.value)
                    d.writes.append((lineno, ast.unparse(t.value), t.attr, (store_kind(t.value), rt[1] if rt and rt[0] == "repo" else None)))
                    add_methods(rt, t.attr, ("setter",), lineno, t.attr)
                elif isinstance(t, ast.Subscript):
                    rt = recv_type(t.value)
                    d.writes.append((lineno, ast.unparse(t.value), "[]", (store_kind(t.value),)))
                    add_methods(rt, "__setitem__", ("method",), lineno, "__setitem__")
                elif isinstance(t, (ast.Tuple, ast.List)):
                    for e in t.elts:
                        w._store(e, lineno)
                elif isinstance(t, ast.Starred):
                    w._store(t.value, lineno)

            def visit_Assign(w, n):  # noqa: N805
                for t in n.targets:
                    w._store(t, n.lineno)
                w.generic_visit(n)

            def visit_AugAssign(w, n):  # noqa: N805
                w._store(n.target, n.lineno)
                if isinstance(n.target, ast.Name):
                    dunder(n.target, ["__iadd__", "__ior__", "__imul__", "__isub__"], n.lineno)
                w.generic_visit(n)

            def visit_AnnAssign(w, n):  # noqa: N805
                if n.value is not None:
                    w._store(n.target, n.lineno)
                w.generic_visit(n)

            def visit_Delete(w, n):  # noqa: N805
                for t in n.targets:
                    if isinstance(t, ast.Attribute):
                        d.writes.append((n.lineno, ast.unparse(t.value), t.attr, (store_kind(t.value),)))
                    elif isinstance(t, ast.Subscript):
                        d.writes.append((n.lineno, ast.unparse(t.value), "[]", (store_kind(t.value),)))
                        add_methods(recv_type(t.value), "__delitem__", ("method",), n.lineno, "__delitem__")
                w.generic_visit(n)

            def visit_For(w, n):  # noqa: N805
                dunder(n.iter, ["__iter__", "__next__", "__len__", "__getitem__"], n.lineno)
                if isinstance(n.iter, ast.Name) and False:
                    pass
                w.generic_visit(n)

            def visit_comprehension(w, n):  # noqa: N805
                dunder(n.iter, ["__iter__", "__next__", "__len__", "__getitem__"], getattr(n.iter, "lineno", 0))
                w.generic_visit(n)

            def visit_Subscript(w, n):  # noqa: N805
                if isinstance(n.ctx, ast.Load):
                    dunder(n.value, ["__getitem__"], n.lineno)
                w.generic_visit(n)

            def visit_Compare(w, n):  # noqa: N805
                for op, right in zip(n.ops, n.comparators):
                    if isinstance(op, (ast.In, ast.NotIn)):
                        dunder(right, ["__contains__", "__iter__"], n.lineno)
                        dunder(n.left, ["__hash__", "__eq__"], n.lineno)
                    elif isinstance(op, (ast.Eq, ast.NotEq)):
                        dunder(n.left, ["__eq__", "__ne__"], n.lineno)
                        dunder(right, ["__eq__", "__ne__"], n.lineno)
                    elif isinstance(op, (ast.Lt, ast.LtE, ast.Gt, ast.GtE)):
                        dunder(n.left, ["__lt__", "__le__", "__gt__", "__ge__"], n.lineno)
                w.generic_visit(n)

            def visit_BinOp(w, n):  # noqa: N805
                nm = {ast.Add: "add", ast.Sub: "sub", ast.Mult: "mul", ast.FloorDiv: "floordiv", ast.Div: "truediv", ast.Mod: "mod",
                      ast.BitOr: "or", ast.BitAnd: "and", ast.Pow: "pow"}.get(type(n.op))
                if nm:
                    dunder(n.left, [f"__{nm}__"], n.lineno)
                    dunder(n.right, [f"__r{nm}__"], n.lineno)
                w.generic_visit(n)

            def visit_FormattedValue(w, n):  # noqa: N805
                if n.conversion == 114:
                    dunder(n.value, ["__repr__"], getattr(n, "lineno", 0))
                elif n.conversion == 115:
                    dunder(n.value, ["__str__", "__repr__"], getattr(n, "lineno", 0))
                else:
                    dunder(n.value, ["__format__", "__str__", "__repr__"], getattr(n, "lineno", 0))
                w.generic_visit(n)

            def visit_If(w, n):  # noqa: N805
                w._truth(n.test)
                w.generic_visit(n)

            def visit_While(w, n):  # noqa: N805
                w._truth(n.test)
                w.generic_visit(n)

            def visit_IfExp(w, n):  # noqa: N805
                w._truth(n.test)
                w.generic_visit(n)

            def _truth(w, e):  # noqa: N805
                if isinstance(e, (ast.Name, ast.Attribute, ast.Subscript)):
                    dunder(e, ["__bool__", "__len__"], getattr(e, "lineno", 0))
                elif isinstance(e, ast.UnaryOp) and isinstance(e.op, ast.Not):
                    w._truth(e.operand)
                elif isinstance(e, ast.BoolOp):
                    for v in e.values:
                        w._truth(v)

        # flow-insensitive local typing: a variable all of whose bindings have a known static type gets their union; 3 rounds for chains
        def bind(assigned, target, t, value=None):
            if isinstance(target, ast.Name):
                if t is None and value is not None and any(isinstance(x, ast.Name) and x.id == target.id for x in ast.walk(value)):
                    t = ("self-derived",)
                assigned.setdefault(target.id, []).append(t)
            elif isinstance(target, (ast.Tuple, ast.List)):
                for x in target.elts:
                    bind(assigned, x, t if t and t[0] in CLOSED else None)
            elif isinstance(target, ast.Starred):
                bind(assigned, target.value, t if t and t[0] in CLOSED else None)

        for _round in range(3):
            assigned = {}
            for n in ast.walk(fn.node):
                if isinstance(n, ast.Assign):
                    t = recv_type(n.value)
                    if isinstance(n.value, ast.Constant) and n.value.value is None:
                        continue
                    for tg in n.targets:
                        bind(assigned, tg, t, n.value)
                elif isinstance(n, ast.AnnAssign) and n.value is not None:
                    if not (isinstance(n.value, ast.Constant) and n.value.value is None):
                        bind(assigned, n.target, recv_type(n.value))
                elif isinstance(n, ast.AugAssign):
                    if isinstance(n.target, ast.Name):
                        assigned.setdefault(n.target.id, []).append(("self-derived",))
                elif isinstance(n, ast.NamedExpr):
                    bind(assigned, n.target, recv_type(n.value))
                elif isinstance(n, (ast.For, ast.comprehension)):
                    it = recv_type(n.iter)
                    if it and it[0] == "cont" and isinstance(n.target, ast.Name):
                        bind(assigned, n.target, ("repo", it[1]))
                    elif it and it[0] == "repo" and isinstance(n.target, ast.Name) and elem_of(it[1]) and not self.repo.lookup_methods(it[1], "__iter__"):
                        bind(assigned, n.target, ("repo", elem_of(it[1])))
                    else:
                        bind(assigned, n.target, it if it and it[0] in CLOSED else None)
                elif isinstance(n, ast.withitem) and n.optional_vars is not None:
                    bind(assigned, n.optional_vars, None)
                elif isinstance(n, ast.ExceptHandler) and n.name:
                    assigned.setdefault(n.name, []).append(("lib", "exception"))
                elif isinstance(n, (ast.Import, ast.ImportFrom)):
                    for al in n.names:
                        assigned.setdefault(al.asname or al.name.split(".")[0], []).append(None)
            for k, ts in assigned.items():
                if k in params:
                    continue
                if any(t is None or t[0] in ("mod", "cls", "cont") for t in ts) and not all(t is not None and t[0] in ("cont", "self-derived") for t in ts):
                    types.pop(k, None) if k not in ann_locals else None
                    continue
                kinds = {t[0] for t in ts}
                if "self-derived" in kinds:
                    kinds.discard("self-derived")
                    ts = [t for t in ts if t[0] != "self-derived"]
                    if not (len(kinds) == 1 and next(iter(kinds)) in CLOSED):
                        types.pop(k, None) if k not in ann_locals else None
                        continue
                if kinds == {"cont"}:
                    rc = set()
                    for t in ts:
                        rc |= t[1]
                    types[k] = ("cont", rc)
                elif kinds == {"repo"}:
                    rc = set()
                    for t in ts:
                        rc |= t[1]
                    types[k] = ("repo", rc)
                elif len(kinds) == 1:
                    types[k] = (kinds.pop(), "local")
        d.types = dict(types)
        d.recv_type = recv_type
        W().visit(fn.node)
        return d


def check_contract(repo, roots, *, forbid_fs=True, forbid_nondet=False, allowed_writes=None, stop=None, assume_pure=(), cut=()):
    """Modular check of one effect contract on every function reachable from `roots`.
    allowed_writes: None = not checked; else callable(fn, lineno, receiver_src, attr, recv_type) -> bool
    stop: callable(Fn) -> bool, functions treated as trusted leaves (reported)
    Returns dict(functions=[...], obligations=[(name, ok, detail)], assumptions={...})"""
    an = Analyzer(repo)
    seen, order, st = {}, [], list(roots)
    parent = {}
    trusted = []
    used_cuts = set()
    while st:
        f = st.pop()
        if f.qual in seen:
            continue
        if stop and stop(f):
            if f.qual not in trusted:
                trusted.append(f.qual)
            continue
        if any(f.qual.startswith(p) for p in assume_pure):
            if f.qual not in trusted:
                trusted.append(f.qual)
            continue
        seen[f.qual] = f
        order.append(f)
        d = an.direct(f)
        for c in sorted(d.callees, key=lambda x: x.qual):
            hit = next((k for k in cut if k[0] == f.qual and (k[1] == c.qual or k[1] == c.name)), None)
            if hit:
                used_cuts.add(hit)
                continue
            if c.qual not in seen:
                parent.setdefault(c.qual, f.qual)
                st.append(c)

    def chain(q):
        out = [q]
        while out[-1] in parent:
            out.append(parent[out[-1]])
        return " <- ".join(out[:8])
    obligations, lib, unknown = [], {}, {}
    for f in order:
        d = an.direct(f)
        if forbid_fs:
            ok = not d.fs
            obligations.append((f"fs-free/{f.qual}", ok, "" if ok else "; ".join(f"line {ln}: {w}" for ln, w in d.fs) + f"  [reached via {chain(f.qual)}]"))
        if forbid_nondet:
            ok = not d.nondet
            obligations.append((f"deterministic/{f.qual}", ok, "" if ok else "; ".join(f"line {ln}: {w}" for ln, w in d.nondet) + f"  [reached via {chain(f.qual)}]"))
        if allowed_writes is not None:
            bad = [(ln, r, a) for (ln, r, a, rt) in d.writes if not allowed_writes(f, ln, r, a, rt)]
            ok = not bad
            obligations.append((f"frame/{f.qual}", ok, "" if ok else "; ".join(f"line {ln}: store to {r}.{a}" for ln, r, a in bad) + f"  [reached via {chain(f.qual)}]"))
        for k, v in d.lib.items():
            lib[k] = lib.get(k, 0) + v
        for k, v in d.unknown_methods.items():
            unknown[k] = unknown.get(k, 0) + v
    return {"functions": [f.qual for f in order], "fns": order, "analyzer": an, "obligations": obligations, "trusted": trusted,
            "cut_edges": [f"{a} -/-> {b}: {why}" for (a, b, why) in cut if (a, b, why) in used_cuts],
            "unused_cuts": [f"{a} -/-> {b}" for (a, b, why) in cut if (a, b, why) not in used_cuts],
            "assumed_library_calls": dict(sorted(lib.items())), "unresolved_method_names": dict(sorted(unknown.items()))}
