"""Statement semantics. ex(stmts, path) -> list of (path, outcome).

outcome: ('next',) | ('return', V) | ('raise', Exc) | ('break',) | ('continue',)
"""
from __future__ import annotations

import ast
import z3

from .core import Exc, Frame, Path, Unsupported, exc_isinstance
from .types import *  # noqa: F401,F403
from .types import (BOOL, INT, NULL, TInt, TMap, TOpt, TRef, TSeq, TTup, V, VBool, VClass, VFunc, VInt, VMap, VNone,
                    VOpaque, VOpt, VRec, VRef, VSeq, VSet, VStr, VTup, coerce, fresh_name, val_eq)

NEXT = ("next",)


class LoopSpec:
    def __init__(self, invariant=(), modifies=None, unroll=None, note="", elem=None, fresh_boxes=False, body_end=None):
        self.body_end = body_end     # callback(engine, path, loop statement) at the end of every body path of a loop over an unmodelled iterable
        self.fresh_boxes = fresh_boxes   # containers allocated since function entry may change freely; older ones are framed
        self.elem = elem             # element type of the list built by an effectful comprehension
        self.invariant = list(invariant)
        self.modifies = modifies     # None: havoc whole heap; else list of 'Class.field' / '$alloc'
        self.unroll = unroll
        self.note = note


class StmtMixin:
    def ex(self, stmts, p: Path):
        """Execute a statement list."""
        res = [(p, NEXT)]
        for s in stmts:
            nxt = []
            for q, oc in res:
                if oc is NEXT:
                    nxt.extend(self.ex1(s, q))
                else:
                    nxt.append((q, oc))
            res = nxt
            if len(res) > self.max_paths:
                raise Unsupported(f"more than {self.max_paths} paths")
        return res

    def ex1(self, s, p: Path):
        m = getattr(self, "ex_" + type(s).__name__, None)
        if m is None:
            raise Unsupported(f"statement {type(s).__name__} at L{s.lineno}")
        fn = p.frame.fn
        if fn is not None and (fn.mod is not None or getattr(fn, "cover_fqn", None)):
            p.stmts.add((fn.fqn if fn.mod is not None else fn.cover_fqn, s.lineno))
        ghost = getattr(fn, "ghost", None) if fn is not None else None
        if not ghost:
            return m(s, p)
        keys = self._stmt_keys(s)
        before = [g for g in ghost if g[0] in keys and g[1] == "before"]
        after = [g for g in ghost if g[0] in keys and g[1] == "after"]
        if not before and not after:
            return m(s, p)
        for g in before:
            self.run_ghost(p, g[2])
            fn._ghost_hits.add((g[0], g[1]))
        res = m(s, p)
        for q, oc in res:
            if oc is NEXT:
                for g in after:
                    self.run_ghost(q, g[2])
                    fn._ghost_hits.add((g[0], g[1]))
        return res

    def _stmt_keys(self, s):
        """All anchors a statement answers to: its text, `store:<target>` for (augmented) assignments and
        `call:<callee>` for expression-statement calls (robust against edits of the right-hand side)."""
        keys = {self._stmt_key(s)}
        if isinstance(s, ast.Assign):
            keys |= {"store:" + ast.unparse(t) for t in s.targets}
        elif isinstance(s, (ast.AugAssign, ast.AnnAssign)):
            keys.add("store:" + ast.unparse(s.target))
        elif isinstance(s, ast.Expr) and isinstance(s.value, ast.Call):
            keys.add("call:" + ast.unparse(s.value.func))
        return keys

    def _stmt_key(self, s):
        """Ghost code is anchored by the (normalised) source text of a simple statement, or by the header of a
        compound one - not by line numbers, so unrelated edits do not detach it."""
        if isinstance(s, (ast.If, ast.While)):
            return type(s).__name__.lower() + " " + ast.unparse(s.test)
        if isinstance(s, ast.For):
            return "for " + ast.unparse(s.target) + " in " + ast.unparse(s.iter)
        if isinstance(s, (ast.With, ast.Try, ast.FunctionDef)):
            return type(s).__name__.lower()
        return ast.unparse(s)

    def run_ghost(self, p: Path, code: str):
        """Ghost statements: assignments to ghost locals (names starting with g_), evaluated in spec mode (no
        forking, no effects on the program heap or program variables)."""
        tree = self._ghost_cache.get(code)
        if tree is None:
            tree = self._ghost_cache[code] = ast.parse(code).body
        for st in tree:
            ok = isinstance(st, ast.Assign) and len(st.targets) == 1
            tgt = st.targets[0] if ok else None
            if not ok or not ((isinstance(tgt, ast.Name) and tgt.id.startswith("g_")) or
                              (isinstance(tgt, ast.Attribute) and tgt.attr.startswith("g_"))):
                raise Unsupported("ghost code may only assign ghost locals g_* or ghost fields obj.g_*")
            env = dict(self.ghost_env)
            for k in list(p.frame.locals):
                if k.startswith("$k"):
                    env["g_k"] = p.frame.locals[k]
            v = self.spec_val(st.value, p, env)
            if isinstance(tgt, ast.Name):
                home = next((f for f in reversed(p.frames) if tgt.id in f.locals), p.frame)
                home.locals[tgt.id] = v
            else:
                obj = self.spec_val(tgt.value, p, env)
                self.write_field(p, obj, tgt.attr, v)

    _ghost_cache: dict = {}
    ghost_env: dict = {}

    def lift(self, results, f):
        """results from ev: (p, V|Exc) -> outcomes; f(p, v) -> list[(p, outcome)]."""
        out = []
        for p, v in results:
            if isinstance(v, Exc):
                out.append((p, ("raise", v)))
            else:
                out.extend(f(p, v))
        return out

    # ---------------------------------------------------------------- simple statements
    def ex_Pass(self, s, p):
        return [(p, NEXT)]

    def ex_Global(self, s, p):
        return [(p, NEXT)]

    ex_Nonlocal = ex_Global
    ex_Import = ex_Global
    ex_ImportFrom = ex_Global

    def ex_Expr(self, s, p):
        if isinstance(s.value, ast.Constant):
            return [(p, NEXT)]
        if isinstance(s.value, (ast.Yield, ast.YieldFrom)):
            return self.ex_yield(s.value, p)
        return self.lift(self.ev(s.value, p), lambda q, v: [(q, NEXT)])

    def ex_yield(self, node, p):
        """`yield v` in a generator under an iterator contract: (1) the yield obligations must hold, (2) ghost
        update, (3) the consumer and any other code run: the heap is havocked subject to the rely condition."""
        fn = p.frame.fn
        ys = getattr(fn, "yield_spec", None)
        if ys is None or isinstance(node, ast.YieldFrom):
            raise Unsupported("yield outside an iterator contract")

        def k(q, v):
            env = {"yielded": v}
            for i, sp in enumerate(ys.get("ensures", [])):
                goal = self.spec_bool(sp, q, env)
                self.oblige(q, goal, "yield", f"L{node.lineno}#{i}")
                q.assume(goal)
            if ys.get("ghost"):
                self.run_ghost(q, ys["ghost"])
            pre = (dict(q.heap), q.epoch)
            self.havoc_for_spec(q, ys.get("modifies"))
            q.old_heaps.append(pre)
            for sp in ys.get("rely", []):
                q.assume(self.spec_bool(sp, q, env))
            q.old_heaps.pop()
            q.ghost["$yields"] = q.ghost.get("$yields", 0) + 1
            return [(q, NEXT)]
        if node.value is None:
            return k(p, VNone())
        return self.lift(self.ev(node.value, p), k)

    def ex_Return(self, s, p):
        if s.value is None:
            return [(p, ("return", VNone()))]
        return self.lift(self.ev(s.value, p), lambda q, v: [(q, ("return", v))])

    def ex_Raise(self, s, p):
        if s.exc is None:
            cur = p.ghost.get("$handling")
            return [(p, ("raise", cur or Exc("Exception", f"L{s.lineno}")))]
        e = s.exc
        name = None
        if isinstance(e, ast.Call):
            f = e.func
            name = f.id if isinstance(f, ast.Name) else f.attr if isinstance(f, ast.Attribute) else None
        elif isinstance(e, ast.Name):
            name = e.id
            v = p.frame.lookup(name)
            if isinstance(v, VOpaque) and v.what.startswith("exc:"):
                name = v.what[4:]
        if name is None:
            raise Unsupported(f"raise of non-class expression at L{s.lineno}")
        return [(p, ("raise", Exc(name, f"L{s.lineno}")))]

    def ex_Assert(self, s, p):
        def k(q, v):
            t = self.truth(v, q)
            if self.assert_mode == "raise":
                pt, pf = self.fork(q, t, f"assert L{s.lineno}")
                out = []
                if pt is not None:
                    out.append((pt, NEXT))
                if pf is not None:
                    out.append((pf, ("raise", Exc("AssertionError", f"L{s.lineno}"))))
                return out
            self.oblige(q, t, "assert", f"L{s.lineno}")
            q.assume(t)
            return [(q, NEXT)]
        return self.lift(self.ev(s.test, p), k)

    assert_mode = "oblige"   # asserts in verified code must hold; 'raise' treats them as raise sites

    def ex_Delete(self, s, p):
        res = [(p, NEXT)]
        for t in s.targets:
            nxt = []
            for q, oc in res:
                if oc is not NEXT:
                    nxt.append((q, oc))
                    continue
                if isinstance(t, ast.Subscript):
                    nxt.extend(self.lift(self.ev_list([t.value, t.slice] if not isinstance(t.slice, ast.Slice) else [t.value], q),
                                         lambda q2, vs, t=t: self.del_item(q2, vs[0], vs[1] if len(vs) > 1 else None, t)))
                elif isinstance(t, ast.Name):
                    q.frame.locals.pop(t.id, None)
                    nxt.append((q, NEXT))
                else:
                    raise Unsupported(f"del target {type(t).__name__}")
            res = nxt
        return res

    # ---------------------------------------------------------------- assignment
    def ex_Assign(self, s, p):
        if isinstance(s.value, ast.List):
            self.pending_list_hint = self._list_hint_for(s.targets[0], p)

        def k(q, v):
            res = [(q, NEXT)]
            for t in s.targets:
                nxt = []
                for q2, oc in res:
                    nxt.extend(self.assign(t, v, q2) if oc is NEXT else [(q2, oc)])
                res = nxt
            return res
        return self.lift(self.ev(s.value, p), k)

    def _list_hint_for(self, target, p):
        if isinstance(target, ast.Name) and p.frame.fn is not None:
            return p.frame.fn.local_types.get(target.id)
        return None

    def ex_AnnAssign(self, s, p):
        if s.value is None:
            return [(p, NEXT)]
        if isinstance(s.value, ast.List):
            self.pending_list_hint = self._list_hint_for(s.target, p)
        return self.lift(self.ev(s.value, p), lambda q, v: self.assign(s.target, v, q))

    def ex_AugAssign(self, s, p):
        load = ast.copy_location(_to_load(s.target), s.target)

        def k(q, vs):
            cur, rhs = vs
            r = self.aug_special(s, q, cur, rhs)
            if r is not None:
                return r
            return self.lift(self.deopt(q, [cur, rhs], f"L{s.lineno}", lambda q3, un: self.binop(s.op, un[0], un[1], q3, s)),
                             lambda q2, v: self.assign(s.target, v, q2))
        return self.lift(self.ev_list([load, s.value], p), k)

    def aug_special(self, s, p, cur, rhs):
        return None

    def assign(self, target, v: V, p: Path):
        if isinstance(target, ast.Name):
            ty = p.frame.fn.local_types.get(target.id) if p.frame.fn is not None else None
            p.frame_for_store(target.id).locals[target.id] = v if ty is None else self._coerce_local(p, v, ty)
            return [(p, NEXT)]
        if isinstance(target, (ast.Tuple, ast.List)):
            items = self.unpack(v, len(target.elts), p)
            if isinstance(items, Exc):
                return [(p, ("raise", items))]
            res = [(p, NEXT)]
            for t, it in zip(target.elts, items):
                nxt = []
                for q, oc in res:
                    nxt.extend(self.assign(t, it, q) if oc is NEXT else [(q, oc)])
                res = nxt
            return res
        if isinstance(target, ast.Attribute):
            return self.lift(self.ev(target.value, p), lambda q, obj: self.set_attr(q, obj, target.attr, v, target))
        if isinstance(target, ast.Subscript):
            if isinstance(target.slice, ast.Slice):
                return self.lift(self.ev(target.value, p), lambda q, obj: self.set_slice(q, obj, target.slice, v, target))
            return self.lift(self.ev_list([target.value, target.slice], p),
                             lambda q, vs: self.set_item(q, vs[0], vs[1], v, target))
        raise Unsupported(f"assignment target {type(target).__name__}")

    def _coerce_local(self, p, v, ty):
        try:
            return self.adapt(p, v, ty)
        except TypeError:
            return v

    def unpack(self, v: V, n: int, p: Path):
        if isinstance(v, VOpaque):
            return [VOpaque("part of " + v.what) for _ in range(n)]
        if isinstance(v, VTup):
            if len(v.items) != n:
                return Exc("ValueError", "unpack")
            return v.items
        if isinstance(v, VRec):
            vals = [v.fields[f] for f, _ in v.ty.fields]
            if len(vals) != n:
                return Exc("ValueError", "unpack")
            return vals
        if isinstance(v, VSeq):
            p.assume(v.len == n)   # obligation-free: callers only unpack fixed-size results
            self.assumptions_used.add("unpacking a symbolic sequence assumes its length matches the target count")
            return [v.at(z3.IntVal(i)) for i in range(n)]
        raise Unsupported(f"unpack {v!r}")

    def set_attr(self, p: Path, obj: V, name: str, v: V, node):
        w = f"L{node.lineno}"
        if isinstance(obj, VRef):
            if obj.cls is None:
                raise Unsupported(f"attribute store on untyped ref at {w}")

            def ok(q):
                m = self.find_method(obj.cls, name)
                if m is not None and ("setter" in m[1] or "getter" in m[1]):
                    owner, kinds = m
                    # find the class providing the setter
                    for c in self.mro(obj.cls):
                        d = self.classes[c]
                        if d.methods and "setter" in d.methods.get(name, []):
                            fn = self.fn_for(c, name, "setter")
                            return [(q2, NEXT if not isinstance(r, Exc) else ("raise", r))
                                    for q2, r in self.call_fn(q, fn, [obj, v], {}, node)]
                    return [(q, ("raise", Exc("AttributeError", w)))]
                if self.field_decl(obj.cls, name) is None:
                    r = self.setattr_extra(q, obj, name, v, node)
                    if r is not None:
                        return r
                    if self.classes[obj.cls].mod is not None:
                        # undeclared slot: its reads are arbitrary anyway, so the store carries no information
                        return [(q, NEXT)]
                    raise Unsupported(f"store to undeclared field {obj.cls}.{name} at {w}")
                self.on_field_store(q, obj, name, v, node)
                self.write_field(q, obj, name, self._fix_unknown_box(q, obj.cls, name, v))
                return [(q, NEXT)]
            pt, pf = self.fork(p, obj.z == NULL, f"None.attr {w}")
            out = []
            if pt is not None:
                out.append((pt, ("raise", Exc("AttributeError", w))))
            if pf is not None:
                out.extend(ok(pf))
            return out
        if isinstance(obj, VOpaque):
            self.mark_dirty(p, f"attribute store .{name} on an unmodelled object at {w}")
            return [(p, NEXT)]
        raise Unsupported(f"attribute store on {obj!r} at {w}")

    def setattr_extra(self, p, obj, name, v, node):
        return None

    def on_field_store(self, p, obj, name, v, node):
        """Hook: frame / effect tracking."""
        ws = p.ghost.get("$writes")
        if ws is not None:
            p.ghost["$writes"] = ws + [(obj, name, f"L{node.lineno}")]

    def _fix_unknown_box(self, p, cls, fname, v):
        """`self.data = []`: an empty literal of unknown element type takes the declared field type."""
        if isinstance(v, VRef) and v.cls in ("list[?]", "dict[?]", "set[?]", "counter[?]"):
            _, ty = self.heap_key(cls, fname)
            if isinstance(ty, TRef) and ty.cls and ty.cls in self.classes and self.classes[ty.cls].box:
                return self.retag_box(p, v, ty.cls)
        return v

    def retag_box(self, p, v: VRef, newcls: str):
        """Give an empty box literal its element type: it is empty, so only its class tag is decided now."""
        d = self.classes[newcls]
        # the object was allocated with the placeholder class id; re-allocate a fresh one of the right class
        r = self.new_object(p, newcls, d.box[0])
        fty = d.fields["$v"]
        if d.box[0] == "list":
            init = VSeq.empty(fty.elem)
        elif d.box[0] == "dict":
            init = VMap.empty(fty)
        elif d.box[0] == "set":
            init = VSet.empty(fty.elem)
        else:
            from .types import VBag
            init = VBag.empty(fty.elem)
        self.write_field(p, r, "$v", init)
        return r

    # ---------------------------------------------------------------- control flow
    def ex_If(self, s, p):
        def k(q, c):
            t = self.truth(c, q)
            pt, pf = self.fork(q, t, f"if L{s.lineno}")
            out = []
            if pt is not None:
                out.extend(self.ex(s.body, pt))
            if pf is not None:
                out.extend(self.ex(s.orelse, pf))
            return out
        return self.lift(self.ev(s.test, p), k)

    def ex_Break(self, s, p):
        return [(p, ("break",))]

    def ex_Continue(self, s, p):
        return [(p, ("continue",))]

    def ex_FunctionDef(self, s, p):
        p.frame.locals[s.name] = VFunc("closure", (s, p.frame), s.name)
        return [(p, NEXT)]

    def ex_With(self, s, p):
        if len(s.items) != 1:
            raise Unsupported("with: several items")
        return self.with_stmt(s, s.items[0], p)

    def with_stmt(self, s, item, p):
        """Default: context managers known by name; see CallMixin.with_enter/with_exit."""
        def k(q, cm):
            ent = self.with_enter(q, cm, item, s)
            out = []
            for q2, r in ent:
                if isinstance(r, Exc):
                    out.append((q2, ("raise", r)))
                    continue
                if item.optional_vars is not None:
                    a = self.assign(item.optional_vars, r, q2)
                else:
                    a = [(q2, NEXT)]
                for q3, oc in a:
                    if oc is not NEXT:
                        out.append((q3, oc))
                        continue
                    for q4, oc2 in self.ex(s.body, q3):
                        out.extend(self.with_exit(q4, cm, oc2, s))
            return out
        return self.lift(self.ev(item.context_expr, p), k)

    def ex_Try(self, s, p):
        def run_finally(results):
            if not s.finalbody:
                return results
            out = []
            for q, oc in results:
                saved = q.ghost.get("$handling")
                for q2, oc2 in self.ex(s.finalbody, q):
                    out.append((q2, oc if oc2 is NEXT else oc2))
                    q2.ghost["$handling"] = saved
            return out

        body = self.ex(s.body, p)
        after = []
        for q, oc in body:
            if oc[0] == "raise":
                exc = oc[1]
                handled = False
                for h in s.handlers:
                    names = self._handler_names(h)
                    if names is None or any(exc_isinstance(exc.cls, n) for n in names):
                        handled = True
                        if h.name:
                            q.frame.locals[h.name] = VOpaque("exc:" + exc.cls)
                        q.ghost["$handling"] = exc
                        for q2, oc2 in self.ex(h.body, q):
                            q2.ghost["$handling"] = None
                            after.append((q2, oc2))
                        break
                    if exc.cls == "AnyException" or (any(exc_isinstance(n, exc.cls) for n in names) and exc.cls in ("Exception", "BaseException", "OSError")):
                        # an abstract exception (from an opaque callee) may or may not match: fork
                        b = z3.Bool(fresh_name("exc_matches"))
                        qt, qf = self.fork(q, b, f"except L{h.lineno}")
                        if qt is not None:
                            qt.ghost["$handling"] = exc
                            for q2, oc2 in self.ex(h.body, qt):
                                q2.ghost["$handling"] = None
                                after.append((q2, oc2))
                        if qf is None:
                            handled = True
                            break
                        q = qf
                if not handled:
                    after.append((q, oc))
            elif oc is NEXT and s.orelse:
                after.extend(self.ex(s.orelse, q))
            else:
                after.append((q, oc))
        return run_finally(after)

    def _handler_names(self, h):
        if h.type is None:
            return None
        ts = h.type.elts if isinstance(h.type, ast.Tuple) else [h.type]
        out = []
        for t in ts:
            out.append(t.id if isinstance(t, ast.Name) else t.attr if isinstance(t, ast.Attribute) else "Exception")
        return out

    # ---------------------------------------------------------------- loops
    def loop_spec(self, node, p: Path):
        fn = p.frame.fn
        if fn is None:
            return None, None
        ids = self.loop_ordinals(fn)
        k = ids.get(id(node))
        # a loop contract may be keyed by the loop header's text (robust against loops added or removed elsewhere in the
        # function) or by the loop's preorder ordinal
        hdr = getattr(fn, "_loop_headers", {}).get(id(node))
        if hdr is not None and hdr in fn.loops:
            return fn.loops[hdr], k
        return fn.loops.get(k), k

    @staticmethod
    def loop_header(n):
        if isinstance(n, ast.While):
            return "while " + ast.unparse(n.test)
        if isinstance(n, ast.For):
            return f"for {ast.unparse(n.target)} in {ast.unparse(n.iter)}"
        g = n.generators[0]
        return f"for {ast.unparse(g.target)} in {ast.unparse(g.iter)}"

    def loop_ordinals(self, fn):
        if getattr(fn, "_loop_ids", None) is None:
            ids, hdrs, k = {}, {}, 0
            root = fn.extracted().node if fn.mod else fn.node
            for n in _preorder(root):
                if isinstance(n, (ast.For, ast.While, ast.ListComp, ast.GeneratorExp, ast.SetComp, ast.DictComp)):
                    ids[id(n)] = k
                    hdrs[id(n)] = self.loop_header(n)
                    k += 1
            fn._loop_ids = ids
            fn._loop_headers = hdrs
            self._reanchor_loops(fn, ids, hdrs)
            missing = [key for key in fn.loops if isinstance(key, str) and key not in hdrs.values()]
            if missing:
                raise Unsupported(f"loop anchor not found in {getattr(fn, 'qual', fn.fqn)}: {missing[0]!r} (the code changed shape; "
                                  "the loop contract must be re-anchored)")
        return fn._loop_ids

    _recorded_loops = None

    def _reanchor_loops(self, fn, ids, hdrs):
        """Ordinal-keyed loop contracts follow their loop: contracts/loop_headers.json records, for the tree the contracts
        were written against, the header text of every loop of every function under contract.  When the loop that now has
        ordinal k carries a different header, the contract moves to the loop that carries the recorded header (the j-th
        one if the header occurs several times); if there is none the target is unsupported (re-anchor), never silently
        checked against the wrong loop."""
        import json
        import os
        path = os.path.join(os.path.dirname(os.path.dirname(os.path.abspath(__file__))), "contracts", "loop_headers.json")
        cur = [hdrs[i] for i, _k in sorted(ids.items(), key=lambda kv: kv[1])]
        rec_path = os.environ.get("PYVC_RECORD_LOOPS")
        if rec_path and fn.loops and getattr(fn, "fqn", None):
            try:
                data = json.load(open(rec_path))
            except Exception:  # noqa: BLE001
                data = {}
            data[fn.fqn] = cur
            json.dump(data, open(rec_path, "w"), indent=1, sort_keys=True)
            return
        if StmtMixin._recorded_loops is None:
            try:
                StmtMixin._recorded_loops = json.load(open(path))
            except Exception:  # noqa: BLE001
                StmtMixin._recorded_loops = {}
        rec = StmtMixin._recorded_loops.get(getattr(fn, "fqn", None))
        if not rec or not any(isinstance(k, int) for k in fn.loops):
            return
        moved = {}
        for k, spec in list(fn.loops.items()):
            if not isinstance(k, int) or k >= len(rec):
                continue
            h = rec[k]
            if k < len(cur) and cur[k] == h:
                continue        # the loop at this ordinal still carries the recorded header
            j = rec[:k].count(h)
            where = [i for i, x in enumerate(cur) if x == h]
            if j >= len(where):
                # the header itself was rewritten: the contract stays with the ordinal when the number of loops is unchanged
                # (its obligations decide whether it still fits); otherwise it cannot be placed
                if len(cur) == len(rec):
                    continue
                raise Unsupported(f"loop anchor not found in {fn.fqn}: {h!r} (ordinal {k} on the recorded tree; the code changed "
                                  "shape, the loop contract must be re-anchored)")
            moved[k] = where[j]
        if moved:
            new = {k: v for k, v in fn.loops.items() if k not in moved}
            for k, nk in moved.items():
                if nk in new and new[nk] is not fn.loops[k]:
                    raise Unsupported(f"loop anchors of {fn.fqn} collide after a change of shape (ordinal {k} -> {nk})")
                new[nk] = fn.loops[k]        # (two ordinals sharing ONE contract object may land on the same loop)
            fn.loops = new

    def ex_While(self, s, p):
        spec, k = self.loop_spec(s, p)
        if spec is None:
            spec = LoopSpec(modifies=[]) if self.lenient else LoopSpec()
            self.note_default_loop(p, s)
        return self.run_loop(p, s, spec, k, kind="while")

    def note_default_loop(self, p, s):
        self.assumptions_used.add("loops without a supplied invariant are cut with invariant True (sound, weak)")

    def ex_For(self, s, p):
        def k(q, itv):
            return self.for_over(q, s, itv)
        return self.lift(self.ev(s.iter, p), k)

    def for_over(self, p, s, itv):
        spec, k = self.loop_spec(s, p)
        if self.lenient and (isinstance(itv, (VOpaque,)) or (isinstance(itv, VRef) and itv.cls in ("list[?]", "dict[?]", "set[?]"))):
            return self.opaque_for(p, s, spec or LoopSpec(modifies=[]), k)
        # concrete short tuples: unroll exactly
        if isinstance(itv, VTup) and (spec is None or spec.unroll):
            return self.unroll_for(p, s, itv.items)
        try:
            seq = self.iter_seq(itv, p)
        except Unsupported:
            # lenient mode: iterating an object of an abstract class (no source, no container model) is a loop over an unmodelled iterable
            d = self.classes.get(itv.cls) if isinstance(itv, VRef) and itv.cls else None
            if self.lenient and d is not None and not d.box and d.record is None and not getattr(d, "mod", None):
                return self.opaque_for(p, s, spec or LoopSpec(modifies=[]), k)
            raise
        c = z3.simplify(seq.len)
        if z3.is_int_value(c) and c.as_long() <= 4 and spec is None:
            return self.unroll_for(p, s, [seq.at(z3.IntVal(i)) for i in range(c.as_long())])
        if spec is None:
            # lenient mode (effect obligations): the default loop frame is "only containers created since function entry
            # change"; it is CHECKED at the end of the body (loop-frame obligations), not assumed
            spec = LoopSpec(modifies=[], fresh_boxes=True) if self.lenient else LoopSpec()
            self.note_default_loop(p, s)
        return self.run_loop(p, s, spec, k, kind="for", seq=seq, itv=itv)

    def opaque_for(self, p, s, spec, ordinal):
        """for x in <unmodelled iterable>: an unknown number of iterations over arbitrary elements.  Cut with the
        invariant `the fields outside spec.modifies are unchanged` (checked at the end of the body)."""
        L = f"L{s.lineno}"
        # invariants of a loop over an unmodelled iterable may not mention the index or the iterated sequence (k, it): they are
        # proved on entry, assumed at the cut, and proved again at the end of every body path
        entry_heap = (dict(p.heap), p.epoch)
        for idx, inv in enumerate(spec.invariant or []):
            self.oblige(p, self.spec_bool(inv, p, {}), "inv-init", f"{L}#{idx}")
        targets = self.assigned_names(s.body) | (self.assigned_names([s]) - self.assigned_names(s.orelse))
        for name in targets:
            cur = p.frame.lookup(name)
            if cur is not None and cur.ty is not None and not isinstance(cur, (VFunc, VClass)):
                nv = cur.ty.fresh(f"{name}_loop{ordinal}")
                p.frame_for_store(name).locals[name] = nv
                self.assume_typed(p, nv)
            elif cur is not None:
                p.frame_for_store(name).locals[name] = VOpaque(f"loop-carried {name}")
        self.havoc_for_spec(p, spec.modifies)
        havoc_heap = dict(p.heap)
        if self._body_may_dirty(p, s):
            # earlier iterations may already have touched IR state
            p.ghost["$ir_dirty"] = p.ghost.get("$ir_dirty") or f"an earlier iteration of the loop at {L}"
            self.havoc_edit_counter(p)
        for inv in (spec.invariant or []):
            p.assume(self.spec_bool(inv, p, {}))
        enter = z3.Bool(fresh_name("opaque_iter"))
        pt, pf = self.fork(p, enter, f"iter {L}")
        out = []
        if pt is not None:
            for q, oc in self.assign(s.target, VOpaque("element of unmodelled iterable"), pt) if not isinstance(s.target, ast.Tuple) else \
                    self._assign_opaque_tuple(s.target, pt):
                if oc is not NEXT:
                    out.append((q, oc))
                    continue
                for q2, oc2 in self.ex(s.body, q):
                    if oc2 is NEXT or oc2[0] == "continue":
                        self.check_loop_frame(q2, spec, havoc_heap, L)
                        for idx, inv in enumerate(spec.invariant or []):
                            self.oblige(q2, self.spec_bool(inv, q2, {}), "inv-step", f"{L}#{idx}")
                        if getattr(spec, "body_end", None) is not None:
                            spec.body_end(self, q2, s)
                        self.terminal(q2, f"loop-end {L}")
                    elif oc2[0] == "break":
                        self.check_loop_frame(q2, spec, havoc_heap, L)
                        out.append((q2, NEXT))
                    else:
                        out.append((q2, oc2))
        if pf is not None:
            out.extend(self.ex(s.orelse, pf) if s.orelse else [(pf, NEXT)])
        return out

    def _body_may_dirty(self, p, s, elem=None):
        """Dry run of a loop body on a scratch path: can it mark the path IR-dirty?  (`elem`: the typed element of a modelled
        sequence; without it the loop variable is an unmodelled value.)"""
        if p.ghost.get("$ir_dirty") and not any("g_edits" in f.locals for f in p.frames):
            return False
        n_ob, n_term = len(self.obligations), len(self.terminals)
        scratch = p.copy()
        scratch.ghost.pop("$ir_dirty", None)
        starts = [(scratch, NEXT)]
        if elem is not None and hasattr(s, "target"):
            try:
                self.assume_typed(scratch, elem)
                starts = self.assign(s.target, elem, scratch)
            except (Unsupported, TypeError, AttributeError):
                starts = [(scratch, NEXT)]
                elem = None
        if elem is None:
            for t in ast.walk(s.target) if hasattr(s, "target") else []:
                if isinstance(t, ast.Name):
                    scratch.frame.locals[t.id] = VOpaque("element of unmodelled iterable")
        dirty = False
        try:
            for q0, oc0 in starts:
                if oc0 is not NEXT:
                    continue
                for q, oc in self.ex(s.body, q0):
                    if q.ghost.get("$ir_dirty"):
                        dirty = True
        except (Unsupported, TypeError, AttributeError, KeyError, IndexError, z3.Z3Exception):
            dirty = True        # the dry run (unmodelled loop element) does not fit the body: assume it may touch IR state
        del self.obligations[n_ob:]
        del self.terminals[n_term:]
        return dirty

    def _assign_opaque_tuple(self, target, p):
        for t in target.elts:
            if isinstance(t, ast.Name):
                p.frame.locals[t.id] = VOpaque("element of unmodelled iterable")
            elif isinstance(t, ast.Tuple):
                self._assign_opaque_tuple(t, p)
        return [(p, NEXT)]

    def unroll_for(self, p, s, items):
        res = [(p, NEXT)]
        done = []
        for it in items:
            nxt = []
            for q, oc in res:
                for q2, oc2 in self.assign(s.target, it, q):
                    if oc2 is not NEXT:
                        done.append((q2, oc2))
                        continue
                    for q3, oc3 in self.ex(s.body, q2):
                        if oc3 is NEXT or oc3[0] == "continue":
                            nxt.append((q3, NEXT))
                        elif oc3[0] == "break":
                            done.append((q3, NEXT))
                        else:
                            done.append((q3, oc3))
            res = nxt
        out = list(done)
        for q, oc in res:
            out.extend(self.ex(s.orelse, q) if s.orelse else [(q, NEXT)])
        return out

    def iter_seq(self, v: V, p: Path) -> VSeq:
        """The finite sequence a `for` iterates (evaluated once at loop entry)."""
        if isinstance(v, VSeq):
            return v
        if isinstance(v, VSet):
            return self.enum_set(v, p)
        if isinstance(v, VMap):
            return self.enum_map_keys(v, p)
        if isinstance(v, VRef) and v.cls in self.classes and self.classes[v.cls].box and self.classes[v.cls].box[0] == "set":
            return self.enum_set(self.box_value(p, v), p)
        if isinstance(v, VRef) and v.cls in self.classes and self.classes[v.cls].box and self.classes[v.cls].box[0] == "dict":
            return self.enum_map_keys(self.box_value(p, v), p)
        r = self.iter_extra(v, p)
        if r is not None:
            return r
        return self.to_seq(v, p)

    def iter_extra(self, v, p):
        return None

    def keypos_fn(self, keys: VSeq):
        sorts = [a.sort() for a in keys.arrs] + list(keys.elem.sorts())
        return self.ufunc("keypos!" + "_".join(str(x) for x in sorts), sorts, z3.IntSort())

    def enum_map_keys(self, m: VMap, p: Path) -> VSeq:
        """Iterating a dict: its key sequence enumerates exactly the domain, each key once (dict model assumption).
        keypos(keys, u) is the position of key u in that sequence (spec function `keypos(it, u)`)."""
        ks = m.keys
        if ks is None:
            raise Unsupported("iteration over an unordered ghost map")
        kp = self.keypos_fn(ks)
        j = z3.Int(fresh_name("kj"))
        u = ks.elem.fresh("ku")
        p.assume(z3.ForAll([j], z3.Implies(z3.And(0 <= j, j < ks.len),
                                            z3.And(m.has(ks.at(j)), kp(*ks.arrs, *ks.at(j).comps()) == j))))
        pos = kp(*ks.arrs, *u.comps())
        p.assume(z3.ForAll(u.comps(), z3.Implies(m.has(u), z3.And(0 <= pos, pos < ks.len, val_eq(ks.at(pos), u)))))
        self.assumptions_used.add("dict model: iterating a dict yields exactly its keys, each once (keypos is the position of a key)")
        return ks

    def enum_set(self, s: VSet, p: Path) -> VSeq:
        """An arbitrary duplicate-free enumeration of a finite set (iteration order is unspecified)."""
        seq = TSeq(s.elem).fresh("enum")
        i, j = z3.Ints(f"{fresh_name('ei')} {fresh_name('ej')}")
        p.assume(seq.len >= 0)
        p.assume(z3.ForAll([i], z3.Implies(z3.And(0 <= i, i < seq.len), s.has(seq.at(i)))))
        p.assume(z3.ForAll([i, j], z3.Implies(z3.And(0 <= i, i < j, j < seq.len), z3.Not(val_eq(seq.at(i), seq.at(j))))))
        x = s.elem.fresh("ex")
        p.assume(z3.ForAll(x.comps(), z3.Implies(s.has(x), self.seq_contains(seq, x))))
        self.assumptions_used.add("iteration over a set is modelled as an arbitrary duplicate-free enumeration of its members")
        return seq

    def assigned_names(self, nodes):
        out = set()
        for st in nodes:
            for n in ast.walk(st):
                if isinstance(n, ast.Name) and isinstance(n.ctx, (ast.Store, ast.Del)):
                    out.add(n.id)
                elif isinstance(n, (ast.FunctionDef,)):
                    out.add(n.name)
        return out

    def run_loop(self, p: Path, s, spec: LoopSpec, ordinal, kind, seq=None, itv=None):
        L = f"L{s.lineno}"
        tag = f"loop{ordinal}"
        entry_heap = (dict(p.heap), p.epoch)
        kname = f"$k{ordinal}"
        env0 = {"at_loop_heap": entry_heap}
        # 1. invariant holds on entry
        if kind == "for":
            p.frame.locals[kname] = VInt(0)
            p.frame.locals[f"$it{ordinal}"] = seq
        for idx, inv in enumerate(spec.invariant):
            self.oblige(p, self.spec_bool(inv, p, self.loop_env(p, ordinal, kind, entry_heap)), "inv-init", f"{L}#{idx}")
        # 2. havoc
        targets = self.assigned_names(s.body) | (self.assigned_names([s]) - self.assigned_names(s.orelse))
        # ghost locals updated by ghost code anchored inside this loop are loop-carried too
        gh = getattr(p.frame.fn, "ghost", None) or []
        if gh:
            inside = set()
            for n in ast.walk(s):
                if isinstance(n, ast.stmt):
                    inside |= self._stmt_keys(n)
            for key, _when, code in gh:
                if key in inside:
                    targets |= {t.targets[0].id for t in ast.parse(code).body}
        for name in targets:
            cur = p.frame.lookup(name)
            if cur is not None and cur.ty is not None and not isinstance(cur, (VFunc, VClass)):
                nv = cur.ty.fresh(f"{name}_{tag}")
                p.frame_for_store(name).locals[name] = nv
                self.assume_typed(p, nv)
            elif cur is not None and isinstance(cur, VTup):
                raise Unsupported(f"loop-carried tuple {name} with untyped parts")
        self.havoc_for_spec(p, spec.modifies)
        if getattr(spec, "fresh_boxes", False):
            self.havoc_fresh_boxes(p)
        havoc_heap = dict(p.heap)
        # effect obligations (lenient mode): a loop whose contract lets it change pre-existing state is a mutation loop - at an
        # arbitrary iteration, and after it, earlier iterations may already have touched IR state; a loop under the default
        # frame may not contain an IR-mutating call at all (checked at the end of every body path)
        dirty_at_head = bool(p.ghost.get("$ir_dirty"))
        default_frame = bool(getattr(spec, "fresh_boxes", False))
        if kind == "for":
            kv = VInt(z3.Int(fresh_name(f"k{ordinal}")))
            p.frame.locals[kname] = kv
            p.assume(z3.And(kv.z >= 0, kv.z <= seq.len))
        if self.lenient and not default_frame and self._body_may_dirty(p, s, elem=(seq.at(kv.z) if kind == "for" else None)):
            if not dirty_at_head:
                p.ghost["$ir_dirty"] = f"an earlier iteration of the loop at {L}"
            self.havoc_edit_counter(p)
        for inv in spec.invariant:
            p.assume(self.spec_bool(inv, p, self.loop_env(p, ordinal, kind, entry_heap)))
        out = []
        # 3. one arbitrary iteration / exit
        if kind == "for":
            pt, pf = self.fork(p, kv.z < seq.len, f"iter {L}")
            body_starts = []
            if pt is not None:
                cur = seq.at(kv.z)
                self.assume_typed(pt, cur)
                body_starts = self.assign(s.target, cur, pt)
            exit_paths = [(pf, NEXT)] if pf is not None else []
        else:
            body_starts, exit_paths = [], []
            for q, c in self.ev(s.test, p):
                if isinstance(c, Exc):
                    out.append((q, ("raise", c)))
                    continue
                qt, qf = self.fork(q, self.truth(c, q), f"while {L}")
                if qt is not None:
                    body_starts.append((qt, NEXT))
                if qf is not None:
                    exit_paths.append((qf, NEXT))
        for q, oc in body_starts:
            if oc is not NEXT:
                out.append((q, oc))
                continue
            for q2, oc2 in self.ex(s.body, q):
                if oc2 is NEXT or oc2[0] == "continue":
                    if getattr(spec, "body_end", None) is not None:
                        spec.body_end(self, q2, s)       # (ghost bookkeeping / obligations at the end of an iteration; k not yet advanced)
                    if kind == "for":
                        q2.frame.locals[kname] = VInt(kv.z + 1)
                    for idx, inv in enumerate(spec.invariant):
                        goal = self.spec_bool(inv, q2, self.loop_env(q2, ordinal, kind, entry_heap))
                        self.oblige(q2, goal, "inv-step", f"{L}#{idx}")
                        q2.assume(goal)
                    self.check_loop_frame(q2, spec, havoc_heap, L)
                    self._check_default_frame_clean(q2, default_frame, dirty_at_head, L)
                    self.on_loop_iteration_end(q2, s, ordinal, entry_heap)
                    self.terminal(q2, f"loop-end {L}")
                    # path ends here (cut)
                elif oc2[0] == "break":
                    self.check_loop_frame(q2, spec, havoc_heap, L)
                    self._check_default_frame_clean(q2, default_frame, dirty_at_head, L)
                    out.append((q2, NEXT))
                else:
                    out.append((q2, oc2))
        for q, _ in exit_paths:
            if kind == "for":
                q.assume(q.frame.locals[kname].z == seq.len)
            out.extend(self.ex(s.orelse, q) if s.orelse else [(q, NEXT)])
        return out

    def on_loop_iteration_end(self, p, s, ordinal, entry_heap):
        pass

    def _check_default_frame_clean(self, q, default_frame, dirty_at_head, L):
        """Default loop frame of the effect obligations: nothing that existed before the function was entered changes in the
        loop.  A call that may change IR state (it havocs the modelled heap, so the field-wise frame check cannot see it) breaks
        that frame: the loop is a mutation loop and needs a loop contract saying so."""
        if self.lenient and default_frame and not dirty_at_head and q.ghost.get("$ir_dirty"):
            self.oblige(q, z3.BoolVal(False), "loop-frame", f"{L}:no IR-mutating call in a loop under the default frame ({q.ghost['$ir_dirty']})")

    def loop_env(self, p, ordinal, kind, entry_heap):
        env = {"$loop_heap": entry_heap}
        acc = p.frame.locals.get(f"$acc{ordinal}")
        if acc is not None:
            env["acc"] = acc
        if kind == "for":
            env["k"] = p.frame.locals[f"$k{ordinal}"]
            env["it"] = p.frame.locals[f"$it{ordinal}"]
        return env

    def expand_modifies(self, modifies):
        keys = []
        for m in modifies:
            if m == "$alloc":
                keys.append(self.ALLOC)
                continue
            c, f = m.rsplit(".", 1)
            if f == "*":
                for fn_ in self.classes[c].fields:
                    keys.append((c, fn_))
            else:
                keys.append(self.heap_key(c, f)[0])
        return keys

    def havoc_for_spec(self, p, modifies):
        if modifies is None:
            self.havoc_heap(p, None)
        else:
            self.havoc_heap(p, self.expand_modifies(modifies))

    def _entry_alloc(self, p):
        heap, epoch = p.old_heaps[0] if p.old_heaps else (p.heap, p.epoch)
        return self.alloc_arr(p, heap, epoch)

    def havoc_fresh_boxes(self, p):
        """Every field: arbitrary for objects allocated since function entry, unchanged for older ones."""
        ea = self._entry_alloc(p)
        # objects created by earlier iterations exist: allocation grows
        old_alloc = self.alloc_arr(p)
        new_alloc = self._arrays_for(self.ALLOC, BOOL, fresh_name("hva"))[0]
        r0 = z3.Const(fresh_name("ra"), Ref)
        p.assume(z3.ForAll([r0], z3.Implies(z3.Select(old_alloc, r0), z3.Select(new_alloc, r0))))
        p.heap[self.ALLOC] = [new_alloc]
        for key in list(p.heap.keys()):
            if key == self.ALLOC:
                continue
            ty = self.classes[key[0]].fields[key[1]]
            old = p.heap[key]
            new = self._arrays_for(key, ty, fresh_name("hvb"))
            r = z3.Const(fresh_name("rb"), Ref)
            p.assume(z3.ForAll([r], z3.Implies(z3.Select(ea, r), z3.And([z3.Select(a, r) == z3.Select(b, r) for a, b in zip(new, old)]))))
            p.heap[key] = new

    def check_loop_frame(self, p, spec, havoc_heap, L):
        """Fields outside the declared loop frame must be left unchanged by the body."""
        if spec.modifies is None:
            return
        allowed = set(self.expand_modifies(spec.modifies))
        for key, arrs in p.heap.items():
            if key in allowed:
                continue
            if getattr(spec, "fresh_boxes", False) and key != self.ALLOC:
                before = havoc_heap.get(key) or self.init_heap.get((p.epoch, key))
                if before is None or all(a.eq(b) for a, b in zip(arrs, before)):
                    continue
                ea = self._entry_alloc(p)
                r = z3.Const(fresh_name("rb"), Ref)
                self.oblige(p, z3.ForAll([r], z3.Implies(z3.Select(ea, r), z3.And([z3.Select(a, r) == z3.Select(b, r) for a, b in zip(arrs, before)]))),
                            "loop-frame", f"{L}:{key[0]}.{key[1]}[pre-existing containers]")
                continue
            before = havoc_heap.get(key)
            if before is None:
                ik = (p.epoch, key)
                before = self.init_heap.get(ik)
            if before is None or all(a.eq(b) for a, b in zip(arrs, before)):
                continue
            if key == self.ALLOC:
                continue  # allocation is monotone and always permitted
            self.oblige(p, z3.And([a == b for a, b in zip(arrs, before)]), "loop-frame", f"{L}:{key[0]}.{key[1]}")


def _to_load(node):
    n = ast.parse(ast.unparse(node), mode="eval").body
    return n


def _preorder(node):
    yield node
    for c in ast.iter_child_nodes(node):
        yield from _preorder(c)


def _frame_for_store(self, name):
    """Python scoping: assignment binds in the current frame unless declared nonlocal; closures that
    assign outer variables need `nonlocal`, which we look up syntactically."""
    f = self.frame
    nl = getattr(f, "nonlocals", None)
    if nl and name in nl:
        g = f.closure
        while g is not None:
            if name in g.locals:
                return g
            g = g.closure
    return f


Path.frame_for_store = _frame_for_store
