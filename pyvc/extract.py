"""Mechanical extraction of the functions under contract from /repo's working tree (every run).

What extraction drops: docstrings, comments, type annotations, and the decorators listed in
DROPPED_DECORATORS.  Nothing else: the `ast` of the body that is symbolically executed is the ast of
the text on disk; the replay side checks `inspect.getsource` equality with the same text.
"""
from __future__ import annotations

import ast
import hashlib
import os

REPO = os.environ.get("PYVC_REPO", "/repo")
SRC = os.path.join(REPO, "src")
STDLIB = "/root/.pyenv/versions/3.12.1/lib/python3.12"

DROPPED_DECORATORS = {"_capture_errors", "_capture_error_context", "functools.wraps", "typing.overload",
                      "overload", "deprecated", "staticmethod", "classmethod", "abc.abstractmethod",
                      "dataclasses.dataclass", "functools.lru_cache"}

_module_cache: dict[str, tuple[str, ast.Module]] = {}


def module_path(mod: str) -> str:
    if mod.startswith("stdlib:"):
        rel = mod[len("stdlib:"):].replace(".", "/")
        for cand in (f"{STDLIB}/{rel}.py", f"{STDLIB}/{rel}/__init__.py"):
            if os.path.exists(cand):
                return cand
        raise FileNotFoundError(mod)
    rel = mod.replace(".", "/")
    for cand in (f"{SRC}/{rel}.py", f"{SRC}/{rel}/__init__.py"):
        if os.path.exists(cand):
            return cand
    raise FileNotFoundError(mod)


def load_module(mod: str):
    if mod not in _module_cache:
        path = module_path(mod)
        with open(path, encoding="utf-8") as f:
            text = f.read()
        _module_cache[mod] = (text, ast.parse(text, filename=path))
    return _module_cache[mod]


class Extracted:
    def __init__(self, mod, qual, node, text, path, kind="function"):
        self.mod, self.qual, self.node, self.text, self.path, self.kind = mod, qual, node, text, path, kind
        self.sha256 = hashlib.sha256(text.encode()).hexdigest()
        self.lines = (node.lineno, node.end_lineno)

    @property
    def fqn(self):
        return f"{self.mod}.{self.qual}"

    def info(self):
        return {"function": self.fqn, "file": os.path.relpath(self.path, REPO) if self.path.startswith(REPO) else self.path,
                "lines": f"{self.lines[0]}-{self.lines[1]}", "sha256": self.sha256[:16], "kind": self.kind}


def _decorator_name(d):
    if isinstance(d, ast.Call):
        d = d.func
    return ast.unparse(d)


def find(mod: str, qual: str, kind: str = "function") -> Extracted:
    """qual: `func`, `Class.method`, `Class.prop` (getter), kind 'setter' for property setters."""
    text, tree = load_module(mod)
    parts = qual.split(".")
    body = tree.body
    node = None
    for depth, p in enumerate(parts):
        last = depth == len(parts) - 1
        cands = [n for n in body if isinstance(n, (ast.FunctionDef, ast.ClassDef, ast.AsyncFunctionDef)) and n.name == p]
        if not cands:
            raise KeyError(f"{mod}.{qual}: {p} not found")
        if last and len(cands) > 1:
            # property getter / setter / overload stubs
            def is_setter(n):
                return any(_decorator_name(d).endswith(".setter") for d in n.decorator_list)

            def is_overload(n):
                return any(_decorator_name(d) in ("typing.overload", "overload") for d in n.decorator_list)
            cands = [n for n in cands if not is_overload(n)]
            if kind == "setter":
                cands = [n for n in cands if is_setter(n)]
            else:
                cands = [n for n in cands if not is_setter(n)]
        node = cands[-1] if kind != "setter" else cands[0]
        body = getattr(node, "body", [])
    seg = ast.get_source_segment(text, node, padded=True)
    # include decorators in the hashed text
    first = min([d.lineno for d in getattr(node, "decorator_list", [])] + [node.lineno])
    lines = text.splitlines(keepends=True)
    seg = "".join(lines[first - 1:node.end_lineno])
    return Extracted(mod, qual, node, seg, module_path(mod), kind)


def class_node(mod: str, cls: str) -> ast.ClassDef:
    _, tree = load_module(mod)
    for n in tree.body:
        if isinstance(n, ast.ClassDef) and n.name == cls:
            return n
    raise KeyError(f"{mod}.{cls}")


def class_methods(mod: str, cls: str):
    """name -> list of kinds defined directly in the class body ('function', 'getter', 'setter', 'alias')."""
    out = {}
    for n in class_node(mod, cls).body:
        if isinstance(n, (ast.FunctionDef, ast.AsyncFunctionDef)):
            decs = [_decorator_name(d) for d in n.decorator_list]
            if any(d in ("typing.overload", "overload") for d in decs):
                continue
            if "property" in decs:
                out.setdefault(n.name, []).append("getter")
            elif any(d.endswith(".setter") for d in decs):
                out.setdefault(n.name, []).append("setter")
            else:
                out.setdefault(n.name, []).append("function")
        elif isinstance(n, ast.Assign) and isinstance(n.value, ast.Name):
            for t in n.targets:
                if isinstance(t, ast.Name):
                    out.setdefault(t.id, []).append("alias:" + n.value.id)
    return out


def module_constants(mod: str) -> dict:
    """Top-level NAME = <literal or simple arithmetic> assignments, evaluated."""
    _, tree = load_module(mod)
    out = {}
    for n in tree.body:
        tgt = val = None
        if isinstance(n, ast.Assign) and len(n.targets) == 1 and isinstance(n.targets[0], ast.Name):
            tgt, val = n.targets[0].id, n.value
        elif isinstance(n, ast.AnnAssign) and isinstance(n.target, ast.Name) and n.value is not None:
            tgt, val = n.target.id, n.value
        if tgt is None:
            continue
        try:
            out[tgt] = eval(compile(ast.Expression(val), "<const>", "eval"), {"__builtins__": {}}, dict(out))
        except Exception:
            pass
    return out


def module_imports(mod: str) -> dict:
    """local name -> dotted target, for `import a.b as c`, `from a import b as c` at module level."""
    _, tree = load_module(mod)
    out = {}
    for n in ast.walk(tree):
        if isinstance(n, ast.Import):
            for a in n.names:
                out[a.asname or a.name.split(".")[0]] = a.name if a.asname else a.name.split(".")[0]
        elif isinstance(n, ast.ImportFrom) and n.module:
            for a in n.names:
                out[a.asname or a.name] = f"{n.module}.{a.name}"
    return out


def strip_docstring(body):
    if body and isinstance(body[0], ast.Expr) and isinstance(body[0].value, ast.Constant) and isinstance(body[0].value.value, str):
        return body[1:]
    return body
