"""Discharge obligations: z3 (python API, one process per obligation from a pool); `unknown` goes to the
cvc5 and z3 command-line solvers on the SMT-LIB export.  Exit statuses: proved / refuted / unknown."""
from __future__ import annotations

import multiprocessing as mp
import os
import subprocess
import tempfile
import time

import z3

from .types import str_distinct_axioms

Z3_TIMEOUT_MS = int(os.environ.get("PYVC_Z3_TIMEOUT_MS", "20000"))
EMATCH_TIMEOUT_MS = int(os.environ.get("PYVC_EMATCH_TIMEOUT_MS", "8000"))
FALLBACK_TIMEOUT_S = int(os.environ.get("PYVC_FALLBACK_TIMEOUT_S", "60"))


def to_smt2(axioms, pc, goal) -> str:
    s = z3.Solver()
    for a in axioms:
        s.add(a)
    for c in pc:
        s.add(c)
    s.add(z3.Not(goal))
    return s.to_smt2()


def _work(job):
    idx, smt2, timeout_ms, want_model = job[:4]
    ematch_only = len(job) > 4 and job[4]
    t0 = time.time()
    try:
        s = z3.Solver()
        s.set("timeout", timeout_ms)
        s.set("random_seed", 0)
        if ematch_only:
            s.set("mbqi", False)
            s.set("auto_config", False)
        s.from_string(smt2)
        r = s.check()
        model = None
        if r == z3.sat and want_model:
            try:
                model = s.model().sexpr()
            except Exception:
                model = None
        return idx, str(r), time.time() - t0, model, s.reason_unknown() if r == z3.unknown else ""
    except Exception as e:  # solver crash is not a verdict
        return idx, "error", time.time() - t0, None, repr(e)


def _cli(cmd, smt2, timeout_s):
    with tempfile.NamedTemporaryFile("w", suffix=".smt2", delete=False) as f:
        f.write(smt2)
        path = f.name
    t0 = time.time()
    try:
        out = subprocess.run(cmd + [path], capture_output=True, text=True, timeout=timeout_s)
        first = (out.stdout.strip().splitlines() or ["error"])[0].strip()
        if first not in ("sat", "unsat", "unknown"):
            first = "error"
        return first, time.time() - t0
    except subprocess.TimeoutExpired:
        return "unknown", time.time() - t0
    finally:
        os.unlink(path)


def _fallback(job):
    idx, smt2 = job
    res = []
    # a different z3 build with different heuristics
    r, t = _cli(["/usr/bin/z3", f"-T:{FALLBACK_TIMEOUT_S}"], smt2, FALLBACK_TIMEOUT_S + 5)
    res.append(("z3-4.8.12", r, t))
    if r not in ("sat", "unsat"):
        r2, t2 = _cli(["/usr/bin/cvc5", "--strings-exp", f"--tlimit={FALLBACK_TIMEOUT_S * 1000}"], smt2, FALLBACK_TIMEOUT_S + 5)
        res.append(("cvc5-1.0.3", r2, t2))
    return idx, res


def _heap_syms(x, cache):
    """Names of heap-array constants (H<version>!Class.field.i) occurring in x."""
    k = x.get_id()
    if k in cache:
        return cache[k]
    out, st, seen = set(), [x], set()
    while st:
        y = st.pop()
        i = y.get_id()
        if i in seen:
            continue
        seen.add(i)
        if z3.is_quantifier(y):
            st.append(y.body())
            continue
        if z3.is_const(y) and y.decl().kind() == z3.Z3_OP_UNINTERPRETED:
            n = y.decl().name()
            if n.startswith("H") and "!" in n:
                out.add(n)
        st.extend(y.children())
    cache[k] = out
    return out


def _has_quant(x, cache):
    k = ("q", x.get_id())
    if k not in cache:
        from .core import has_quantifier
        cache[k] = has_quantifier(x)
    return cache[k]


def prune(pc, goal, cache):
    """Sound weakening of the hypotheses: drop quantified hypotheses that speak only about heap versions the goal
    does not mention (stale copies of an invariant in earlier states).  Fewer hypotheses can only lose proofs."""
    g = _heap_syms(goal, cache)
    key = lambda n: n.split("!")[-1]
    gnew = {n for n in g if not n.startswith("H0!")}
    if not gnew:
        return None
    gkeys = {key(n) for n in gnew}
    keep, dropped = [], 0
    for c in pc:
        if _has_quant(c, cache):
            h = _heap_syms(c, cache)
            # stale: talks about an older version of some field the goal reads in a newer version, and about none
            # of the goal's newer versions
            if h and not (h & gnew) and any(key(n) in gkeys for n in h):
                dropped += 1
                continue
        keep.append(c)
    return keep if dropped else None


def discharge(engine, obligations, procs=None, want_models=True, log=None):
    procs = procs or min(16, os.cpu_count() or 4)
    axioms = list(engine.axioms) + str_distinct_axioms()
    jobs, pre_jobs = [], []
    cache = {}
    for i, ob in enumerate(obligations):
        if ob.status is not None:
            continue
        ob.smt2 = to_smt2(axioms, ob.pc, ob.goal)
        jobs.append((i, ob.smt2, Z3_TIMEOUT_MS, want_models))
        pr = prune(ob.pc, ob.goal, cache)
        # phase 0 portfolio (only `unsat` is used): E-matching only (no MBQI) on the full and on the pruned hypotheses
        pre_jobs.append((i, ob.smt2, EMATCH_TIMEOUT_MS, False, True))
        if pr is not None:
            psmt = to_smt2(axioms, pr, ob.goal)
            pre_jobs.append((i, psmt, EMATCH_TIMEOUT_MS, False, True))
            pre_jobs.append((i, psmt, Z3_TIMEOUT_MS, False, False))
    if not jobs:
        return
    ctx = mp.get_context("fork")
    with ctx.Pool(procs) as pool:
        # phase 0: pruned-hypotheses variant (only `unsat` is used from it)
        done = set()
        for idx, r, t, model, why in pool.imap_unordered(_work, pre_jobs, chunksize=1):
            ob = obligations[idx]
            if idx in done:
                continue
            ob.time += t
            if r == "unsat":
                ob.status, ob.backend = "proved", "z3-5.1 (e-matching / pruned hypotheses)"
                done.add(idx)
        jobs = [j for j in jobs if j[0] not in done]
        for idx, r, t, model, why in pool.imap_unordered(_work, jobs, chunksize=1):
            ob = obligations[idx]
            ob.time += t
            ob.backend = "z3-5.1"
            if r == "unsat":
                ob.status = "proved"
            elif r == "sat":
                ob.status = "refuted"
                ob.model = model
            else:
                ob.status = "unknown"
                ob.why = why
        pending = [(i, obligations[i].smt2) for i, ob in enumerate(obligations) if ob.status == "unknown"]
        if pending:
            for idx, res in pool.imap_unordered(_fallback, pending, chunksize=1):
                ob = obligations[idx]
                for backend, r, t in res:
                    ob.time += t
                    if r == "unsat":
                        ob.status, ob.backend = "proved", backend
                        break
                    if r == "sat":
                        # a `sat` from a fallback solver on quantified input is a candidate only: keep unknown
                        # unless z3 itself produced the model; finite-scope refutation decides
                        ob.status, ob.backend = "unknown", backend + ":sat-candidate"
    for ob in obligations:
        if hasattr(ob, "smt2") and ob.status == "proved":
            del ob.smt2


def _cover(job):
    idx, smt2, timeout_ms = job
    try:
        s = z3.Solver()
        s.set("timeout", timeout_ms)
        s.from_string(smt2)
        return idx, str(s.check())
    except Exception:
        return idx, "unknown"


def cover_check(engine, procs=None, timeout_ms=3000):
    """Anti-vacuity: the path condition at every path end must not be refutable.  Returns per target the set of
    (function, line) reached on some path end that is not provably infeasible, and the count of infeasible ends."""
    procs = procs or min(16, os.cpu_count() or 4)
    axioms = list(engine.axioms) + str_distinct_axioms()
    jobs = []
    for i, (tname, pc, stmts, what) in enumerate(engine.terminals):
        sol = z3.Solver()
        for a in axioms:
            sol.add(a)
        for c in pc:
            sol.add(c)
        jobs.append((i, sol.to_smt2(), timeout_ms))
    res = {}
    if jobs:
        ctx = mp.get_context("fork")
        with ctx.Pool(procs) as pool:
            for idx, r in pool.imap_unordered(_cover, jobs, chunksize=2):
                res[idx] = r
    out = {}
    for i, (tname, pc, stmts, what) in enumerate(engine.terminals):
        d = out.setdefault(tname, {"reached": set(), "ends": 0, "infeasible_ends": 0, "sat_ends": 0, "normal_reachable": False})
        d["ends"] += 1
        if res.get(i) == "unsat":
            d["infeasible_ends"] += 1
            continue
        if res.get(i) == "sat":
            d["sat_ends"] += 1
        d["reached"] |= stmts
        if what == "return":
            d["normal_reachable"] = True
    return out
