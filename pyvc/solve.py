"""Discharge obligations.  Every query is an SMT-LIB file handed to a solver *process* (z3 5.1 CLI = the z3-solver
wheel's binary, z3 4.8.12, cvc5 1.0.3) under a hard wall-clock limit, 16 at a time: a crashing or hanging solver is an
`unknown`, never a verdict and never a hang of the checker.

Portfolio per obligation (first `unsat` wins; `sat` is only believed from the full-hypotheses z3 5.1 query):
  phase 0  z3 5.1, E-matching only (mbqi off), full and stale-pruned hypotheses        (fast path for proofs)
  phase 1  z3 5.1 default configuration, pruned then full hypotheses                    (also produces counter-models)
  phase 2  z3 4.8.12 and cvc5 on what is still unknown
"""
from __future__ import annotations

import concurrent.futures as cf
import os
import subprocess
import tempfile
import time

import z3

from .types import str_distinct_axioms

Z3_TIMEOUT_S = float(os.environ.get("PYVC_Z3_TIMEOUT_MS", "20000")) / 1000
EMATCH_TIMEOUT_S = float(os.environ.get("PYVC_EMATCH_TIMEOUT_MS", "8000")) / 1000
FALLBACK_TIMEOUT_S = int(os.environ.get("PYVC_FALLBACK_TIMEOUT_S", "60"))
Z3NEW = "/usr/local/bin/z3-new"
TMP = tempfile.mkdtemp(prefix="pyvc_smt_")
import atexit, shutil  # noqa: E402
atexit.register(lambda: shutil.rmtree(TMP, ignore_errors=True))


def to_smt2(axioms, pc, goal) -> str:
    s = z3.Solver()
    for a in axioms:
        s.add(a)
    for c in pc:
        s.add(c)
    s.add(z3.Not(goal))
    return s.to_smt2()


def _run(cmd, path, timeout_s, want_model=False):
    t0 = time.time()
    try:
        out = subprocess.run(cmd + [path], capture_output=True, text=True, timeout=timeout_s + 5)
        lines = out.stdout.strip().splitlines()
        first = lines[0].strip() if lines else "error"
        if first not in ("sat", "unsat", "unknown"):
            first = "unknown" if "timeout" in out.stdout else "error"
        model = "\n".join(lines[1:]) if (want_model and first == "sat") else None
        return first, time.time() - t0, model
    except subprocess.TimeoutExpired:
        return "unknown", time.time() - t0, None
    except Exception:  # noqa: BLE001
        return "error", time.time() - t0, None


def _job(job):
    idx, kind, path, timeout_s = job
    T = f"-T:{max(1, int(timeout_s))}"
    if kind == "ematch":
        r = _run([Z3NEW, T, "smt.mbqi=false", "auto_config=false", "smt.random_seed=0"], path, timeout_s)
    elif kind == "z3":
        r = _run([Z3NEW, T, "smt.random_seed=0"], path, timeout_s)
    elif kind == "z3model":
        r = _run([Z3NEW, T, "smt.random_seed=0", "dump_models=true"], path, timeout_s, want_model=True)
    elif kind == "z3old":
        r = _run(["/usr/bin/z3", T], path, timeout_s)
    elif kind == "cvc5":
        r = _run(["/usr/bin/cvc5", "--strings-exp", f"--tlimit={int(timeout_s * 1000)}"], path, timeout_s)
    else:
        r = ("error", 0.0, None)
    return idx, kind, r


def _heap_syms(x, cache):
    k = x.get_id()
    if k in cache:
        return cache[k]
    out, st, seen = set(), [x], set()
    while st:
        y = st.pop()
        i = y.get_id()
        if i in seen:
            continue
        seen.add(i)
        if z3.is_quantifier(y):
            st.append(y.body())
            continue
        if z3.is_const(y) and y.decl().kind() == z3.Z3_OP_UNINTERPRETED:
            n = y.decl().name()
            if n.startswith("H") and "!" in n:
                out.add(n)
        st.extend(y.children())
    cache[k] = out
    return out


def _has_quant(x, cache):
    k = ("q", x.get_id())
    if k not in cache:
        from .core import has_quantifier
        cache[k] = has_quantifier(x)
    return cache[k]


def prune(pc, goal, cache):
    """Sound weakening of the hypotheses: drop quantified hypotheses that speak only about older versions of heap
    fields the goal reads in a newer version (stale copies of an invariant).  Fewer hypotheses can only lose proofs."""
    g = _heap_syms(goal, cache)

    def key(n):
        return n.split("!")[-1]
    gnew = {n for n in g if not n.startswith("H0!")}
    if not gnew:
        return None
    gkeys = {key(n) for n in gnew}
    keep, dropped = [], 0
    for c in pc:
        if _has_quant(c, cache):
            h = _heap_syms(c, cache)
            if h and not (h & gnew) and any(key(n) in gkeys for n in h):
                dropped += 1
                continue
        keep.append(c)
    return keep if dropped else None


def _write(name, text):
    path = os.path.join(TMP, name)
    with open(path, "w") as f:
        f.write(text)
    return path


def discharge(engine, obligations, procs=None, want_models=True, log=None):
    procs = procs or min(16, os.cpu_count() or 4)
    axioms = list(engine.axioms) + str_distinct_axioms()
    cache = {}
    todo = [i for i, ob in enumerate(obligations) if ob.status is None]
    if not todo:
        return
    full, pruned = {}, {}
    for i in todo:
        ob = obligations[i]
        ob.smt2 = to_smt2(axioms, ob.pc, ob.goal)
        full[i] = _write(f"ob{i}.smt2", ob.smt2)
        pr = prune(ob.pc, ob.goal, cache)
        if pr is not None:
            pruned[i] = _write(f"ob{i}p.smt2", to_smt2(axioms, pr, ob.goal))

    def run_phase(jobs, on_result):
        with cf.ThreadPoolExecutor(max_workers=procs) as ex:
            for idx, kind, (r, t, model) in ex.map(_job, jobs):
                on_result(idx, kind, r, t, model)

    open_ = set(todo)

    def proved(idx, backend):
        ob = obligations[idx]
        if ob.status != "proved":
            ob.status, ob.backend = "proved", backend
        open_.discard(idx)

    def res0(idx, kind, r, t, model):
        obligations[idx].time += t
        if r == "unsat":
            proved(idx, "z3-5.1 e-matching")
    jobs = []
    for i in todo:
        jobs.append((i, "ematch", full[i], EMATCH_TIMEOUT_S))
        if i in pruned:
            jobs.append((i, "ematch", pruned[i], EMATCH_TIMEOUT_S))
    run_phase(jobs, res0)

    def res1(idx, kind, r, t, model):
        obligations[idx].time += t
        if r == "unsat":
            proved(idx, "z3-5.1 (pruned hypotheses)")
    run_phase([(i, "z3", pruned[i], Z3_TIMEOUT_S) for i in sorted(open_) if i in pruned], res1)

    def res2(idx, kind, r, t, model):
        ob = obligations[idx]
        ob.time += t
        if r == "unsat":
            proved(idx, "z3-5.1")
        elif r == "sat" and ob.status != "proved":
            ob.status, ob.backend, ob.model = "refuted", "z3-5.1", model
            open_.discard(idx)
    run_phase([(i, "z3model", full[i], Z3_TIMEOUT_S) for i in sorted(open_)], res2)

    def res3(idx, kind, r, t, model):
        ob = obligations[idx]
        ob.time += t
        if r == "unsat":
            proved(idx, {"z3old": "z3-4.8.12", "cvc5": "cvc5-1.0.3"}[kind])
        elif r == "sat" and ob.status is None:
            ob.backend = {"z3old": "z3-4.8.12", "cvc5": "cvc5-1.0.3"}[kind] + ":sat-candidate"
    jobs = []
    for i in sorted(open_):
        jobs.append((i, "z3old", full[i], FALLBACK_TIMEOUT_S))
        jobs.append((i, "cvc5", full[i], FALLBACK_TIMEOUT_S))
    run_phase(jobs, res3)
    for i in todo:
        ob = obligations[i]
        if ob.status is None:
            ob.status = "unknown"
            ob.backend = ob.backend or "z3-5.1"
        keep = os.environ.get("PYVC_KEEP_SMT")
        if keep and ob.status != "proved" and hasattr(ob, "smt2"):
            os.makedirs(keep, exist_ok=True)
            with open(os.path.join(keep, "".join(ch if ch.isalnum() else "_" for ch in ob.name)[-120:] + f"_{i}.smt2"), "w") as f:
                f.write(ob.smt2)
        if ob.status == "proved" and hasattr(ob, "smt2"):
            del ob.smt2
        for pth in (full.get(i), pruned.get(i)):
            if pth and os.path.exists(pth):
                os.unlink(pth)


def cover_check(engine, procs=None, timeout_s=3):
    """Anti-vacuity: the path condition at every path end must not be refutable.  Returns per target the set of
    (function, line) reached on some path end that is not provably infeasible, and the count of infeasible ends."""
    procs = procs or min(16, os.cpu_count() or 4)
    axioms = list(engine.axioms) + str_distinct_axioms()
    jobs = []
    for i, (tname, pc, stmts, what) in enumerate(engine.terminals):
        sol = z3.Solver()
        for a in axioms:
            sol.add(a)
        for c in pc:
            sol.add(c)
        jobs.append((i, "z3", _write(f"cov{i}.smt2", sol.to_smt2()), timeout_s))
    res = {}
    with cf.ThreadPoolExecutor(max_workers=procs) as ex:
        for idx, kind, (r, t, model) in ex.map(_job, jobs):
            res[idx] = r
    for j in jobs:
        if os.path.exists(j[2]):
            os.unlink(j[2])
    out = {}
    for i, (tname, pc, stmts, what) in enumerate(engine.terminals):
        d = out.setdefault(tname, {"reached": set(), "ends": 0, "infeasible_ends": 0, "sat_ends": 0, "normal_reachable": False})
        d["ends"] += 1
        if res.get(i) == "unsat":
            d["infeasible_ends"] += 1
            continue
        if res.get(i) == "sat":
            d["sat_ends"] += 1
        d["reached"] |= stmts
        if what == "return":
            d["normal_reachable"] = True
    return out
