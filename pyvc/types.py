"""Type descriptors and symbolic values for pyvc.

Every symbolic Python value is a `V` with a static type descriptor `Ty`.  A type flattens to a
list of z3 sorts (`sorts()`), a value to the matching list of z3 terms (`comps()`), so that heap
fields, sequence elements and map values of any type are stored component-wise in z3 arrays.

Immutable Python data (int, bool, str, None, tuple, frozenset, NamedTuple, dataclass records that
the verified code never mutates) are *values*; mutable containers (list, dict, set, Counter) are
heap objects of a box class with one field `$v` holding the immutable value (TSeq/TMap/TSet/TBag).
"""
from __future__ import annotations

import itertools
import z3

Ref = z3.DeclareSort("Ref")
NULL = z3.Const("null", Ref)
clsof = z3.Function("clsof", Ref, z3.IntSort())

_USE_Z3_STRINGS = False
_StrSort = None


def use_z3_strings(flag: bool) -> None:
    global _USE_Z3_STRINGS, _StrSort
    _USE_Z3_STRINGS = flag
    _StrSort = None
    _str_consts.clear()


def StrSort():
    global _StrSort
    if _StrSort is None:
        _StrSort = z3.StringSort() if _USE_Z3_STRINGS else z3.DeclareSort("Str")
    return _StrSort


_str_consts: dict[str, z3.ExprRef] = {}


def str_const(s: str):
    if _USE_Z3_STRINGS:
        return z3.StringVal(s)
    if s not in _str_consts:
        safe = "".join(ch if ch.isalnum() else "_" for ch in s)[:24]
        _str_consts[s] = z3.Const(f"strlit{len(_str_consts)}_{safe}", StrSort())
    return _str_consts[s]


def str_const_value(z):
    """The Python literal behind a string-constant term (None for a symbolic string)."""
    if _USE_Z3_STRINGS:
        try:
            return z.as_string() if z3.is_string_value(z) else None
        except Exception:  # noqa: BLE001
            return None
    for k, v in _str_consts.items():
        if v.eq(z):
            return k
    return None


def str_distinct_axioms():
    if _USE_Z3_STRINGS or len(_str_consts) < 2:
        return []
    return [z3.Distinct(*_str_consts.values())]


_fresh = itertools.count()


def fresh_name(base: str) -> str:
    return f"{base}!{next(_fresh)}"


class Ty:
    def sorts(self):
        raise NotImplementedError

    def wrap(self, comps):
        raise NotImplementedError

    def fresh(self, base: str):
        return self.wrap([z3.Const(fresh_name(base) + f".{i}", s) for i, s in enumerate(self.sorts())])

    def ncomps(self):
        return len(self.sorts())

    def __eq__(self, other):
        return type(self) is type(other) and self.key() == other.key()

    def __hash__(self):
        return hash((type(self).__name__, self.key()))

    def key(self):
        return ()

    def __repr__(self):
        k = self.key()
        return type(self).__name__ + (repr(k) if k else "")


class TInt(Ty):
    def sorts(self):
        return [z3.IntSort()]

    def wrap(self, comps):
        return VInt(comps[0])


class TBool(Ty):
    def sorts(self):
        return [z3.BoolSort()]

    def wrap(self, comps):
        return VBool(comps[0])


class TStr(Ty):
    def sorts(self):
        return [StrSort()]

    def wrap(self, comps):
        return VStr(comps[0])


class TReal(Ty):
    def sorts(self):
        return [z3.RealSort()]

    def wrap(self, comps):
        return VReal(comps[0])


class TBV(Ty):
    def __init__(self, bits):
        self.bits = bits

    def key(self):
        return (self.bits,)

    def sorts(self):
        return [z3.BitVecSort(self.bits)]

    def wrap(self, comps):
        return VBV(comps[0], self.bits)


class TRef(Ty):
    """Reference to a heap object (nullable: None is `null`). cls is the static class name or None."""

    def __init__(self, cls=None):
        self.cls = cls

    def key(self):
        return (self.cls,)

    def sorts(self):
        return [Ref]

    def wrap(self, comps):
        return VRef(comps[0], self.cls)


class TOpt(Ty):
    def __init__(self, inner: Ty):
        assert not isinstance(inner, (TRef, TOpt))
        self.inner = inner

    def key(self):
        return (self.inner,)

    def sorts(self):
        return [z3.BoolSort()] + self.inner.sorts()

    def wrap(self, comps):
        return VOpt(comps[0], self.inner.wrap(comps[1:]))


class TSeq(Ty):
    """Immutable finite sequence: (len, one array Int->sort per component of the element type)."""

    def __init__(self, elem: Ty):
        self.elem = elem

    def key(self):
        return (self.elem,)

    def sorts(self):
        return [z3.IntSort()] + [z3.ArraySort(z3.IntSort(), s) for s in self.elem.sorts()]

    def wrap(self, comps):
        return VSeq(comps[0], list(comps[1:]), self.elem)


class TSet(Ty):
    def __init__(self, elem: Ty):
        self.elem = elem

    def key(self):
        return (self.elem,)

    def sorts(self):
        return [z3.ArraySort(*self.elem.sorts(), z3.BoolSort())]

    def wrap(self, comps):
        return VSet(comps[0], self.elem)


class TBag(Ty):
    """collections.Counter: total map key -> Int, default 0."""

    def __init__(self, elem: Ty):
        self.elem = elem

    def key(self):
        return (self.elem,)

    def sorts(self):
        return [z3.ArraySort(*self.elem.sorts(), z3.IntSort())]

    def wrap(self, comps):
        return VBag(comps[0], self.elem)


class TMap(Ty):
    """dict value: domain array, value arrays, and the insertion-ordered key sequence."""

    def __init__(self, k: Ty, v: Ty, ordered: bool = True):
        self.k, self.v, self.ordered = k, v, ordered

    def key(self):
        return (self.k, self.v, self.ordered)

    def sorts(self):
        ks = self.k.sorts()
        out = [z3.ArraySort(*ks, z3.BoolSort())] + [z3.ArraySort(*ks, s) for s in self.v.sorts()]
        if self.ordered:
            out += TSeq(self.k).sorts()
        return out

    def wrap(self, comps):
        nv = self.v.ncomps()
        keys = TSeq(self.k).wrap(comps[1 + nv:]) if self.ordered else None
        return VMap(comps[0], list(comps[1:1 + nv]), keys, self)


class TTup(Ty):
    def __init__(self, elems):
        self.elems = tuple(elems)

    def key(self):
        return self.elems

    def sorts(self):
        return [s for e in self.elems for s in e.sorts()]

    def wrap(self, comps):
        out, i = [], 0
        for e in self.elems:
            n = e.ncomps()
            out.append(e.wrap(comps[i:i + n]))
            i += n
        return VTup(out)


class TRec(Ty):
    """NamedTuple / never-mutated dataclass: value semantics, field-wise equality."""

    def __init__(self, name, fields):
        self.name = name
        self.fields = tuple(fields)  # ((fname, Ty), ...)

    def key(self):
        return (self.name, self.fields)

    def sorts(self):
        return [s for _, t in self.fields for s in t.sorts()]

    def wrap(self, comps):
        out, i = {}, 0
        for n, t in self.fields:
            k = t.ncomps()
            out[n] = t.wrap(comps[i:i + k])
            i += k
        return VRec(self, out)

    def field_ty(self, n):
        for f, t in self.fields:
            if f == n:
                return t
        raise KeyError(n)


INT, BOOL, STR = TInt(), TBool(), TStr()
REAL = TReal()


# ----------------------------------------------------------------------------------------------
class V:
    ty: Ty

    def comps(self):
        raise NotImplementedError


class VInt(V):
    ty = INT

    def __init__(self, z):
        self.z = z3.IntVal(z) if isinstance(z, int) else z

    def comps(self):
        return [self.z]

    def concrete(self):
        s = z3.simplify(self.z)
        return s.as_long() if z3.is_int_value(s) else None

    def __repr__(self):
        return f"VInt({self.z})"


class VBool(V):
    ty = BOOL

    def __init__(self, z):
        self.z = z3.BoolVal(z) if isinstance(z, bool) else z

    def comps(self):
        return [self.z]

    def __repr__(self):
        return f"VBool({self.z})"


class VStr(V):
    ty = STR

    def __init__(self, z):
        self.z = str_const(z) if isinstance(z, str) else z

    def comps(self):
        return [self.z]

    def __repr__(self):
        return f"VStr({self.z})"


class VReal(V):
    """Ghost-only real numbers (positions in dense orders)."""

    def __init__(self, z):
        self.z = z3.RealVal(z) if isinstance(z, (int, float)) else z
        self.ty = TReal()

    def comps(self):
        return [self.z]

    def __repr__(self):
        return f"VReal({self.z})"


class VBV(V):
    def __init__(self, z, bits):
        self.z, self.bits = z, bits
        self.ty = TBV(bits)

    def comps(self):
        return [self.z]


class VNone(V):
    """The literal None before it is coerced to a TRef / TOpt."""
    ty = None

    def comps(self):
        return []

    def __repr__(self):
        return "VNone"


class VRef(V):
    def __init__(self, z, cls=None):
        self.z, self.cls = z, cls
        self.ty = TRef(cls)

    def comps(self):
        return [self.z]

    def __repr__(self):
        return f"VRef({self.z}:{self.cls})"


class VOpt(V):
    def __init__(self, isnone, val: V):
        self.isnone = z3.BoolVal(isnone) if isinstance(isnone, bool) else isnone
        self.val = val
        self.ty = TOpt(val.ty)

    def comps(self):
        return [self.isnone] + self.val.comps()

    def __repr__(self):
        return f"VOpt({self.isnone},{self.val})"


def beta_select(a, i):
    """Select(a, i), beta-reducing when `a` is a one-variable lambda (keeps Lambda terms out of E-matching)."""
    if z3.is_quantifier(a) and a.is_lambda() and a.num_vars() == 1:
        i = i if z3.is_expr(i) else z3.IntVal(i)
        return z3.substitute_vars(a.body(), i)
    return z3.Select(a, i)


class VSeq(V):
    def __init__(self, length, arrs, elem: Ty):
        self.len = z3.IntVal(length) if isinstance(length, int) else length
        self.arrs = list(arrs)
        self.elem = elem
        self.ty = TSeq(elem)

    def comps(self):
        return [self.len] + self.arrs

    def at(self, i):
        return self.elem.wrap([beta_select(a, i) for a in self.arrs])

    @staticmethod
    def empty(elem: Ty):
        return VSeq(0, [z3.K(z3.IntSort(), _default(s)) for s in elem.sorts()], elem)

    @staticmethod
    def of(items, elem: Ty):
        arrs = [z3.K(z3.IntSort(), _default(s)) for s in elem.sorts()]
        for i, it in enumerate(items):
            arrs = [z3.Store(a, i, c) for a, c in zip(arrs, it.comps())]
        return VSeq(len(items), arrs, elem)

    def __repr__(self):
        return f"VSeq(len={self.len}, {self.elem})"


class VSet(V):
    def __init__(self, arr, elem: Ty):
        self.arr, self.elem = arr, elem
        self.ty = TSet(elem)

    def comps(self):
        return [self.arr]

    def has(self, v: V):
        return z3.Select(self.arr, *v.comps())

    @staticmethod
    def empty(elem: Ty):
        return VSet(z3.K(*elem.sorts(), z3.BoolVal(False)) if len(elem.sorts()) == 1 else
                    _const_array(elem.sorts(), z3.BoolVal(False)), elem)


class VBag(V):
    def __init__(self, arr, elem: Ty):
        self.arr, self.elem = arr, elem
        self.ty = TBag(elem)

    def comps(self):
        return [self.arr]

    @staticmethod
    def empty(elem: Ty):
        return VBag(_const_array(elem.sorts(), z3.IntVal(0)), elem)


class VMap(V):
    def __init__(self, dom, vals, keys, ty: TMap):
        self.dom, self.vals, self.keys, self.ty = dom, list(vals), keys, ty

    def comps(self):
        return [self.dom] + self.vals + (self.keys.comps() if self.ty.ordered else [])

    def has(self, k: V):
        return z3.Select(self.dom, *k.comps())

    def get(self, k: V):
        return self.ty.v.wrap([z3.Select(a, *k.comps()) for a in self.vals])

    @staticmethod
    def empty(ty: TMap):
        ks = ty.k.sorts()
        return VMap(_const_array(ks, z3.BoolVal(False)),
                    [_const_array(ks, _default(s)) for s in ty.v.sorts()],
                    VSeq.empty(ty.k) if ty.ordered else None, ty)


class VTup(V):
    def __init__(self, items):
        self.items = list(items)
        self.ty = TTup([i.ty for i in self.items]) if all(i.ty is not None for i in self.items) else None

    def comps(self):
        return [c for i in self.items for c in i.comps()]

    def __repr__(self):
        return f"VTup({self.items})"


class VRec(V):
    def __init__(self, ty: TRec, fields: dict):
        self.ty, self.fields = ty, fields

    def comps(self):
        return [c for n, _ in self.ty.fields for c in self.fields[n].comps()]

    def __repr__(self):
        return f"VRec({self.ty.name},{self.fields})"


class VFunc(V):
    """A Python-level callable known to the executor (closure, lambda, bound method, builtin)."""
    ty = None

    def __init__(self, kind, payload, name="<fn>"):
        self.kind, self.payload, self.name = kind, payload, name

    def comps(self):
        return []

    def __repr__(self):
        return f"VFunc({self.kind},{self.name})"


class VClass(V):
    ty = None

    def __init__(self, name):
        self.name = name

    def comps(self):
        return []

    def __repr__(self):
        return f"VClass({self.name})"


class VModule(V):
    ty = None

    def __init__(self, name):
        self.name = name

    def comps(self):
        return []


class VOpaque(V):
    """A value the encoding does not look into (loggers, message strings, locks...)."""
    ty = None

    def __init__(self, what="opaque"):
        self.what = what

    def comps(self):
        return []

    def __repr__(self):
        return f"VOpaque({self.what})"


def _default(sort):
    if sort == z3.IntSort():
        return z3.IntVal(0)
    if sort == z3.BoolSort():
        return z3.BoolVal(False)
    if sort == z3.RealSort():
        return z3.RealVal(0)
    if sort == Ref:
        return NULL
    if sort.kind() == z3.Z3_BV_SORT:
        return z3.BitVecVal(0, sort.size())
    if sort.kind() == z3.Z3_ARRAY_SORT:
        try:
            n = z3.Z3_get_array_arity(sort.ctx_ref(), sort.ast)
            doms = [sort.domain_n(i) for i in range(n)]
        except Exception:
            doms = [sort.domain()]
        return _const_array(doms, _default(sort.range()))
    return z3.Const("dflt!" + str(sort), sort)


def _const_array(dom_sorts, val):
    if len(dom_sorts) == 1:
        return z3.K(dom_sorts[0], val)
    xs = [z3.Const(f"ca!{i}", s) for i, s in enumerate(dom_sorts)]
    return z3.Lambda(xs, val)


def coerce(v: V, ty: Ty) -> V:
    """Coerce a value to a static type (None -> null / empty option; T -> Opt[T]; tuple->seq)."""
    if ty is None:
        return v
    if isinstance(v, VNone):
        if isinstance(ty, TRef):
            return VRef(NULL, ty.cls)
        if isinstance(ty, TOpt):
            return VOpt(True, ty.inner.fresh("none"))
        raise TypeError(f"None is not a {ty}")
    if isinstance(ty, TRef) and isinstance(v, VRef):
        return VRef(v.z, ty.cls or v.cls) if v.cls is None else v
    if isinstance(ty, TOpt):
        if isinstance(v, VOpt):
            return VOpt(v.isnone, coerce(v.val, ty.inner))
        return VOpt(False, coerce(v, ty.inner))
    if isinstance(ty, TInt) and isinstance(v, VBool):
        return VInt(z3.If(v.z, 1, 0))
    if isinstance(ty, TReal) and isinstance(v, VInt):
        return VReal(z3.ToReal(v.z))
    if isinstance(ty, TSeq) and isinstance(v, VTup):
        return VSeq.of([coerce(i, ty.elem) for i in v.items], ty.elem)
    if isinstance(ty, TSeq) and isinstance(v, VSeq):
        if v.elem == ty.elem or (isinstance(v.elem, TRef) and isinstance(ty.elem, TRef)):
            return VSeq(v.len, v.arrs, ty.elem)
        if isinstance(ty.elem, TOpt) and v.elem == ty.elem.inner:
            return VSeq(v.len, [z3.K(z3.IntSort(), z3.BoolVal(False))] + v.arrs, ty.elem)
    if isinstance(ty, TTup) and isinstance(v, VTup):
        return VTup([coerce(i, t) for i, t in zip(v.items, ty.elems)])
    if isinstance(ty, TRec) and isinstance(v, VRec):
        return v
    if v.ty == ty:
        return v
    if isinstance(v, VOpt) and v.val.ty == ty and z3.is_false(z3.simplify(v.isnone)):
        return v.val
    raise TypeError(f"cannot coerce {v!r} to {ty!r}")


def ite(c, a: V, b: V) -> V:
    """If-then-else on values of the same (coercible) type."""
    if isinstance(a, VNone) and isinstance(b, VNone):
        return a
    if isinstance(a, VNone):
        a = coerce(a, b.ty if isinstance(b.ty, (TRef, TOpt)) else TOpt(b.ty))
    if isinstance(b, VNone):
        b = coerce(b, a.ty if isinstance(a.ty, (TRef, TOpt)) else TOpt(a.ty))
    if isinstance(a.ty, TOpt) and not isinstance(b.ty, TOpt):
        b = coerce(b, a.ty)
    if isinstance(b.ty, TOpt) and not isinstance(a.ty, TOpt):
        a = coerce(a, b.ty)
    if isinstance(a, VRef) and isinstance(b, VRef):
        return VRef(z3.If(c, a.z, b.z), a.cls if a.cls == b.cls else (a.cls or b.cls))
    if isinstance(a, VBool) and isinstance(b, VInt):
        a = coerce(a, INT)
    if isinstance(b, VBool) and isinstance(a, VInt):
        b = coerce(b, INT)
    if a.ty != b.ty:
        raise TypeError(f"ite on different types {a!r} / {b!r}")
    return a.ty.wrap([z3.If(c, x, y) for x, y in zip(a.comps(), b.comps())])


def val_eq(a: V, b: V):
    """Python `==` / `is` on immutable values and references as a z3 Bool."""
    if isinstance(a, VNone) and isinstance(b, VNone):
        return z3.BoolVal(True)
    if isinstance(a, VNone):
        a, b = b, a
    if isinstance(b, VNone):
        if isinstance(a, VRef):
            return a.z == NULL
        if isinstance(a, VOpt):
            return a.isnone
        return z3.BoolVal(False)
    if isinstance(a, VOpt) and not isinstance(b, VOpt):
        return z3.And(z3.Not(a.isnone), val_eq(a.val, b))
    if isinstance(b, VOpt) and not isinstance(a, VOpt):
        return z3.And(z3.Not(b.isnone), val_eq(a, b.val))
    if isinstance(a, VOpt) and isinstance(b, VOpt):
        return z3.Or(z3.And(a.isnone, b.isnone),
                     z3.And(z3.Not(a.isnone), z3.Not(b.isnone), val_eq(a.val, b.val)))
    if isinstance(a, VBool) and isinstance(b, VInt):
        a = coerce(a, INT)
    if isinstance(b, VBool) and isinstance(a, VInt):
        b = coerce(b, INT)
    if isinstance(a, VBV) and isinstance(b, VInt) and b.concrete() is not None:
        b = VBV(z3.BitVecVal(b.concrete(), a.bits), a.bits)
    if isinstance(b, VBV) and isinstance(a, VInt) and a.concrete() is not None:
        a = VBV(z3.BitVecVal(a.concrete(), b.bits), b.bits)
    if isinstance(a, VReal) and isinstance(b, (VInt, VBool)):
        b = coerce(coerce(b, INT), REAL)
    if isinstance(b, VReal) and isinstance(a, (VInt, VBool)):
        a = coerce(coerce(a, INT), REAL)
    if isinstance(a, VSeq) and isinstance(b, VTup):
        b = coerce(b, a.ty)
    if isinstance(b, VSeq) and isinstance(a, VTup):
        a = coerce(a, b.ty)
    if isinstance(a, VSeq) and isinstance(b, VSeq):
        i = z3.Int(fresh_name("i"))
        return z3.And(a.len == b.len,
                      z3.ForAll([i], z3.Implies(z3.And(0 <= i, i < a.len), val_eq(a.at(i), b.at(i)))))
    if isinstance(a, VTup) and isinstance(b, VTup):
        if len(a.items) != len(b.items):
            return z3.BoolVal(False)
        return z3.And([val_eq(x, y) for x, y in zip(a.items, b.items)] or [z3.BoolVal(True)])
    if isinstance(a, VRec) and isinstance(b, VRec):
        if a.ty.name != b.ty.name:
            return z3.BoolVal(False)
        return z3.And([val_eq(a.fields[n], b.fields[n]) for n, _ in a.ty.fields])
    ca, cb = a.comps(), b.comps()
    if len(ca) != len(cb) or any(x.sort() != y.sort() for x, y in zip(ca, cb)):
        return z3.BoolVal(False)
    return z3.And([x == y for x, y in zip(ca, cb)] or [z3.BoolVal(True)])
