"""Calls: inlining of extracted callees, contracts, builtins, comprehensions, container mutation."""
from __future__ import annotations

import ast
import z3

from . import extract
from .core import ClassDecl, Exc, FnDecl, Frame, Path, Unsupported
from .sem_stmt import NEXT, LoopSpec
from .types import *  # noqa: F401,F403
from .types import beta_select
from .types import (BOOL, INT, NULL, STR, TBag, TInt, TMap, TOpt, TRec, TRef, TSeq, TSet, TStr, TTup, V, VBag, VBool,
                    VClass, VFunc, VInt, VMap, VModule, VNone, VOpaque, VOpt, VRec, VRef, VSeq, VSet, VStr, VTup,
                    coerce, fresh_name, ite, val_eq)

MAX_DEPTH = 12


class CallMixin:
    # ---------------------------------------------------------------- global name resolution
    def lookup_global(self, name, mod, p):
        if mod is not None:
            key = (mod, name)
            if key in self.global_overrides:
                return self.global_overrides[key]
            consts = self._mod_consts(mod)
            if name in consts:
                c = consts[name]
                if isinstance(c, bool):
                    return VBool(c)
                if isinstance(c, int):
                    return VInt(c)
                if isinstance(c, str):
                    return VStr(c)
                # a module-level tuple of plain constants (e.g. a table of operator spellings)
                if isinstance(c, tuple) and all(isinstance(x, (bool, int, str)) for x in c):
                    return VTup([VBool(x) if isinstance(x, bool) else VInt(x) if isinstance(x, int) else VStr(x) for x in c])
            # function or class defined in the module
            try:
                ex = extract.find(mod, name)
                if isinstance(ex.node, ast.ClassDef):
                    return VClass(self.class_name_for(mod, name))
                return VFunc("fn", (self.fn_for_module(mod, name), None), name)
            except KeyError:
                pass
            imps = self._mod_imports(mod)
            if name in imps:
                return self.resolve_import(imps[name], p)
        if name == "logger":
            return VOpaque("logger")
        if name in ("slice", "Iterable", "SupportsIndex", "Sequence", "Mapping", "bytes", "float", "complex"):
            return VClass(name)
        if name in self.builtin_names:
            return VFunc("builtin", name, name)
        if name in ("ValueError", "TypeError", "KeyError", "IndexError", "RuntimeError", "AttributeError",
                    "Exception", "BaseException", "AssertionError", "NotImplementedError", "OSError",
                    "FileNotFoundError", "FileExistsError", "StopIteration"):
            return VClass("exc:" + name)
        if name in self.classes:
            return VClass(name)
        return None

    global_overrides: dict = {}
    builtin_names = {"len", "tuple", "list", "range", "enumerate", "zip", "isinstance", "max", "min", "id", "reversed",
                     "frozenset", "set", "dict", "bool", "int", "str", "repr", "hasattr", "getattr", "sum", "any", "all",
                     "sorted", "next", "iter", "print", "type", "abs", "super", "callable", "object", "setattr", "float",
                     # spec-only
                     "old", "forall", "exists", "implies", "fresh", "allocated", "at_loop", "iff", "typeis", "seq_eq",
                     "count", "distinct_seq", "ite", "subseteq", "same_elems", "box", "nonnull", "unchanged", "unchanged_old", "keypos", "Seq", "EmptySeq", "some", "IntSeq", "countp", "prefixof", "suffixof", "strlen", "charat", "ir_clean", "box_get", "box_has"}

    def _mod_consts(self, mod):
        c = self._consts_cache.get(mod)
        if c is None:
            c = self._consts_cache[mod] = extract.module_constants(mod)
        return c

    def _mod_imports(self, mod):
        c = self._imports_cache.get(mod)
        if c is None:
            c = self._imports_cache[mod] = extract.module_imports(mod)
        return c

    def resolve_import(self, dotted, p):
        # onnx_ir modules -> VModule; classes/functions inside them -> resolved lazily by module_attr
        if dotted in self.lib_models:
            return VFunc("lib", dotted, dotted)
        try:
            extract.module_path(dotted)
            return VModule(dotted)
        except FileNotFoundError:
            pass
        if "." in dotted:
            m, n = dotted.rsplit(".", 1)
            try:
                extract.module_path(m)
                return self.module_attr(VModule(m), n, p)
            except FileNotFoundError:
                pass
        return VModule("ext:" + dotted)

    lib_models: dict = {}
    lib_consts: dict = {}
    lenient = False
    ir_mutator_names = {"append", "extend", "remove", "insert", "insert_after", "insert_before", "pop", "clear", "sort", "add",
                        "update", "popitem", "setdefault", "replace_input_with", "resize_inputs", "resize_outputs",
                        "replace_all_uses_with", "register_initializer", "prepend", "reverse", "discard", "__setitem__", "__delitem__"}

    def module_attr(self, m: VModule, name, p):
        dotted = (m.name[4:] if m.name.startswith("ext:") else m.name) + "." + name
        if dotted in self.lib_consts:
            return self.lib_consts[dotted]
        if dotted in self.lib_models:
            return VFunc("lib", dotted, dotted)
        if m.name.startswith("ext:"):
            return VModule("ext:" + dotted)
        g = self.lookup_global(name, m.name, p)
        if g is None:
            try:
                extract.module_path(m.name + "." + name)
                return VModule(m.name + "." + name)
            except FileNotFoundError:
                raise Unsupported(f"{m.name}.{name} not found")
        return g

    def class_name_for(self, mod, name):
        for cn, d in self.classes.items():
            if d.mod == mod and (cn == name or cn.endswith("." + name)):
                return cn
        if name in self.classes:
            return name            # already declared by the schema (possibly as an opaque class): never re-declare
        # auto-declare a field-less class from the real source so methods resolve
        self.declare_class_from_source(mod, name)
        return name

    def declare_class_from_source(self, mod, name, fields=None, bases=None):
        node = extract.class_node(mod, name)
        if bases is None:
            bases = []
            for b in node.bases:
                bn = b.id if isinstance(b, ast.Name) else b.attr if isinstance(b, ast.Attribute) else None
                if isinstance(b, ast.Subscript):
                    v = b.value
                    bn = v.id if isinstance(v, ast.Name) else v.attr if isinstance(v, ast.Attribute) else None
                if bn is None:
                    continue
                if bn in self.classes:
                    bases.append(bn)
                else:
                    try:
                        extract.class_node(mod, bn)
                        self.declare_class_from_source(mod, bn)
                        bases.append(bn)
                    except KeyError:
                        if bn in self.stdlib_bases:
                            smod, sname = self.stdlib_bases[bn]
                            if sname not in self.classes:
                                self.declare_class_from_source(smod, sname)
                            bases.append(sname)
        d = ClassDecl(name, mod=mod, bases=bases, fields=fields or {}, methods=extract.class_methods(mod, name))
        return self.add_class(d)

    stdlib_bases = {"UserList": ("stdlib:collections", "UserList"), "UserDict": ("stdlib:collections", "UserDict"),
                    "MutableMapping": ("stdlib:_collections_abc", "MutableMapping"),
                    "MutableSequence": ("stdlib:_collections_abc", "MutableSequence"),
                    "Mapping": ("stdlib:_collections_abc", "Mapping")}

    def class_attr(self, c: VClass, name, p):
        if c.name.startswith("exc:"):
            return VOpaque(c.name + "." + name)
        d = self.classes.get(c.name)
        if d is not None and d.methods and name in d.methods:
            return VFunc("fn", (self.fn_for(c.name, name), None), f"{c.name}.{name}")
        r = self.class_attr_extra(c, name, p)
        if r is not None:
            return r
        if self.lenient:
            return VOpaque(f"{c.name}.{name}")
        raise Unsupported(f"class attribute {c.name}.{name}")

    def class_attr_extra(self, c, name, p):
        return None

    # ---------------------------------------------------------------- FnDecl lookup
    def fn_for(self, cls, name, kind="function") -> FnDecl:
        d = self.classes[cls]
        fqn = f"{d.mod}.{cls}.{name}" + ("" if kind == "function" else f"#{kind}")
        if fqn not in self.functions:
            self.functions[fqn] = FnDecl(fqn, "inline", d.mod, f"{cls}.{name}", "setter" if kind == "setter" else "function")
        f = self.functions[fqn]
        f.owner_cls = cls
        return f

    def fn_for_module(self, mod, name) -> FnDecl:
        fqn = f"{mod}.{name}"
        if fqn not in self.functions:
            self.functions[fqn] = FnDecl(fqn, "inline", mod, name)
        return self.functions[fqn]

    # ---------------------------------------------------------------- Call
    def ev_Call(self, node, p):
        if self.spec_mode:
            r = self.spec_call(node, p)
            if r is not None:
                return r
        # super().m(...)
        if (isinstance(node.func, ast.Attribute) and isinstance(node.func.value, ast.Call)
                and isinstance(node.func.value.func, ast.Name) and node.func.value.func.id == "super"):
            return self.super_call(node, p)
        if any(isinstance(a, ast.Starred) for a in node.args) or any(k.arg is None for k in node.keywords):
            return self.star_call(node, p)

        def k(q, f):
            def k2(q2, vs):
                args = vs[:len(node.args)]
                kwargs = {kw.arg: v for kw, v in zip(node.keywords, vs[len(node.args):])}
                return self.call_value(q2, f, args, kwargs, node)
            return self.bind(self.ev_list(list(node.args) + [kw.value for kw in node.keywords], q), k2)
        return self.bind(self.ev(node.func, p), k)

    def star_call(self, node, p):
        """f(a, *args, **kwargs) where args is a tuple of known length and kwargs is empty."""
        def k(q, f):
            exprs = [(x.value if isinstance(x, ast.Starred) else x, isinstance(x, ast.Starred)) for x in node.args]
            kws = [kw for kw in node.keywords]

            def k2(q2, vs):
                args = []
                for (e, starred), v in zip(exprs, vs[:len(exprs)]):
                    if starred:
                        if not isinstance(v, VTup):
                            raise Unsupported(f"*args of unknown length at L{node.lineno}")
                        args.extend(v.items)
                    else:
                        args.append(v)
                kwargs = {}
                for kw, v in zip(kws, vs[len(exprs):]):
                    if kw.arg is None:
                        if not (isinstance(v, VOpaque) and v.what == "kwargs"):
                            raise Unsupported(f"**kwargs with entries at L{node.lineno}")
                    else:
                        kwargs[kw.arg] = v
                return self.call_value(q2, f, args, kwargs, node)
            return self.bind(self.ev_list([e for e, _ in exprs] + [kw.value for kw in kws], q), k2)
        return self.bind(self.ev(node.func, p), k)

    def super_call(self, node, p):
        name = node.func.attr
        fr = p.frame
        self_v = fr.locals.get("self")
        if self_v is None or fr.cls is None:
            raise Unsupported("super() outside a method")
        m = self.find_method(self_v.cls, name, after=fr.cls)
        if m is None:
            if name == "__init__":
                return [(p, VNone())]   # object.__init__
            raise Unsupported(f"super().{name} not found after {fr.cls}")
        fn = self.fn_for(m[0], name)

        def k2(q, vs):
            args = vs[:len(node.args)]
            kwargs = {kw.arg: v for kw, v in zip(node.keywords, vs[len(node.args):])}
            return self.call_fn(q, fn, [self_v] + args, kwargs, node)
        return self.bind(self.ev_list(list(node.args) + [kw.value for kw in node.keywords], p), k2)

    def call_value(self, p: Path, f: V, args, kwargs, node):
        w = f"L{getattr(node, 'lineno', '?')}"
        if isinstance(f, VFunc):
            if f.kind == "fn":
                fn, selfv = f.payload
                return self.call_fn(p, fn, ([selfv] if selfv is not None else []) + args, kwargs, node)
            if f.kind == "method":
                owner, name, selfv = f.payload
                return self.call_fn(p, self.fn_for(owner, name), [selfv] + args, kwargs, node)
            if f.kind == "closure":
                return self.call_closure(p, f, args, kwargs, node)
            if f.kind == "builtin":
                return self.call_builtin(p, f.payload, args, kwargs, node)
            if f.kind == "boxmethod":
                return self.call_boxmethod(p, f.payload[0], f.payload[1], args, kwargs, node)
            if f.kind == "vmethod":
                return self.call_vmethod(p, f.payload[0], f.payload[1], args, kwargs, node)
            if f.kind == "lib":
                return self.lib_models[f.payload](self, p, args, kwargs, node)
            if f.kind == "py":
                return f.payload(self, p, args, kwargs, node)
        if isinstance(f, VClass):
            return self.construct(p, f, args, kwargs, node)
        if isinstance(f, VOpaque):
            return self.call_opaque(p, f, args, kwargs, node)
        if isinstance(f, VModule):
            if self.lenient and f.name.startswith("ext:"):
                return self.call_opaque(p, VOpaque(f.name[4:]), args, kwargs, node)
            raise Unsupported(f"call of module {f.name} at {w}")
        if isinstance(f, VRef) and f.cls in self.classes:
            m = self.find_method(f.cls, "__call__")
            if m is not None:
                def go(q):
                    return self.call_fn(q, self.fn_for(m[0], "__call__"), [f] + args, kwargs, node)
                return self.raise_if(p, f.z == NULL, "TypeError", w, go)
        r = self.call_extra(p, f, args, kwargs, node)
        if r is not None:
            return r
        raise Unsupported(f"call of {f!r} at {w}")

    def call_extra(self, p, f, args, kwargs, node):
        return None

    def call_opaque(self, p, f, args, kwargs, node):
        """Calls on opaque values (logger.info, message formatting): no effect on modelled state."""
        if f.what.startswith(("logger", "logging", "warnings")) or ".format" in f.what or f.what.startswith("exc:"):
            self.assumptions_used.add("logger.* / warnings.* calls have no effect on modelled state")
            return [(p, VOpaque("result of " + f.what))]
        if self.lenient:
            self.assumptions_used.add("lenient mode: calls into unmodelled libraries return arbitrary values, may raise, and have "
                                      "no effect on the modelled fields (used only for dominance/effect obligations)")
            # ... except that a call of an IR mutator name on an unmodelled receiver that is not one of the function's
            # own local containers may be an IR effect: the path is marked dirty (see ir_clean())
            meth = f.what.rsplit(".", 1)[-1]
            root = node.func if node is not None and hasattr(node, "func") else None
            while isinstance(root, (ast.Attribute, ast.Subscript, ast.Call)):
                root = root.value if not isinstance(root, ast.Call) else root.func
            rootname = root.id if isinstance(root, ast.Name) else None
            locals_ok = getattr(p.frame.fn, "local_containers", ()) if p.frame.fn is not None else ()
            if meth in self.ir_mutator_names and rootname not in locals_ok:
                self.mark_dirty(p, f"{meth} on {rootname} at L{getattr(node, 'lineno', '?')}")
            q = p.copy()
            return [(p, VOpaque("result of " + f.what)), (q, Exc("AnyException", f"L{getattr(node, 'lineno', '?')}:{f.what}"))]
        raise Unsupported(f"call on opaque value {f.what} at L{getattr(node, 'lineno', '?')}")

    # ---------------------------------------------------------------- inlining
    def bind_params(self, p, fnode, args, kwargs, frame, mod):
        a = fnode.args
        params = [x.arg for x in a.posonlyargs + a.args]
        defaults = [None] * (len(params) - len(a.defaults)) + list(a.defaults)
        kwargs = dict(kwargs)
        if len(args) > len(params) and a.vararg is None:
            return Exc("TypeError", "too many positional arguments")
        for i, name in enumerate(params):
            if i < len(args):
                frame.locals[name] = args[i]
            elif name in kwargs:
                frame.locals[name] = kwargs.pop(name)
            elif defaults[i] is not None:
                frame.locals[name] = self.eval_default(defaults[i], mod, p)
            else:
                return Exc("TypeError", f"missing argument {name}")
        if a.vararg is not None:
            frame.locals[a.vararg.arg] = VTup(args[len(params):])
        for x, d in zip(a.kwonlyargs, a.kw_defaults):
            if x.arg in kwargs:
                frame.locals[x.arg] = kwargs.pop(x.arg)
            elif d is not None:
                frame.locals[x.arg] = self.eval_default(d, mod, p)
            else:
                return Exc("TypeError", f"missing keyword argument {x.arg}")
        if a.kwarg is not None:
            frame.locals[a.kwarg.arg] = VOpaque("kwargs") if not kwargs else None
            if kwargs:
                raise Unsupported("**kwargs with entries")
        elif kwargs:
            return Exc("TypeError", f"unexpected keyword {list(kwargs)}")
        return None

    def eval_default(self, node, mod, p):
        fr = Frame(None, mod)
        p.frames.append(fr)
        try:
            res = self.ev(node, p)
        finally:
            p.frames.pop()
        if len(res) != 1 or isinstance(res[0][1], Exc):
            raise Unsupported("default value expression forks")
        return res[0][1]

    def call_fn(self, p: Path, fn: FnDecl, args, kwargs, node):
        if fn.mode == "contract":
            return self.call_contract(p, fn, args, kwargs, node)
        if fn.mode == "opaque":
            return self.call_opaque_fn(p, fn, args, kwargs, node)
        if fn.mode == "builtin":
            return fn.impl(self, p, args, kwargs, node)
        ex = fn.extracted()
        self.note_function(fn, "inlined")
        return self.inline(p, fn, ex.node, fn.mod, args, kwargs, node, cls=getattr(fn, "owner_cls", None))

    def note_function(self, fn: FnDecl, how):
        if fn.fqn not in self.functions_under_contract and fn.mod:
            info = fn.extracted().info()
            info["how"] = how
            self.functions_under_contract[fn.fqn] = info

    def inline(self, p, fn, fnode, mod, args, kwargs, node, cls=None, closure=None):
        if len(p.frames) > MAX_DEPTH:
            raise Unsupported(f"call depth > {MAX_DEPTH} (recursion?) at {fn.fqn if fn else fnode.name}")
        if _is_generator(fnode) and getattr(fn, "yield_spec", None) is None:
            return self.call_generator(p, fn, fnode, mod, args, kwargs, node, cls, closure)
        fr = Frame(fn, mod, cls)
        fr.closure = closure
        fr.nonlocals = {n for st in ast.walk(fnode) if isinstance(st, ast.Nonlocal) for n in st.names}
        err = self.bind_params(p, fnode, args, kwargs, fr, mod)
        if err is not None:
            return [(p, err)]
        p.frames.append(fr)
        if fn is not None and getattr(fn, "ghost_init", None):
            self.run_ghost(p, fn.ghost_init)
        body = extract.strip_docstring(fnode.body) if not isinstance(fnode, ast.Lambda) else None
        out = []
        if body is None:
            res = [(q, ("return", v) if not isinstance(v, Exc) else ("raise", v)) for q, v in self.ev(fnode.body, p)]
        else:
            res = self.ex(body, p)
        for q, oc in res:
            fr_done = q.frames.pop()
            gh = {k: v for k, v in fr_done.locals.items() if k.startswith("g_")}
            if gh:
                q.ghost["$exit_ghost"] = gh       # ghost locals are visible to post-conditions of every exit
            if oc is NEXT:
                out.append((q, VNone()))
            elif oc[0] == "return":
                out.append((q, oc[1]))
            elif oc[0] == "raise":
                out.append((q, oc[1]))
            else:
                raise Unsupported(f"{oc} escapes function")
        return out

    def call_generator(self, p, fn, fnode, mod, args, kwargs, node, cls, closure):
        raise Unsupported(f"generator function {fnode.name}")

    def call_closure(self, p, f: VFunc, args, kwargs, node):
        fnode, frame = f.payload
        # the closure frame must be the one on *this* path (paths copy frames)
        cf = self._rebind_frame(p, frame)
        fn = FnDecl(f"<closure {getattr(fnode, 'name', 'lambda')}>", "inline")
        fn.node = fnode
        parent = cf.fn
        if parent is not None:
            fn.cover_fqn = parent.fqn if parent.mod is not None else getattr(parent, "cover_fqn", None)
            fn.local_containers = getattr(parent, "local_containers", ())
            fn.ghost = getattr(parent, "ghost", None)
            fn._ghost_hits = getattr(parent, "_ghost_hits", set())
            fn._loop_ids = self.loop_ordinals(parent) if (parent.mod or getattr(parent, "node", None)) else {}
            fn.loops = parent.loops          # (after loop_ordinals: ordinal keys may have been re-anchored)
            fn._loop_headers = getattr(parent, "_loop_headers", {})
            fn.local_types = parent.local_types
        return self.inline(p, fn, fnode, cf.mod, args, kwargs, node, cls=cf.cls, closure=cf)

    def _rebind_frame(self, p, frame):
        if frame in p.frames:
            return frame
        # same position in the copied stack
        for f in p.frames:
            if f.fn is frame.fn and f.mod == frame.mod and set(frame.locals) <= set(f.locals) | {"$"}:
                return f
        return frame

    # ---------------------------------------------------------------- contracts at call sites
    def call_contract(self, p, fn: FnDecl, args, kwargs, node):
        w = f"L{getattr(node, 'lineno', '?')}"
        self.note_function(fn, "contract (assumed at call sites, proved at its own target)" if fn.fqn in self.targets_by_fqn else "contract (assumed)")
        fnode = fn.extracted().node if fn.mod else None
        fr = Frame(fn, fn.mod)
        if fnode is not None:
            err = self.bind_params(p, fnode, args, kwargs, fr, fn.mod)
            if err is not None:
                return [(p, err)]
        else:
            for n, a in zip(fn.params or [], args):
                fr.locals[n] = a
            fr.locals.update(kwargs)
        env = dict(fr.locals)
        # ghost access to the caller's variables in call-site preconditions: caller_<name>
        for k, v in p.frame.locals.items():
            if not k.startswith("$"):
                env["caller_" + k] = v
        for i, r in enumerate(fn.requires):
            self.oblige(p, self.spec_bool(r, p, env), "call-pre", f"{w}:{fn.qual or fn.fqn}#{i}")
        pre_heap = (dict(p.heap), p.epoch)
        outs = []
        # exceptional exits
        for exc, posts in fn.raises.items():
            q = p.copy()
            # an exit whose contract starts with unchanged(<every field in modifies>) leaves the heap as it is:
            # no havoc (and no array equalities for the solver to chew on)
            nochange = bool(posts) and self._covers_modifies(posts[0], fn.modifies)
            if nochange:
                posts = posts[1:]
            elif not fn.pure:
                self.havoc_for_spec(q, fn.modifies)
            if getattr(fn, "edits_ir", False) and not nochange:
                self.mark_dirty(q, f"{fn.qual or fn.fqn} at {w}")
            q.old_heaps.append(pre_heap)
            for s in posts:
                q.assume(self.spec_bool(s, q, env))
            q.old_heaps.pop()
            if self.feasible(q):
                outs.append((q, Exc(exc, f"{w}:{fn.qual}")))
        if not fn.pure:
            self.havoc_for_spec(p, fn.modifies)
        if getattr(fn, "edits_ir", False):
            # a callee declared to edit IR state: an edit event for the effect obligations (ir_clean(), g_edits)
            self.mark_dirty(p, f"{fn.qual or fn.fqn} at {w}")
        res = fn.ret.fresh("ret_" + (fn.qual or "f").replace(".", "_")) if fn.ret is not None else VNone()
        if fn.ret is not None:
            self.assume_typed(p, res)
        env2 = dict(env)
        env2["result"] = res
        p.old_heaps.append(pre_heap)
        for s in fn.ensures:
            p.assume(self.spec_bool(s, p, env2))
        p.old_heaps.pop()
        if self.feasible(p):
            outs.append((p, res))
        return outs

    def _covers_modifies(self, spec, modifies):
        if not isinstance(spec, str) or not spec.startswith("unchanged(") or modifies is None:
            return False
        try:
            node = ast.parse(spec, mode="eval").body
            named = {a.value for a in node.args}
        except Exception:
            return False
        return all(m in named or m == "$alloc" for m in modifies)

    def call_opaque_fn(self, p, fn: FnDecl, args, kwargs, node):
        self.assumptions_used.add(f"opaque callee {fn.fqn}: no effect on modelled state, arbitrary result")
        res = fn.ret.fresh("ret") if fn.ret is not None else VOpaque(fn.fqn)
        outs = [(p, res)]
        for exc in fn.raises:
            q = p.copy()
            outs.append((q, Exc(exc, f"L{getattr(node, 'lineno', '?')}:{fn.fqn}")))
        return outs

    # ---------------------------------------------------------------- constructors
    def construct(self, p: Path, c: VClass, args, kwargs, node):
        if c.name.startswith("exc:"):
            return [(p, VOpaque(c.name))]
        d = self.classes.get(c.name)
        if d is None:
            raise Unsupported(f"construct unknown class {c.name}")
        if d.record is not None:
            names = [n for n, _ in d.record.fields]
            vals = dict(zip(names, args))
            vals.update(kwargs)
            dflt = getattr(d, "record_defaults", {})
            for n, t in d.record.fields:
                if n not in vals:
                    if n in dflt:
                        vals[n] = dflt[n]
                    else:
                        return [(p, Exc("TypeError", f"missing field {n}"))]
            return [(p, VRec(d.record, {n: coerce(vals[n], t) for n, t in d.record.fields}))]
        r = self.construct_extra(p, c, args, kwargs, node)
        if r is not None:
            return r
        obj = self.new_object(p, c.name)
        m = self.find_method(c.name, "__init__")
        if m is None:
            dc = getattr(d, "dataclass_fields", None)
            if dc:      # @dataclass: the generated __init__ stores its arguments field by field
                vals = dict(zip(dc, args))
                vals.update(kwargs)
                for fname in dc:
                    if fname not in vals:
                        return [(p, Exc("TypeError", f"missing field {fname}"))]
                    self.write_field(p, obj, fname, vals[fname])
            return [(p, obj)]
        fn = self.fn_for(m[0], "__init__")
        return [(q, obj if not isinstance(r, Exc) else r) for q, r in self.call_fn(p, fn, [obj] + args, kwargs, node)]

    def construct_extra(self, p, c, args, kwargs, node):
        return None

    # ---------------------------------------------------------------- with
    def with_enter(self, p, cm, item, s):
        if isinstance(cm, VOpaque):
            return [(p, cm)]
        r = self.with_enter_extra(p, cm, item, s)
        if r is not None:
            return r
        raise Unsupported(f"with on {cm!r}")

    def with_enter_extra(self, p, cm, item, s):
        return None

    def with_exit(self, p, cm, oc, s):
        if isinstance(cm, VOpaque):
            if cm.what.startswith("suppress:") and oc[0] == "raise":
                from .core import exc_isinstance
                if any(exc_isinstance(oc[1].cls, n) for n in cm.what[9:].split(",")):
                    return [(p, NEXT)]
            return [(p, oc)]
        r = self.with_exit_extra(p, cm, oc, s)
        if r is not None:
            return r
        return [(p, oc)]

    def with_exit_extra(self, p, cm, oc, s):
        return None

    # ---------------------------------------------------------------- comprehensions
    def comprehension(self, node, p: Path, kind):
        if len(node.generators) != 1:
            if self.lenient and all(self.is_pure_elt(x) for g_ in node.generators for x in [g_.iter] + list(g_.ifs)) and \
                    all(self.is_pure_elt(x) for x in ([node.elt] if kind != "dict" else [node.key, node.value])):
                # effect obligations: a side-effect-free comprehension over several generators builds an unmodelled container
                return [(p, VOpaque("comprehension over several generators")), (p.copy(), Exc("AnyException", f"L{node.lineno}:comprehension"))]
            raise Unsupported("comprehension with several generators")
        g = node.generators[0]
        spec, ordinal = self.loop_spec(node, p)

        def k(q, itv):
            if self.lenient and (isinstance(itv, VOpaque) or (isinstance(itv, VRef) and itv.cls in ("list[?]", "dict[?]", "set[?]"))):
                # unknown number of arbitrary elements: evaluate the element expression once on a scratch path to see
                # whether it could touch IR state (dirty mark) and produce an unmodelled container
                scratch = q.copy()
                for t in ([g.target] if isinstance(g.target, ast.Name) else list(ast.walk(g.target))):
                    if isinstance(t, ast.Name):
                        scratch.frame.locals[t.id] = VOpaque("element of unmodelled iterable")
                exprs = ([node.elt] if kind != "dict" else [node.key, node.value]) + list(g.ifs)
                for r_q, r_v in self.ev_list(exprs, scratch):
                    if r_q.ghost.get("$ir_dirty"):
                        q.ghost["$ir_dirty"] = r_q.ghost["$ir_dirty"]
                q2 = q.copy()
                return [(q, VOpaque("comprehension over unmodelled values")), (q2, Exc("AnyException", f"L{node.lineno}:comprehension"))]
            seq = self.iter_seq(itv, q) if not isinstance(itv, VTup) else self.to_seq(itv, q) if itv.items else None
            if seq is None:
                return [(q, self._empty_result(kind, q))]
            elt = node.elt if kind != "dict" else None
            pure = all(self.is_pure_elt(x) for x in ([elt] if elt is not None else [node.key, node.value]) + list(g.ifs))
            if pure and spec is None and kind in ("list", "gen", "set") and not g.ifs:
                r = self.map_comprehension(q, node, g, seq, kind)
                if r is not None:
                    return r
            if pure and spec is None and kind == "dict" and not g.ifs:
                r = self.dict_map_comprehension(q, node, g, seq)
                if r is not None:
                    return r
            if pure and spec is None and kind in ("list", "gen") and g.ifs:
                r = self.filter_comprehension(q, node, g, seq, kind)
                if r is not None:
                    return r
            return self.loop_comprehension(q, node, g, seq, kind, spec, ordinal)
        return self.bind(self.ev(g.iter, p), k)

    def _empty_result(self, kind, p):
        if kind in ("list",):
            return self.new_object(p, "list[?]", "list")
        return VTup([])

    def is_pure_elt(self, node):
        """Element expression free of effects and of raises: names, attributes of the loop variable, comparisons,
        arithmetic, conditional expressions, tuples, whitelisted pure calls."""
        for n in ast.walk(node):
            if isinstance(n, (ast.NamedExpr, ast.Await, ast.Yield, ast.YieldFrom, ast.ListComp, ast.GeneratorExp, ast.Lambda)):
                return False
            if isinstance(n, ast.Call):
                f = n.func
                nm = f.id if isinstance(f, ast.Name) else f.attr if isinstance(f, ast.Attribute) else None
                if nm not in self.pure_calls:
                    return False
        return True

    pure_calls = {"len", "isinstance", "id", "max", "min", "repr", "str", "fspath", "uses", "producer", "is_initializer",
                  "is_graph_input", "is_graph_output"}

    def map_comprehension(self, p, node, g, seq, kind):
        """[f(x) for x in seq] with a pure, non-raising f: a lambda array. Falls back (None) if f forks."""
        i = z3.Int(fresh_name("mi"))
        q = p.copy()
        fr = q.frame
        saved = dict(fr.locals)
        cur = seq.at(i)
        res = self.assign(g.target, cur, q)
        if len(res) != 1 or res[0][1] is not NEXT:
            return None
        n0 = len(q.pc)
        q.assume(z3.And(0 <= i, i < seq.len))
        self.assume_typed(q, cur)
        try:
            r = self.ev(node.elt, q)
        except Unsupported:
            return None
        normal = [(qq, vv_) for qq, vv_ in r if not isinstance(vv_, Exc)]
        if len(normal) != 1:
            return None
        if len(r) > 1 and not self.lenient:
            # exceptional branches of the element expression must be infeasible (obligations), see dict_map_comprehension
            for qq, vv_ in r:
                if isinstance(vv_, Exc):
                    self.oblige(qq, z3.BoolVal(False), "comprehension-element-cannot-raise", f"{vv_.cls}@L{node.lineno}")
        elif len(r) > 1:
            return None
        q2, v = normal[0]
        if isinstance(v, VNone):
            return None
        if v.ty is None or isinstance(v, VTup) and v.ty is None:
            return None
        # facts assumed while evaluating the element (typing of heap reads) hold for every index
        extra = q2.pc[n0 + 1:]
        for c in extra:
            p.assume(z3.ForAll([i], z3.Implies(z3.And(0 <= i, i < seq.len), c)))
        p.heap = q2.heap
        arrs = [z3.Lambda([i], c) for c in v.comps()]
        out = VSeq(seq.len, arrs, v.ty)
        if kind == "set":
            x = [z3.Const(fresh_name("sx"), s) for s in v.ty.sorts()]
            j = z3.Int(fresh_name("sj"))
            mem = z3.Exists([j], z3.And(0 <= j, j < seq.len, *[z3.Select(a, j) == xx for a, xx in zip(arrs, x)]))
            return [(p, VSet(z3.Lambda(x, mem), v.ty))]
        if kind == "list":
            return [(p, self.new_box(p, "list", [v.ty], out))]
        return [(p, out)]

    def dict_map_comprehension(self, p, node, g, seq):
        """{k(x): v(x) for x in seq} with pure, non-raising k and v: the dictionary whose domain is {k(x_j)} and whose value
        at a key is v(x_w) for the LAST position w carrying that key (later entries overwrite earlier ones).  `w` is an
        uninterpreted witness function constrained by: for every j, key(j) is in the domain, j <= w(key(j)) < len and
        key(w(key(j))) == key(j)  (a definitional extension: such a position always exists).  The insertion order of the
        keys is left unconstrained (only look-ups are modelled)."""
        i = z3.Int(fresh_name("di"))
        q = p.copy()
        cur = seq.at(i)
        res = self.assign(g.target, cur, q)
        if len(res) != 1 or res[0][1] is not NEXT:
            return None
        n0 = len(q.pc)
        q.assume(z3.And(0 <= i, i < seq.len))
        self.assume_typed(q, cur)
        try:
            r = self.ev_list([node.key, node.value], q)
        except Unsupported:
            return None
        normal = [(qq, vv_) for qq, vv_ in r if not isinstance(vv_, Exc)]
        if len(normal) != 1:
            return None
        # an element expression that could raise (e.g. an attribute of a possibly-null element) is not a pure map: each
        # exceptional branch must be infeasible - an obligation, discharged like any other
        for qq, vv_ in r:
            if isinstance(vv_, Exc):
                self.oblige(qq, z3.BoolVal(False), "comprehension-element-cannot-raise", f"{vv_.cls}@L{node.lineno}")
        r = normal
        q2, (kv, vv) = r[0]
        if kv.ty is None or vv.ty is None or isinstance(kv, (VNone, VOpaque)) or isinstance(vv, (VNone, VOpaque)):
            return None
        for c in q2.pc[n0 + 1:]:
            p.assume(z3.ForAll([i], z3.Implies(z3.And(0 <= i, i < seq.len), c)))
        p.heap = q2.heap
        kty, vty = kv.ty, vv.ty
        ks = kty.sorts()
        karr = [z3.Lambda([i], c) for c in kv.comps()]
        varr = [z3.Lambda([i], c) for c in vv.comps()]
        wit = z3.Function(fresh_name("dictw"), *ks, z3.IntSort())
        kx = [z3.Const(fresh_name("dk"), so) for so in ks]
        j = z3.Int(fresh_name("dj"))
        in_dom = z3.Exists([j], z3.And(0 <= j, j < seq.len, *[beta_select(a, j) == x for a, x in zip(karr, kx)]))
        dom = z3.Lambda(kx, in_dom)
        vals = [z3.Lambda(kx, beta_select(a, wit(*kx))) for a in varr]
        keyj = [beta_select(a, j) for a in karr]
        w = wit(*keyj)
        p.assume(z3.ForAll([j], z3.Implies(z3.And(0 <= j, j < seq.len),
                                           z3.And(j <= w, w < seq.len, *[beta_select(a, w) == kj for a, kj in zip(karr, keyj)])),
                           patterns=[wit(*keyj)] if not any(z3.is_quantifier(a) for a in karr) else []))
        from .types import TMap, VMap
        mty = TMap(kty, vty, ordered=True)
        keys = TSeq(kty).fresh("dkeys")
        p.assume(keys.len >= 0)
        m = VMap(dom, vals, keys, mty)
        return [(p, self.new_box(p, "dict", [kty, vty], m))]

    def filter_comprehension(self, p, node, g, seq, kind):
        return None

    def loop_comprehension(self, p, node, g, seq, kind, spec, ordinal):
        """Effectful comprehension = a for-loop appending to a fresh list, cut with the contract's invariant.
        The accumulated list is available to invariants as `acc`."""
        if kind not in ("list", "gen"):
            if self.lenient and all(self.is_pure_elt(x) for x in ([node.elt] if kind != "dict" else [node.key, node.value]) + list(g.ifs)):
                return [(p, VOpaque(f"{kind} comprehension over modelled values (contents not modelled)")),
                        (p.copy(), Exc("AnyException", f"L{node.lineno}:comprehension"))]
            raise Unsupported(f"effectful {kind} comprehension")
        ety = (spec.elem if spec is not None and getattr(spec, "elem", None) is not None else None)
        if ety is None and self.lenient:
            q = p.copy()
            return [(p, VOpaque("comprehension over unmodelled values")), (q, Exc("AnyException", f"L{node.lineno}:comprehension"))]
        if ety is None:
            raise Unsupported(f"comprehension at L{node.lineno} needs a loop spec with elem type (ordinal {ordinal})")
        acc_name = f"$acc{ordinal}"
        acc = self.new_box(p, "list", [ety], VSeq.empty(ety))
        p.frame.locals[acc_name] = acc
        body = [ast.Expr(ast.Call(ast.Attribute(ast.Name(acc_name, ast.Load()), "append", ast.Load()), [node.elt], []))]
        for cond in reversed(g.ifs):
            body = [ast.If(cond, body, [])]
        loop = ast.For(g.target, ast.Constant(None), body, [], lineno=node.lineno)
        ast.fix_missing_locations(loop)
        for n in ast.walk(loop):
            if not hasattr(n, "lineno"):
                n.lineno = node.lineno
        sp = LoopSpec([s.replace("acc", acc_name) if False else s for s in spec.invariant], spec.modifies)
        self._acc_alias = acc_name
        fn = p.frame.fn
        ids = self.loop_ordinals(fn)
        ids[id(loop)] = ordinal
        res = self.run_loop(p, loop, sp, ordinal, "for", seq=seq)
        out = []
        for q, oc in res:
            if oc is NEXT:
                a = q.frame.locals[acc_name]
                out.append((q, a if kind == "list" else self.box_value(q, a)))
            elif oc[0] == "raise":
                out.append((q, oc[1]))
            else:
                raise Unsupported("control flow out of comprehension")
        return out


def _is_generator(fnode):
    if isinstance(fnode, ast.Lambda):
        return False
    for n in _walk_no_nested(fnode):
        if isinstance(n, (ast.Yield, ast.YieldFrom)):
            return True
    return False


def _walk_no_nested(fnode):
    stack = list(ast.iter_child_nodes(fnode))
    while stack:
        n = stack.pop()
        yield n
        if isinstance(n, (ast.FunctionDef, ast.Lambda, ast.AsyncFunctionDef)):
            continue
        stack.extend(ast.iter_child_nodes(n))
