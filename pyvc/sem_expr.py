"""Expression semantics (symbolic). ev(node, path) -> list of (path, V | Exc)."""
from __future__ import annotations

import ast
import z3

from .core import Exc, Path, Unsupported
from .types import *  # noqa: F401,F403
from .types import (BOOL, INT, NULL, STR, TBV, TInt, TMap, TOpt, TRec, TRef, TSeq, TSet, TStr, TTup, V, VBV, VBag, VBool,
                    VClass, VFunc, VInt, VMap, VModule, VNone, VOpaque, VOpt, VRec, VRef, VSeq, VSet, VStr, VTup,
                    coerce, fresh_name, ite, val_eq)


def pyfloordiv(a, b):
    return z3.If(b > 0, a / b, (-a) / (-b))


def pymod(a, b):
    return a - b * pyfloordiv(a, b)


class ExprMixin:
    spec_mode = False
    method_models: dict = {}     # (class, method) -> FnDecl for methods of classes that are not extracted

    # ---------------------------------------------------------------- helpers
    def bind(self, results, f):
        """results: list[(p, V|Exc)]; f(p, v) -> list[(p, V|Exc)]. Exceptions pass through."""
        out = []
        for p, v in results:
            if isinstance(v, Exc):
                out.append((p, v))
            else:
                out.extend(f(p, v))
        return out

    def ev_list(self, nodes, p):
        """Evaluate expressions left to right -> list[(p, [V...] | Exc)]."""
        res = [(p, [])]
        for n in nodes:
            nxt = []
            for q, acc in res:
                if isinstance(acc, Exc):
                    nxt.append((q, acc))
                    continue
                for q2, v in self.ev(n, q):
                    nxt.append((q2, v if isinstance(v, Exc) else acc + [v]))
            res = nxt
        return res

    def raise_if(self, p: Path, cond, exc: str, where, cont):
        """Fork: cond -> raise exc; else cont(p)."""
        pt, pf = self.fork(p, cond, f"{exc}@{where}")
        out = []
        if pt is not None:
            out.append((pt, Exc(exc, where)))
        if pf is not None:
            out.extend(cont(pf))
        return out

    def truth(self, v: V, p: Path = None):
        if isinstance(v, VBool):
            return v.z
        if isinstance(v, VInt):
            return v.z != 0
        if isinstance(v, VNone):
            return z3.BoolVal(False)
        if isinstance(v, VStr):
            return v.z != VStr("").z
        if isinstance(v, VOpt):
            return z3.And(z3.Not(v.isnone), self.truth(v.val, p))
        if isinstance(v, (VSeq,)):
            return v.len > 0
        if isinstance(v, VTup):
            return z3.BoolVal(len(v.items) > 0)
        if isinstance(v, VMap):
            if v.keys is None:
                raise Unsupported("truthiness of unordered map")
            return v.keys.len > 0
        if isinstance(v, VRef):
            if v.cls is not None and self.classes.get(v.cls) and self.classes[v.cls].box:
                kind = self.classes[v.cls].box[0]
                bv = self.box_value(p, v)
                if kind == "list":
                    return z3.And(v.z != NULL, bv.len > 0)
                if kind == "dict":
                    return z3.And(v.z != NULL, bv.keys.len > 0)
                raise Unsupported(f"truthiness of {kind}")
            if v.cls is not None and (self.find_method(v.cls, "__len__") or self.find_method(v.cls, "__bool__")):
                if self.lenient:
                    # effect obligations only: None is falsy, anything else is whatever its __len__/__bool__ says (unknown)
                    return z3.And(v.z != NULL, z3.Bool(fresh_name("truthy")))
                raise Unsupported(f"truthiness of {v.cls} with __len__/__bool__")
            return v.z != NULL
        if isinstance(v, (VFunc, VClass, VModule)):
            return z3.BoolVal(True)
        if isinstance(v, VRec):
            return z3.BoolVal(True)
        if isinstance(v, VOpaque):
            b = z3.Bool(fresh_name("opaque_truth"))
            return b
        raise Unsupported(f"truthiness of {v!r}")

    def where(self, node):
        return f"L{getattr(node, 'lineno', '?')}"

    # ---------------------------------------------------------------- dispatch
    def ev(self, node, p: Path):
        m = getattr(self, "ev_" + type(node).__name__, None)
        if m is None:
            raise Unsupported(f"expression {type(node).__name__} at {self.where(node)}")
        return m(node, p)

    def ev_Constant(self, node, p):
        c = node.value
        if c is None:
            return [(p, VNone())]
        if isinstance(c, bool):
            return [(p, VBool(c))]
        if isinstance(c, int):
            return [(p, VInt(c))]
        if isinstance(c, str):
            return [(p, VStr(c))]
        if c is Ellipsis:
            return [(p, VOpaque("..."))]
        if isinstance(c, (float, bytes)):
            return [(p, VOpaque(repr(c)))]
        raise Unsupported(f"constant {c!r}")

    def ev_Name(self, node, p):
        return [(p, self.lookup_name(node.id, p, node))]

    def lookup_name(self, name, p: Path, node=None):
        if self.spec_mode and name in self.spec_env:
            return self.spec_env[name]      # contract variables shadow the locals of the frame being executed
        v = p.frame.lookup(name)
        if v is not None:
            return v
        if name.startswith("g_"):
            # ghost locals belong to the target, not to whichever helper is being inlined when a model consults them
            for f in reversed(p.frames):
                if name in f.locals:
                    return f.locals[name]
        g = self.lookup_global(name, p.frame.mod, p)
        if g is not None:
            return g
        if self.lenient:
            return VOpaque("global:" + name)
        raise Unsupported(f"unbound name {name} at {self.where(node) if node else '?'} in {p.frame.mod}")

    def ev_JoinedStr(self, node, p):
        # f-string: contents are only used for messages unless a contract models it (injective ufunc)
        if getattr(self, "fstring_model", None):
            r = self.fstring_model(node, p)
            if r is not None:
                return r
        return [(p, VStr(z3.Const(fresh_name("fstr"), STR.sorts()[0])))]

    def ev_FormattedValue(self, node, p):
        return [(p, VOpaque("fmt"))]

    def ev_Tuple(self, node, p):
        if any(isinstance(e, ast.Starred) for e in node.elts):
            return self._ev_star_seq(node.elts, p, "tuple")
        return self.bind(self.ev_list(node.elts, p), lambda q, vs: [(q, VTup(vs))])

    def _ev_star_seq(self, elts, p, kind):
        def fin(q, vs):
            seq = None
            if self.lenient and any(isinstance(v, VOpaque) for v in vs):
                return [(q, VOpaque("display with unmodelled parts"))]
            for e, v in zip(elts, vs):
                if isinstance(e, ast.Starred):
                    part = self.to_seq(v, q)
                else:
                    part = VSeq.of([v], v.ty)
                seq = part if seq is None else self.seq_concat(seq, part)
            return [(q, seq)]
        return self.bind(self.ev_list([e.value if isinstance(e, ast.Starred) else e for e in elts], p), fin)

    def ev_List(self, node, p):
        hint = self.pending_list_hint      # Ty of the whole literal (TRef to a list box class) or None
        self.pending_list_hint = None
        ety_hint = None
        if hint is not None and isinstance(hint, TRef) and hint.cls in self.classes and self.classes[hint.cls].box:
            ety_hint = self.classes[hint.cls].box[1]

        def fin(q, vs):
            if not vs:
                if ety_hint is not None:
                    return [(q, self.new_box(q, "list", [ety_hint], VSeq.empty(ety_hint)))]
                return [(q, self.new_object(q, "list[?]", "list"))]
            if any(isinstance(v, VOpaque) for v in vs):
                return [(q, VOpaque("list of unmodelled values"))]
            ety = ety_hint or self.join_types([v for v in vs])
            return [(q, self.new_box(q, "list", [ety], VSeq.of([self.adapt(q, v, ety) for v in vs], ety)))]
        if ety_hint is not None and node.elts:
            res = [(p, [])]
            for n in node.elts:
                nxt = []
                for q, acc in res:
                    if isinstance(acc, Exc):
                        nxt.append((q, acc))
                        continue
                    self.pending_list_hint = ety_hint if isinstance(n, ast.List) else None
                    for q2, v in self.ev(n, q):
                        nxt.append((q2, v if isinstance(v, Exc) else acc + [v]))
                    self.pending_list_hint = None
                res = nxt
            return self.bind(res, fin)
        return self.bind(self.ev_list(node.elts, p), fin)

    pending_list_hint = None

    def join_types(self, vs):
        ty = None
        for v in vs:
            t = v.ty
            if isinstance(v, VNone):
                continue
            if ty is None:
                ty = t
            elif ty != t:
                if isinstance(ty, TRef) and isinstance(t, TRef):
                    ty = TRef(None) if ty.cls != t.cls else ty
                else:
                    raise Unsupported(f"heterogeneous container {ty} / {t}")
        if ty is None:
            ty = TRef(None)
        if any(isinstance(v, VNone) for v in vs) and not isinstance(ty, (TRef, TOpt)):
            ty = TOpt(ty)
        return ty

    def ev_Dict(self, node, p):
        if node.keys:
            if not self.lenient:
                raise Unsupported("non-empty dict literal")
            # lenient mode (effect obligations): a dict display with entries / unpackings is a NEW dictionary whose contents
            # are not modelled; its parts are evaluated for their effects
            def fin(q, vs):
                r = self.new_object(q, "dict[?]", "dict")
                q.ghost["$opaque_boxes"] = q.ghost.get("$opaque_boxes", frozenset()) | {str(r.z)}
                return [(q, r)]
            parts = [k for k in node.keys if k is not None] + list(node.values)
            return self.bind(self.ev_list(parts, p), fin)
        r = self.new_object(p, "dict[?]", "dict")
        return [(p, r)]

    def ev_Set(self, node, p):
        def fin(q, vs):
            if any(isinstance(v, (VOpaque, VModule, VFunc, VClass)) for v in vs):
                return [(q, VOpaque("set of unmodelled values"))]
            ety = self.join_types(vs)
            s = VSet.empty(ety)
            for v in vs:
                s = VSet(z3.Store(s.arr, *coerce(v, ety).comps(), z3.BoolVal(True)), ety)
            return [(q, s)]  # immutable-set value; code that mutates a set literal is unsupported
        return self.bind(self.ev_list(node.elts, p), fin)

    def ev_BoolOp(self, node, p):
        is_and = isinstance(node.op, ast.And)

        def go(q, idx):
            def k(q2, v):
                if idx == len(node.values) - 1:
                    return [(q2, v)]
                t = self.truth(v, q2)
                pt, pf = self.fork(q2, t, f"bool{self.where(node)}")
                out = []
                cont, stop = (pt, pf) if is_and else (pf, pt)
                if cont is not None:
                    out.extend(go(cont, idx + 1))
                if stop is not None:
                    # `x or y` stops on a truthy x: an optional that is truthy is not None
                    out.append((stop, v.val if (not is_and and isinstance(v, VOpt)) else v))
                return out
            return self.bind(self.ev(node.values[idx], q), k)

        if self.spec_mode or all(self.is_pure_expr(v) for v in node.values):
            # no forking for pure operands: build the z3 connective (values must be boolean-ish)
            def fin(q, vs):
                ts = [self.truth(v, q) for v in vs]
                if all(isinstance(v, VBool) for v in vs):
                    return [(q, VBool(z3.And(ts) if is_and else z3.Or(ts)))]
                # python value semantics: a and b -> b if truth(a) else a
                acc = vs[-1]
                for v, t in zip(reversed(vs[:-1]), reversed(ts[:-1])):
                    try:
                        acc = ite(t, acc, v) if is_and else ite(t, v, acc)
                    except TypeError:
                        acc = VBool(z3.And(ts) if is_and else z3.Or(ts))
                        break
                return [(q, acc)]
            try:
                return self.bind(self.ev_list_guarded(node.values, p, is_and), fin)
            except _NeedFork:
                pass
        return go(p, 0)

    def ev_list_guarded(self, nodes, p, is_and):
        """Evaluate pure operands of and/or; if a later operand could raise (e.g. None deref guarded by an
        earlier operand) fall back to forking evaluation."""
        res = self.ev_list(nodes, p if self.spec_mode else p.copy())
        if len(res) != 1 or isinstance(res[0][1], Exc):
            raise _NeedFork()
        return res

    def is_pure_expr(self, node) -> bool:
        """Syntactic: no calls (except whitelisted pure builtins), no walrus, no attribute on a possibly-None."""
        for n in ast.walk(node):
            if isinstance(n, (ast.NamedExpr, ast.Await, ast.Yield, ast.YieldFrom, ast.Lambda, ast.ListComp,
                              ast.GeneratorExp, ast.SetComp, ast.DictComp)):
                return False
            if isinstance(n, ast.Call):
                if not (isinstance(n.func, ast.Name) and n.func.id in ("len", "isinstance", "id", "old", "implies",
                                                                      "max", "min", "abs")):
                    return False
            if isinstance(n, (ast.Attribute, ast.Subscript)) and not self.spec_mode:
                return False
        return True

    def ev_UnaryOp(self, node, p):
        def k(q, v):
            if isinstance(node.op, ast.Not):
                return [(q, VBool(z3.Not(self.truth(v, q))))]
            if isinstance(v, VOpt) and isinstance(node.op, (ast.USub, ast.UAdd, ast.Invert)):
                # arithmetic on an optional: TypeError when it is None
                return self.raise_if(q, v.isnone, "TypeError", self.where(node), lambda q2: k(q2, v.val))
            if isinstance(node.op, ast.USub):
                if isinstance(v, VInt):
                    return [(q, VInt(-v.z))]
            if isinstance(node.op, ast.UAdd) and isinstance(v, VInt):
                return [(q, v)]
            if isinstance(node.op, ast.Invert) and isinstance(v, VBV):
                return [(q, VBV(~v.z, v.bits))]
            return self.unary_extra(node, q, v)
        return self.bind(self.ev(node.operand, p), k)

    def unary_extra(self, node, p, v):
        if isinstance(v, VOpaque):
            return [(p, VOpaque("arith on unmodelled value"))]
        raise Unsupported(f"unary {type(node.op).__name__} on {v!r}")

    def ev_BinOp(self, node, p):
        return self.bind(self.ev_list([node.left, node.right], p),
                         lambda q, vs: self.deopt(q, vs, self.where(node), lambda q2, un: self.binop(node.op, un[0], un[1], q2, node)))

    def binop(self, op, a: V, b: V, p: Path, node=None):
        w = self.where(node) if node is not None else ""
        if isinstance(a, VOpaque) or isinstance(b, VOpaque):
            return [(p, VOpaque("arith on unmodelled value"))]
        if isinstance(a, VBool):
            a = coerce(a, INT)
        if isinstance(b, VBool):
            b = coerce(b, INT)
        if isinstance(a, VInt) and isinstance(b, VInt):
            x, y = a.z, b.z
            if isinstance(op, ast.Add):
                return [(p, VInt(x + y))]
            if isinstance(op, ast.Sub):
                return [(p, VInt(x - y))]
            if isinstance(op, ast.Mult):
                return [(p, VInt(x * y))]
            if isinstance(op, ast.FloorDiv):
                return self.raise_if(p, y == 0, "ZeroDivisionError", w, lambda q: [(q, VInt(pyfloordiv(x, y)))])
            if isinstance(op, ast.Mod):
                return self.raise_if(p, y == 0, "ZeroDivisionError", w, lambda q: [(q, VInt(pymod(x, y)))])
            ca, cb = a.concrete(), b.concrete()
            if ca is not None and cb is not None:
                import operator
                f = {ast.LShift: operator.lshift, ast.RShift: operator.rshift, ast.BitAnd: operator.and_,
                     ast.BitOr: operator.or_, ast.BitXor: operator.xor, ast.Pow: operator.pow}.get(type(op))
                if f is not None:
                    return [(p, VInt(f(ca, cb)))]
            if isinstance(op, ast.LShift) and cb is not None:
                return [(p, VInt(x * (2 ** cb)))]
            if isinstance(op, ast.RShift) and cb is not None:
                return [(p, VInt(pyfloordiv(x, z3.IntVal(2 ** cb))))]
            raise Unsupported(f"int op {type(op).__name__} at {w}")
        if isinstance(op, ast.Add):
            if isinstance(a, (VSeq, VTup)) and isinstance(b, (VSeq, VTup)):
                if isinstance(a, VTup) and isinstance(b, VTup):
                    return [(p, VTup(a.items + b.items))]
                sa, sb = self.to_seq(a, p), self.to_seq(b, p, like=self.to_seq(a, p).elem)
                return [(p, self.seq_concat(sa, sb))]
            if isinstance(a, VStr) and isinstance(b, VStr):
                return [(p, self.str_concat(a, b))]
        if isinstance(op, ast.Mult):
            if isinstance(a, VTup) and isinstance(b, VInt):
                return [(p, self.seq_repeat(a, b))]
            if isinstance(a, VStr) and isinstance(b, VInt):
                return [(p, VStr(z3.Const(fresh_name("strmul"), STR.sorts()[0])))]
        if isinstance(op, ast.BitOr) and isinstance(a, VSet) and isinstance(b, VSet):
            x = [z3.Const(fresh_name("e"), s) for s in a.elem.sorts()]
            return [(p, VSet(z3.Lambda(x, z3.Or(z3.Select(a.arr, *x), z3.Select(b.arr, *x))), a.elem))]
        if isinstance(op, ast.Mod) and isinstance(a, VStr):
            return [(p, VStr(z3.Const(fresh_name("strfmt"), STR.sorts()[0])))]
        if isinstance(op, ast.BitOr) and all(isinstance(x, VRef) and x.cls in self.classes and self.classes[x.cls].box
                                             and self.classes[x.cls].box[0] == "set" for x in (a, b)):
            sa, sb = self.box_value(p, a), self.box_value(p, b)
            x = [z3.Const(fresh_name("e"), s) for s in sa.elem.sorts()]
            u = VSet(z3.Lambda(x, z3.Or(z3.Select(sa.arr, *x), z3.Select(sb.arr, *x))), sa.elem)
            return [(p, self.new_box(p, "set", [sa.elem], u))]
        r = self.binop_extra(op, a, b, p, node)
        if r is not None:
            return r
        raise Unsupported(f"binop {type(op).__name__} on {a!r}, {b!r} at {w}")

    def binop_extra(self, op, a, b, p, node):
        from .types import VReal, REAL
        if isinstance(a, VReal) or isinstance(b, VReal):
            x, y = coerce(a, REAL).z, coerce(b, REAL).z
            r = {ast.Add: lambda: x + y, ast.Sub: lambda: x - y, ast.Mult: lambda: x * y, ast.Div: lambda: x / y}.get(type(op))
            if r is not None:
                return [(p, VReal(r()))]
        return None

    def str_concat(self, a, b):
        from . import types as T
        if T._USE_Z3_STRINGS:
            return VStr(z3.Concat(a.z, b.z))
        f = self.ufunc("str_concat", [STR.sorts()[0], STR.sorts()[0]], STR.sorts()[0])
        return VStr(f(a.z, b.z))

    def ufunc(self, name, arg_sorts, ret_sort):
        if name not in self.ufuncs:
            self.ufuncs[name] = z3.Function(name, *arg_sorts, ret_sort)
        return self.ufuncs[name]

    # sequences ------------------------------------------------------------------
    def to_seq(self, v: V, p: Path, like=None) -> VSeq:
        if isinstance(v, VSeq):
            return v
        if isinstance(v, VTup):
            if not v.items:
                if like is None:
                    raise Unsupported("empty tuple of unknown element type")
                return VSeq.empty(like)
            ety = like or self.join_types(v.items)
            return VSeq.of([coerce(i, ety) for i in v.items], ety)
        if isinstance(v, VRef) and v.cls and self.classes.get(v.cls) is not None:
            d = self.classes[v.cls]
            if d.box and d.box[0] == "list":
                return self.box_value(p, v)
            if d.box and d.box[0] == "dict":
                return self.box_value(p, v).keys
            if v.cls == "list[?]":
                if like is None:
                    raise Unsupported("empty list of unknown element type")
                return VSeq.empty(like)
        raise Unsupported(f"not a sequence: {v!r}")

    def seq_concat(self, a: VSeq, b: VSeq) -> VSeq:
        if a.elem != b.elem:
            if isinstance(a.elem, TRef) and isinstance(b.elem, TRef):
                pass
            else:
                b = coerce(b, a.ty)
        bl = z3.simplify(b.len)
        if z3.is_int_value(bl) and bl.as_long() <= 4:
            # appending a short literal: plain stores (much easier on quantifier instantiation than a lambda)
            arrs = list(a.arrs)
            for off in range(bl.as_long()):
                arrs = [z3.Store(x, a.len + off, z3.simplify(z3.Select(y, off))) for x, y in zip(arrs, b.arrs)]
            return VSeq(a.len + bl.as_long(), arrs, a.elem)
        i = z3.Int(fresh_name("ci"))
        arrs = [z3.Lambda([i], z3.If(i < a.len, z3.Select(x, i), z3.Select(y, i - a.len))) for x, y in zip(a.arrs, b.arrs)]
        return VSeq(a.len + b.len, arrs, a.elem)

    def seq_repeat(self, t: VTup, n: VInt) -> VSeq:
        if len(t.items) != 1:
            raise Unsupported("tuple repeat of length != 1")
        it = t.items[0]
        ety = it.ty if not isinstance(it, VNone) else TRef(None)
        it = coerce(it, ety)
        return VSeq(z3.If(n.z > 0, n.z, 0), [z3.K(z3.IntSort(), c) for c in it.comps()], ety)

    def seq_slice(self, s: VSeq, lo, hi) -> VSeq:
        """s[lo:hi] with Python clamping; lo/hi are z3 Int or None."""
        n = s.len
        def norm(x, dflt):
            if x is None:
                return dflt
            x = z3.If(x < 0, x + n, x)
            return z3.If(x < 0, 0, z3.If(x > n, n, x))
        lo, hi = norm(lo, z3.IntVal(0)), norm(hi, n)
        i = z3.Int(fresh_name("si"))
        arrs = [z3.Lambda([i], z3.Select(a, i + lo)) for a in s.arrs]
        return VSeq(z3.If(hi > lo, hi - lo, 0), arrs, s.elem)

    def seq_contains(self, s: VSeq, v: V):
        i = z3.Int(fresh_name("mi"))
        return z3.Exists([i], z3.And(0 <= i, i < s.len, val_eq(s.at(i), coerce(v, s.elem) if not isinstance(v, VNone) or isinstance(s.elem, (TRef, TOpt)) else v)))

    # comparisons -----------------------------------------------------------------
    def ev_Compare(self, node, p):
        operands = [node.left] + list(node.comparators)

        def fin(q, vs):
            conj = []
            for op, a, b in zip(node.ops, vs, vs[1:]):
                conj.append(self.compare(op, a, b, q, node))
            return [(q, VBool(z3.And(conj) if len(conj) > 1 else conj[0]))]

        def pre(q, vs):
            if any(isinstance(op, (ast.Lt, ast.LtE, ast.Gt, ast.GtE)) for op in node.ops):
                return self.deopt(q, vs, self.where(node), fin)
            return fin(q, vs)
        return self.bind(self.ev_list(operands, p), pre)

    def deopt(self, p, vs, w, cont):
        """Operators that do not accept None: fork a TypeError when an optional operand is None."""
        conds = [v.isnone for v in vs if isinstance(v, VOpt)] + [z3.BoolVal(True) for v in vs if isinstance(v, VNone)]
        if not conds:
            return cont(p, vs)
        un = [v.val if isinstance(v, VOpt) else v for v in vs]
        if self.spec_mode:
            return cont(p, un)
        return self.raise_if(p, z3.Or(conds), "TypeError", w, lambda q: cont(q, un))

    def compare(self, op, a: V, b: V, p: Path, node=None):
        if isinstance(op, (ast.Is, ast.Eq)):
            return self.py_eq(a, b, p, is_=isinstance(op, ast.Is))
        if isinstance(op, (ast.IsNot, ast.NotEq)):
            return z3.Not(self.py_eq(a, b, p, is_=isinstance(op, ast.IsNot)))
        if isinstance(op, (ast.In, ast.NotIn)):
            r = self.contains(b, a, p)
            return r if isinstance(op, ast.In) else z3.Not(r)
        if isinstance(a, VOpaque) or isinstance(b, VOpaque):
            return z3.Bool(fresh_name("opaque_cmp"))
        if isinstance(a, VBool):
            a = coerce(a, INT)
        if isinstance(b, VBool):
            b = coerce(b, INT)
        if isinstance(a, VInt) and isinstance(b, VInt):
            return {ast.Lt: a.z < b.z, ast.LtE: a.z <= b.z, ast.Gt: a.z > b.z, ast.GtE: a.z >= b.z}[type(op)]
        from .types import VReal, REAL
        if isinstance(a, VReal) or isinstance(b, VReal):
            x, y = coerce(a, REAL).z, coerce(b, REAL).z
            return {ast.Lt: x < y, ast.LtE: x <= y, ast.Gt: x > y, ast.GtE: x >= y}[type(op)]
        if isinstance(a, VBV) and isinstance(b, VBV):
            return {ast.Lt: z3.ULT(a.z, b.z), ast.LtE: z3.ULE(a.z, b.z), ast.Gt: z3.UGT(a.z, b.z), ast.GtE: z3.UGE(a.z, b.z)}[type(op)]
        raise Unsupported(f"compare {type(op).__name__} on {a!r}, {b!r}")

    def py_eq(self, a: V, b: V, p: Path, is_=False):
        if (isinstance(a, VOpaque) or isinstance(b, VOpaque)) and not (isinstance(a, VNone) or isinstance(b, VNone)):
            return z3.Bool(fresh_name("opaque_eq"))
        if isinstance(a, VClass) and isinstance(b, VClass):
            return z3.BoolVal(a.name == b.name)
        if isinstance(a, (VClass, VFunc, VModule)) or isinstance(b, (VClass, VFunc, VModule)):
            if isinstance(a, VNone) or isinstance(b, VNone):
                return z3.BoolVal(False)
            raise Unsupported(f"equality on {a!r} / {b!r}")
        if isinstance(a, VOpaque) or isinstance(b, VOpaque):
            if isinstance(a, VNone) or isinstance(b, VNone):
                return z3.Bool(fresh_name("opaque_is_none"))
            return z3.Bool(fresh_name("opaque_eq"))
        if not is_ and isinstance(a, VRef) and isinstance(b, VRef):
            # abstract classes that stand for real classes with a structural __eq__ (Shape, type objects): equal objects
            # need not be identical - `==` is True on identical references and unknown otherwise
            if any(getattr(self.classes.get(v.cls), "structural_eq", False) for v in (a, b) if v.cls):
                return z3.Or(a.z == b.z, z3.Bool(fresh_name("struct_eq")))
            for v in (a, b):
                if v.cls and v.cls in self.classes and self.find_method(v.cls, "__eq__"):
                    raise Unsupported(f"== on {v.cls} with user __eq__")
        return val_eq(a, b)

    def contains(self, container: V, item: V, p: Path):
        if isinstance(container, VOpaque) or isinstance(item, VOpaque) and not isinstance(container, (VSeq, VTup)):
            return z3.Bool(fresh_name("opaque_in"))
        if isinstance(container, VSeq):
            return self.seq_contains(container, item)
        if isinstance(container, VTup):
            return z3.Or([val_eq(i, item) for i in container.items] or [z3.BoolVal(False)])
        if isinstance(container, VSet):
            return container.has(coerce(item, container.elem))
        if isinstance(container, VMap):
            return container.has(coerce(item, container.ty.k))
        if isinstance(container, VRef) and container.cls in self.classes:
            d = self.classes[container.cls]
            if d.box:
                bv = self.box_value(p, container)
                if d.box[0] in ("list",):
                    return self.seq_contains(bv, item)
                if d.box[0] == "dict":
                    return bv.has(coerce(item, bv.ty.k))
                if d.box[0] == "set":
                    return bv.has(coerce(item, bv.elem))
                if d.box[0] == "counter":
                    return z3.Select(bv.arr, *coerce(item, bv.elem).comps()) != 0
            if container.cls in ("list[?]", "dict[?]", "set[?]"):
                if self.lenient:
                    return z3.Bool(fresh_name("opaque_in"))     # may have been filled by an earlier iteration of a cut loop
                return z3.BoolVal(False)
            r = self.contains_extra(container, item, p)
            if r is not None:
                return r
        if self.lenient:
            # membership in an unmodelled container: an arbitrary truth value (a pure read)
            return z3.Bool(fresh_name("opaque_in"))
        raise Unsupported(f"`in` on {container!r}")

    def contains_extra(self, container, item, p):
        return None

    def ev_IfExp(self, node, p):
        def k(q, c):
            t = self.truth(c, q)
            if self.spec_mode or (self.is_pure_expr(node.body) and self.is_pure_expr(node.orelse)):
                def fin(q2, vs):
                    return [(q2, ite(t, vs[0], vs[1]))]
                try:
                    r = self.ev_list([node.body, node.orelse], q if self.spec_mode else q.copy())
                    if len(r) == 1 and not isinstance(r[0][1], Exc):
                        return self.bind(r, fin)
                except TypeError:
                    pass
            pt, pf = self.fork(q, t, f"ifexp{self.where(node)}")
            out = []
            if pt is not None:
                out.extend(self.ev(node.body, pt))
            if pf is not None:
                out.extend(self.ev(node.orelse, pf))
            return out
        return self.bind(self.ev(node.test, p), k)

    def ev_NamedExpr(self, node, p):
        def k(q, v):
            q.frame.locals[node.target.id] = v
            return [(q, v)]
        return self.bind(self.ev(node.value, p), k)

    def ev_Lambda(self, node, p):
        return [(p, VFunc("closure", (node, p.frame), "<lambda>"))]

    def ev_Starred(self, node, p):
        raise Unsupported("starred expression")

    # attribute ------------------------------------------------------------------
    def ev_Attribute(self, node, p):
        return self.bind(self.ev(node.value, p), lambda q, v: self.get_attr(q, v, node.attr, node))

    def get_attr(self, p: Path, v: V, name: str, node=None):
        w = self.where(node) if node is not None else ""
        if isinstance(v, VRef):
            if v.cls is None:
                raise Unsupported(f"attribute .{name} on untyped reference at {w}")

            def on_nonnull(q):
                return self.get_attr_ref(q, v, name, node)
            if self.spec_mode:
                return on_nonnull(p)
            return self.raise_if(p, v.z == NULL, "AttributeError", w, on_nonnull)
        if isinstance(v, VNone):
            return [(p, Exc("AttributeError", w))]
        if isinstance(v, VRec):
            if name in v.fields:
                return [(p, v.fields[name])]
            return self.rec_attr(p, v, name, node)
        if isinstance(v, VOpt):
            def on_some(q):
                return self.get_attr(q, v.val, name, node)
            if self.spec_mode:
                return on_some(p)
            return self.raise_if(p, v.isnone, "AttributeError", w, on_some)
        if isinstance(v, VModule):
            return [(p, self.module_attr(v, name, p))]
        if isinstance(v, VClass):
            return [(p, self.class_attr(v, name, p))]
        if isinstance(v, (VSeq, VTup, VStr, VSet, VMap, VInt, VBV)):
            return [(p, VFunc("vmethod", (v, name), name))]
        if isinstance(v, VOpaque):
            return [(p, VOpaque(f"{v.what}.{name}"))]
        if isinstance(v, VFunc):
            return [(p, VOpaque(f"{v.name}.{name}"))]
        raise Unsupported(f"attribute .{name} on {v!r} at {w}")

    def rec_attr(self, p, v, name, node):
        raise Unsupported(f"record {v.ty.name} has no field {name}")

    def get_attr_ref(self, p: Path, v: VRef, name: str, node=None):
        d = self.cls(v.cls)
        if d.box or v.cls in ("list[?]", "dict[?]", "set[?]"):
            return [(p, VFunc("boxmethod", (v, name), name))]
        # instance field first when declared and not shadowed by a property
        m = self.find_method(v.cls, name)
        if m is not None:
            owner, kinds = m
            if "getter" in kinds:
                fn = self.fn_for(owner, name, "getter")
                return self.call_fn(p, fn, [v], {}, node)
            if "function" in kinds:
                return [(p, VFunc("method", (owner, name, v), f"{owner}.{name}"))]
            for k in kinds:
                if k.startswith("alias:"):
                    return [(p, VFunc("method", (owner, k[6:], v), f"{owner}.{k[6:]}"))]
        if self.field_decl(v.cls, name) is not None:
            return [(p, self.read_field(p, v, name))]
        for c in self.mro(v.cls):
            mm = self.method_models.get((c, name))
            if mm is not None:
                return [(p, VFunc("fn", (mm, v), f"{c}.{name}"))]
        r = self.attr_extra(p, v, name, node)
        if r is not None:
            return r
        if (d.mod is not None and not name.startswith("__")) or self.lenient:
            # a slot the schema does not know (e.g. added by an edit of the code): reads yield an arbitrary value
            self.assumptions_used.add("fields not declared in the schema read as arbitrary values (over-approximation)")
            return [(p, VOpaque(f"field:{v.cls}.{name}"))]
        raise Unsupported(f"{v.cls}.{name}: neither a declared field nor a method at {self.where(node)}")

    def attr_extra(self, p, v, name, node):
        return None

    # subscript ------------------------------------------------------------------
    def ev_Subscript(self, node, p):
        if isinstance(node.slice, ast.Slice):
            parts = [node.value] + [x for x in (node.slice.lower, node.slice.upper, node.slice.step) if x is not None]

            def fin(q, vs):
                it = iter(vs[1:])
                lo = next(it) if node.slice.lower is not None else None
                hi = next(it) if node.slice.upper is not None else None
                st = next(it) if node.slice.step is not None else None
                return self.get_slice(q, vs[0], lo, hi, st, node)
            return self.bind(self.ev_list(parts, p), fin)
        return self.bind(self.ev_list([node.value, node.slice], p), lambda q, vs: self.get_item(q, vs[0], vs[1], node))

    def get_slice(self, p, base, lo, hi, st, node):
        if self.lenient and (isinstance(base, VOpaque) or (isinstance(base, VRef) and (base.cls is None or (
                base.cls in self.classes and not self.classes[base.cls].box and self.classes[base.cls].mod is None)))):
            return [(p, VOpaque("slice of unmodelled value"))]
        if st is not None:
            return self.slice_extra(p, base, lo, hi, st, node)
        if isinstance(base, VRef) and base.cls in self.classes and not self.classes[base.cls].box:
            m = self.find_method(base.cls, "__getitem__")
            if m:
                raise Unsupported("slice on user __getitem__")
        if isinstance(base, (VSeq, VTup)) or isinstance(base, VRef):
            r = self.slice_extra(p, base, lo, hi, st, node, probe=True)
            if r is not None:
                return r
            s = self.to_seq(base, p)
            res = self.seq_slice(s, lo.z if lo is not None else None, hi.z if hi is not None else None)
            if isinstance(base, VRef):  # list slice -> new list
                return [(p, self.new_box(p, "list", [s.elem], res))]
            return [(p, res)]
        return self.slice_extra(p, base, lo, hi, st, node)

    def slice_extra(self, p, base, lo, hi, st, node, probe=False):
        if probe:
            return None
        raise Unsupported(f"slice on {base!r}")

    def get_item(self, p: Path, base: V, idx: V, node=None):
        w = self.where(node) if node is not None else ""
        if isinstance(base, VTup) and isinstance(idx, VInt):
            c = idx.concrete()
            if c is not None:
                if -len(base.items) <= c < len(base.items):
                    return [(p, base.items[c])]
                return [(p, Exc("IndexError", w))]
            base = self.to_seq(base, p)
        if isinstance(base, VSeq) and isinstance(idx, (VInt, VBool)):
            i = coerce(idx, INT).z
            n = base.len
            if self.spec_mode:
                # specifications index sequences mathematically (no negative-index wrap-around)
                return [(p, base.at(i))]
            j = z3.If(i < 0, i + n, i)

            def ok(q):
                v = base.at(j)
                self.assume_typed(q, v)
                return [(q, v)]
            return self.raise_if(p, z3.Or(j < 0, j >= n), "IndexError", w, ok)
        if isinstance(base, VMap):
            k = coerce(idx, base.ty.k)
            if self.spec_mode:
                return [(p, base.get(k))]

            def ok(q):
                v = base.get(k)
                self.assume_typed(q, v)
                return [(q, v)]
            return self.raise_if(p, z3.Not(base.has(k)), "KeyError", w, ok)
        if isinstance(base, VBag):
            return [(p, VInt(z3.Select(base.arr, *coerce(idx, base.elem).comps())))]
        if isinstance(base, VRef) and base.cls in self.classes:
            d = self.classes[base.cls]
            if d.box:
                return self.get_item(p, self.box_value(p, base), idx, node)
            if base.cls in ("list[?]",):
                return [(p, Exc("IndexError", w))]
            if base.cls in ("dict[?]",):
                if self.lenient:
                    return [(p, VOpaque("item of unmodelled local dict")), (p.copy(), Exc("KeyError", w))]
                return [(p, Exc("KeyError", w))]
            m = self.find_method(base.cls, "__getitem__")
            if m is not None:
                fn = self.fn_for(m[0], "__getitem__")
                return self.call_fn(p, fn, [base, idx], {}, node)
        r = self.getitem_extra(p, base, idx, node)
        if r is not None:
            return r
        if isinstance(base, VOpaque) and self.lenient:
            q = p.copy()
            return [(p, VOpaque("item of unmodelled container")), (q, Exc("KeyError", w))]
        raise Unsupported(f"subscript on {base!r}[{idx!r}] at {w}")

    def getitem_extra(self, p, base, idx, node):
        return None

    # comprehensions -------------------------------------------------------------
    def ev_ListComp(self, node, p):
        return self.comprehension(node, p, "list")

    def ev_GeneratorExp(self, node, p):
        return self.comprehension(node, p, "gen")

    def ev_SetComp(self, node, p):
        return self.comprehension(node, p, "set")

    def ev_DictComp(self, node, p):
        return self.comprehension(node, p, "dict")


class _NeedFork(Exception):
    pass
