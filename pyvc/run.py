"""Property runner: python3-vt -m pyvc.run <Cnn> --tier quick|thorough [--replay path]

Exit codes: 0 held (all obligations discharged; bounded stand-ins clean; listed known findings reproduced)
            1 VIOLATION (refuted obligation replayed / baseline-proved obligation now failing / bounded stand-in
              found a failing input)
            2 UNDECIDED (unknown everywhere, nothing failing found)     3 checker error
"""
from __future__ import annotations

import argparse
import importlib
import json
import os
import subprocess
import sys
import time
import traceback

ROOT = os.path.dirname(os.path.dirname(os.path.abspath(__file__)))
sys.path.insert(0, ROOT)

from pyvc import extract, solve  # noqa: E402
from pyvc.engine import Engine  # noqa: E402

VENV_PY = "/venv/bin/python"
OUT = os.path.join(ROOT, "out")


def load_known():
    path = os.path.join(ROOT, "known_findings.json")
    if not os.path.exists(path):
        return {"open": [], "fixed": []}
    with open(path) as f:
        return json.load(f)


def samecode_check(functions):
    """The replay interpreter confirms that the text we verified is the text it imports and runs."""
    items = [f for f in functions.values() if not f["file"].startswith("/root/.pyenv")]
    std = [f for f in functions.values() if f["file"].startswith("/root/.pyenv")]
    r = subprocess.run([VENV_PY, os.path.join(ROOT, "rt", "samecode.py")], input=json.dumps(items + std),
                       capture_output=True, text=True, timeout=300,
                       env={**os.environ, "PYTHONPATH": os.path.join(extract.REPO, "src")})
    if r.returncode != 0:
        return {"checked": 0, "mismatch": [r.stdout[-2000:] + r.stderr[-2000:]]}
    return json.loads(r.stdout)


def run_bounded(prop, tier, seed, mod):
    """Bounded stand-ins (runtime contracts on the real code under /venv python). Never counted as proved."""
    out = []
    for spec in getattr(mod, "BOUNDED", []):
        cmd = [VENV_PY, os.path.join(ROOT, "rt", spec["script"]), "--tier", tier, "--seed", str(seed)] + spec.get("args", [])
        t0 = time.time()
        try:
            r = subprocess.run(cmd, capture_output=True, text=True, timeout=spec.get("timeout", 1500), cwd=ROOT,
                               env={**os.environ, "PYTHONPATH": os.path.join(extract.REPO, "src")})
        except subprocess.TimeoutExpired:
            out.append({"name": spec["name"], "status": "timeout", "wall_s": time.time() - t0})
            continue
        try:
            res = json.loads(r.stdout.strip().splitlines()[-1])
        except Exception:
            res = {"status": "error", "detail": (r.stdout[-1500:] + r.stderr[-1500:])}
        res["name"] = spec["name"]
        res["wall_s"] = round(time.time() - t0, 2)
        out.append(res)
    return out


def main():
    ap = argparse.ArgumentParser()
    ap.add_argument("prop")
    ap.add_argument("--tier", default=os.environ.get("VERIF_TIER", "quick"))
    ap.add_argument("--replay")
    ap.add_argument("--no-bounded", action="store_true")
    ap.add_argument("--verbose", "-v", action="store_true")
    ap.add_argument("--only")
    ap.add_argument("--explain", action="store_true")
    a = ap.parse_args()
    seed = int(os.environ.get("VERIF_SEED", "0"))
    os.makedirs(OUT, exist_ok=True)
    os.makedirs(os.path.join(ROOT, "evidence"), exist_ok=True)
    t0 = time.time()
    prop = a.prop
    try:
        mod = importlib.import_module(f"contracts.{prop}")
    except Exception:
        traceback.print_exc()
        sys.exit(3)
    if a.replay:
        sys.exit(replay_file(a.replay))
    try:
        rc = check(prop, mod, a, seed, t0)
    except SystemExit:
        raise
    except Exception:
        traceback.print_exc()
        print(f"CHECKER-ERROR property={prop}")
        rc = 3
    sys.exit(rc)


def replay_file(path):
    r = subprocess.run([VENV_PY, os.path.join(ROOT, "rt", "replay.py"), path], cwd=ROOT,
                       env={**os.environ, "PYTHONPATH": os.path.join(extract.REPO, "src")})
    return r.returncode


def check(prop, mod, a, seed, t0):
    from pyvc import types as T
    T.use_z3_strings(getattr(mod, "USE_Z3_STRINGS", False))
    eng = getattr(mod, "ENGINE_CLASS", Engine)(prop)
    mod.build(eng, a.tier)
    if a.only:
        eng.targets = [t for t in eng.targets if a.only in t.name]
    eng.run()
    gen_s = time.time() - t0
    obs = eng.obligations
    solve.discharge(eng, obs)
    # --- anti-vacuity: statement coverage over path ends that are not provably infeasible
    cover = solve.cover_check(eng)
    no_normal = []
    # --- sub-engines: targets that need a different model of the same classes (e.g. the tokenizer at character level next to
    # the parser that uses it through a ghost token stream) run in an engine of their own - own schema, own axioms - and their
    # obligations, targets and coverage are merged into the report
    for sub_cls, sub_build in getattr(mod, "SUB_ENGINES", []):
        sub = sub_cls(prop)
        sub_build(sub, a.tier)
        if a.only:
            sub.targets = [t for t in sub.targets if a.only in t.name]
        sub.run()
        solve.discharge(sub, sub.obligations)
        cover.update(solve.cover_check(sub))
        eng.targets = list(eng.targets) + list(sub.targets)
        eng.obligations.extend(sub.obligations)
        eng.unsupported.update(sub.unsupported)
        eng.target_results.update(sub.target_results)
        eng.functions_under_contract.update(sub.functions_under_contract)
        eng.assumptions_used |= set(sub.assumptions_used)
    gen_s = time.time() - t0
    solve_s = sum(ob.time for ob in obs)
    unreached = {}
    for t in eng.targets:
        if t.name in eng.unsupported or not hasattr(t, "_stmt_lines"):
            continue
        d = cover.get(t.name, {"reached": set(), "ends": 0, "infeasible_ends": 0})
        got = {ln for (fq, ln) in d["reached"] if fq == t._fn_fqn}
        miss = [ln for ln in t._stmt_lines if ln not in got and ln not in getattr(t, "dead_lines", ())]
        miss = [ln for ln in miss if not t.is_declared_dead(ln)]
        for fq, lines in getattr(t, "_cover_extra", []):
            got2 = {ln for (f2, ln) in d["reached"] if f2 == fq or f2.startswith("<closure")}
            allreached = {ln for (_f, ln) in d["reached"]}
            miss += [ln for ln in lines if ln not in allreached]
        if miss:
            unreached[t.name] = miss
        t._miss = set(miss)
        t._nstmts = len(t._stmt_lines)
        # postconditions are only worth something if SOME normal return is feasible under the precondition and the model
        if t.ensures and d["ends"] and not d.get("normal_reachable", False) and not getattr(t, "may_never_return", False):
            no_normal.append(t.name)
        eng.target_results[t.name]["path_ends"] = d["ends"]
        eng.target_results[t.name]["infeasible_path_ends"] = d["infeasible_ends"]
    # targets that split one function by argument type (cover_group) pool their reached statements: a statement is
    # unreached only if no target of the group reaches it
    groups = {}
    for t in eng.targets:
        g = getattr(t, "cover_group", None)
        if g and hasattr(t, "_miss"):
            groups.setdefault(g, []).append(t)
    for g, ts in groups.items():
        common = set.intersection(*[t._miss for t in ts])
        for t in ts:
            unreached.pop(t.name, None)
        if common:
            unreached[g] = sorted(common)
    if a.explain:
        from pyvc import debug
        seen = set()
        for ob in obs:
            if ob.status != "proved" and ob.name not in seen:
                seen.add(ob.name)
                print("EXPLAIN", ob.name)
                print("    trace:", " ".join(getattr(ob, "trace", [])))
                for r, c in debug.explain(eng, ob):
                    if r != "unsat":
                        print("   ", r, c)
    known = load_known()
    open_k = [k for k in known.get("open", []) if k["property"] == prop]
    # --- same-code check
    sc = samecode_check(eng.functions_under_contract)
    # --- classify
    failing = [ob for ob in obs if ob.status != "proved"]
    violations, undecided, known_hits = [], [], []
    baseline = getattr(mod, "BASELINE_TARGETS", None)
    for ob in failing:
        kf = next((k for k in open_k if k.get("obligation") and ob.name.startswith(k["obligation"])), None)
        if kf is not None:
            known_hits.append((kf, ob))
            continue
        rp = write_replay(prop, ob, mod, eng)
        if ob.status == "refuted" or rp.get("confirmed"):
            violations.append((ob, rp))
        else:
            tname = ob.name.split("/")[1]
            if baseline is None or tname in baseline:
                # proved on the unchanged tree (recorded baseline), failing now: reported, with the solver output
                violations.append((ob, rp))
            else:
                undecided.append(ob)
    # --- unsupported targets: on the baseline tree every target is supported; a newly unsupported one is undecided
    unsupported = dict(eng.unsupported)
    # --- bounded stand-ins
    bounded = [] if a.no_bounded else run_bounded(prop, a.tier, seed, mod)
    bounded_viol = [b for b in bounded if b.get("status") == "violation"]
    bounded_err = [b for b in bounded if b.get("status") in ("error", "timeout")]
    for b in bounded:
        for kf in b.get("known_findings", []):
            print(f"KNOWN-FINDING: property={prop} {kf}")
    # --- report
    for tname, lines in unreached.items():
        print(f"  [vacuity] {tname}: statements never reached on a feasible path: lines {lines}")
    if a.verbose or failing or unsupported:
        for ob in obs:
            if a.verbose or ob.status != "proved":
                print(f"  [{ob.status:8}] {ob.name} ({ob.backend}, {ob.time:.2f}s)")
        for tname, why in unsupported.items():
            print(f"  [unsupported] {tname}: {why}")
    for kf, ob in known_hits:
        print(f"KNOWN-FINDING: property={prop} {kf['what']} [{ob.name}]")
    for k in open_k:
        if k.get("obligation") and not any(kk is k for kk, _ in known_hits):
            print(f"NOTE: listed known finding no longer reproduces: {k['obligation']}")
    printed = set()
    for ob, rp in violations:
        if ob.name in printed:
            continue
        printed.add(ob.name)
        tail = "" if rp.get("confirmed") else " no-failing-input-found"
        print(f"VIOLATION property={prop} replay={rp['path']} obligation={ob.name}{tail}")
    for b in bounded_viol:
        print(f"VIOLATION property={prop} replay={b.get('replay', '')} bounded-standin={b['name']}")
    for ob in undecided:
        print(f"UNDECIDED obligation={ob.name}")
    nproved = sum(1 for ob in obs if ob.status == "proved")
    evidence = make_evidence(prop, mod, a, seed, eng, obs, nproved, sc, bounded, unsupported, known_hits, violations,
                             gen_s, solve_s, time.time() - t0, unreached)
    # runs against a scratch copy (seeded changes, PYVC_REPO) must not overwrite the evidence of the real tree
    evdir = os.path.join(ROOT, "evidence") if os.path.realpath(extract.REPO) == "/repo" else os.path.join(OUT, "evidence_scratch")
    os.makedirs(evdir, exist_ok=True)
    with open(os.path.join(evdir, f"{prop}.json"), "w") as f:
        json.dump(evidence, f, indent=1)
    print(f"{prop}: targets={len(eng.targets)} obligations={len(obs)} proved={nproved} "
          f"unsupported={len(unsupported)} bounded={[(b['name'], b.get('status')) for b in bounded]} "
          f"samecode={sc.get('checked')}/{len(eng.functions_under_contract)} wall={time.time() - t0:.1f}s")
    if sc.get("mismatch"):
        print("CHECKER-ERROR same-code mismatch:", sc["mismatch"][:3])
        return 3
    # A proof is vacuous when (most of) the body is cut off by the declared model; a single branch that the declared
    # parameter types exclude (e.g. the slice arm of a method verified for integer indices) is dead code *under the
    # contract*: reported as a note and in the evidence, not as a checker error.
    sizes = {t.name: getattr(t, "_nstmts", 0) for t in eng.targets}
    for g, ts in groups.items():
        sizes[g] = max(getattr(t, "_nstmts", 0) for t in ts)
    hard = {k: v for k, v in unreached.items() if len(v) * 3 > max(sizes.get(k, 0), 1) or len(v) > 6}
    if violations or bounded_viol:
        if unreached:
            print("NOTE vacuity guard: statements not reached on a feasible path in", sorted(unreached), "(reported with the violation)")
        return 1
    if hard:
        print("CHECKER-ERROR vacuity guard: unreachable statements in", sorted(hard))
        return 3
    if no_normal:
        print("CHECKER-ERROR vacuity guard: no feasible normal return (postconditions would hold vacuously) in", sorted(no_normal))
        return 3
    if unreached:
        print("NOTE partial coverage: statements excluded by the declared parameter types / preconditions in", sorted(unreached),
              "- every other path is proved; recorded in the evidence")
    if unsupported or undecided:
        return 2
    expected = getattr(mod, "EXPECTED_MIN_OBLIGATIONS", 1)
    if len(obs) < expected:
        print(f"CHECKER-ERROR obligation count {len(obs)} < expected minimum {expected}")
        return 3
    if bounded_err:
        print("CHECKER-ERROR bounded stand-in failed to run:", bounded_err)
        return 3
    return 0


def write_replay(prop, ob, mod, eng):
    os.makedirs(os.path.join(OUT, "replay"), exist_ok=True)
    import hashlib
    base = ob.name.replace("/", "__").replace("@", "_at_").replace("#", "_").replace(" ", "")
    if len(base) > 120:
        base = base[:100] + "_" + hashlib.sha1(base.encode()).hexdigest()[:10]
    path = os.path.join(OUT, "replay", base + ".json")
    rp = {"property": prop, "obligation": ob.name, "status": ob.status, "backend": ob.backend,
          "solver_output": (ob.model or getattr(ob, "why", "") or "")[:20000], "confirmed": False, "path": path}
    mk = getattr(mod, "make_replay", None)
    if mk is not None and (ob.status == "refuted" or getattr(mod, "REPLAY_UNDISCHARGED", False)):
        try:
            extra = mk(ob, eng)
            if extra:
                rp.update(extra)
                with open(path, "w") as f:
                    json.dump(rp, f, indent=1)
                # identical replays (several obligations of one function share a directed search) run once
                cache = eng.__dict__.setdefault("_replay_cache", {})
                key = json.dumps(extra, sort_keys=True, default=str)
                if key not in cache:
                    r = subprocess.run([VENV_PY, os.path.join(ROOT, "rt", "replay.py"), path], capture_output=True, text=True,
                                       cwd=ROOT, timeout=900, env={**os.environ, "PYTHONPATH": os.path.join(extract.REPO, "src")})
                    cache[key] = ((r.stdout + r.stderr)[-4000:], r.returncode == 1)
                rp["replay_output"], rp["confirmed"] = cache[key]
        except Exception as e:
            rp["replay_error"] = repr(e)
    with open(path, "w") as f:
        json.dump(rp, f, indent=1)
    return rp


def make_evidence(prop, mod, a, seed, eng, obs, nproved, sc, bounded, unsupported, known_hits, violations, gen_s, solve_s, wall, unreached=None):
    by_backend = {}
    for ob in obs:
        if ob.status == "proved":
            by_backend[ob.backend] = by_backend.get(ob.backend, 0) + 1
    level = getattr(mod, "LEVEL", "proof")
    samples = [{"obligation": ob.name, "status": ob.status, "backend": ob.backend, "time_s": round(ob.time, 3)}
               for ob in sorted(obs, key=lambda o: -o.time)[:8]]
    cov = {
        "obligations": len(obs), "discharged": nproved,
        "checker_cmd": f"python3-vt -m pyvc.run {prop} --tier {a.tier}",
        "trusted_base": sorted(set(getattr(mod, "TRUSTED", [])) | {"pyvc symbolic executor (python subset semantics, see DESIGN 2.2)",
                                                                    "z3 5.1.0 / z3 4.8.12 / cvc5 1.0.3"}),
        "functions_under_contract": sorted(eng.functions_under_contract.values(), key=lambda d: d["function"]),
        "targets": {t.name: {**eng.target_results.get(t.name, {}), "exits(normal,exceptional)": getattr(t, "_paths", None)}
                    for t in eng.targets},
        "by_backend": by_backend, "solver_time_s": round(solve_s, 2), "vc_generation_s": round(gen_s, 2),
        "samples": samples,
        "unsupported_targets": unsupported,
        "vacuity_guard": {"rule": "every statement of every target lies on a path end whose path condition is not refutable (z3, 3 s)",
                          "unreached": unreached or {}},
        "same_code_check": sc,
        "bounded_standins": bounded,
        "not_decided": getattr(mod, "NOT_DECIDED", []),
        "known_findings_reproduced": [k["what"] for k, _ in known_hits],
        "extraction_drops": "docstrings, comments, annotations, decorators " + ", ".join(sorted(extract.DROPPED_DECORATORS)),
        "paths": eng.stats,
        "explanation": getattr(mod, "EXPLANATION", ""),
    }
    if getattr(eng, "effect_reports", None):
        cov["effect_contracts"] = eng.effect_reports
    if level != "proof" or True:
        ev = sum(b.get("evaluations", 0) for b in bounded)
        dn = sum(b.get("distinct_nontrivial", 0) for b in bounded)
        if ev:
            cov["evaluations"] = ev
            cov["distinct_nontrivial"] = dn
            cov["rule"] = "; ".join(b.get("rule", "") for b in bounded if b.get("rule"))
    return {
        "property_id": prop, "tier": a.tier, "seed": seed, "level": level, "coverage": cov,
        "assumptions": sorted(set(getattr(mod, "ASSUMPTIONS", [])) | eng.assumptions_used | {
            "Python integers are mathematical; // and % encoded with floor semantics",
            "only explicitly raised exceptions and the modelled implicit ones (KeyError, IndexError, ValueError from "
            "list.remove/index, AttributeError/TypeError on None, ZeroDivisionError, AssertionError) exist; "
            "MemoryError/RecursionError/KeyboardInterrupt ignored",
            "declared field types hold (typed-heap assumption): a reference field holds None or an allocated object of its class",
            "termination is not verified (partial correctness)"}),
        "wall_s": round(wall, 2), "violations": len(violations) + sum(1 for b in bounded if b.get("status") == "violation"),
    }


if __name__ == "__main__":
    main()
