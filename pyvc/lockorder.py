"""Lock-level contract for onnx_ir.external_data, decided by static analysis of the real source (every run).

Resources and their levels (a thread may only acquire a resource whose level is strictly greater than every resource
it already holds - the classic total-order argument for deadlock freedom, as in Chalice / VeriFast lock levels):
    0  callback lock        `with <name containing "callback_lock">`
    1  per-tensor write lock `with <expr containing "_tensor_write_locks">`
    2  byte budget           a reservation held between `<x>.acquire(...)` and `<x>.release(...)` on a budget, and the budget's
                             monitor (`with self._condition`), incl. blocking in wait_for
    3  leaf locks            any other `with <name ending in _lock>` (files_lock): may be taken while holding anything,
                             nothing may be acquired while holding one
What a call acquires is the union over its possible callees inside the module (resolved by name: methods, module
functions, nested functions; `executor.submit(f, ...)` runs f in a NEW thread, i.e. with nothing held).
One obligation per acquisition site: `lock-order/<function>@L<line>: held {..} < acquired <resource>`."""
import ast

LEVEL = {"callback": 0, "tensor": 1, "budget": 2, "leaf": 3}


def classify_with(expr_src):
    if "callback_lock" in expr_src:
        return "callback"
    if "_tensor_write_locks" in expr_src or "tensor_lock" in expr_src:
        return "tensor"
    if "_condition" in expr_src:
        return "budget"
    if expr_src.endswith("_lock") or "_lock[" in expr_src or expr_src.endswith("_lock)"):
        return "leaf"
    return None


class Analysis:
    def __init__(self, tree):
        self.funcs = {}       # simple name -> [FunctionDef]
        self.is_method = {}
        for n in ast.walk(tree):
            if isinstance(n, (ast.FunctionDef, ast.AsyncFunctionDef)):
                self.funcs.setdefault(n.name, []).append(n)
        for c in ast.walk(tree):
            if isinstance(c, ast.ClassDef):
                for m in c.body:
                    if isinstance(m, (ast.FunctionDef, ast.AsyncFunctionDef)):
                        self.is_method[m] = True
        self._acq = {}
        self._compute_acquires()

    def callees(self, call):
        """Possible callees inside the module: `name(...)` -> functions of that name (module level or nested);
        `self.name(...)` / `<writer>.name(...)` on objects of this module's classes -> methods of that name.  Calls on
        other receivers (files, executors, library objects) are library calls: they acquire none of the resources above."""
        f = call.func
        if isinstance(f, ast.Name):
            return [d for d in self.funcs.get(f.id, []) if not self.is_method.get(d, False)]
        if isinstance(f, ast.Attribute):
            if f.attr in ("acquire", "release", "submit"):
                return []
            recv = ast.unparse(f.value)
            if recv in ("self", "cls") or recv.endswith("writer") or recv.endswith("Writer"):
                return [d for d in self.funcs.get(f.attr, []) if self.is_method.get(d, False)]
        return []

    def acquires(self, fn):
        return self._acq.get(fn, set())

    def _compute_acquires(self):
        """Least fixpoint over the module's call graph."""
        direct, calls = {}, {}
        for fns in self.funcs.values():
            for fn in fns:
                d, cs = set(), []
                for n in self._own_nodes(fn):
                    if isinstance(n, ast.With):
                        for it in n.items:
                            k = classify_with(ast.unparse(it.context_expr))
                            if k:
                                d.add(k)
                    elif isinstance(n, ast.Call):
                        if isinstance(n.func, ast.Attribute) and n.func.attr == "acquire" and "budget" in ast.unparse(n.func.value).lower():
                            d.add("budget")
                        cs.extend(self.callees(n))
                direct[fn], calls[fn] = d, cs
        self._acq = {fn: set(d) for fn, d in direct.items()}
        changed = True
        while changed:
            changed = False
            for fn, cs in calls.items():
                for c in cs:
                    if not self._acq[c] <= self._acq[fn]:
                        self._acq[fn] |= self._acq[c]
                        changed = True

    def _own_nodes(self, fn):
        """Nodes of fn's body, not descending into nested function definitions (they run when called)."""
        st = list(fn.body)
        while st:
            n = st.pop()
            yield n
            for c in ast.iter_child_nodes(n):
                if not isinstance(c, (ast.FunctionDef, ast.AsyncFunctionDef, ast.Lambda)):
                    st.append(c)

    def check(self):
        obligations = []
        for name, fns in self.funcs.items():
            for fn in fns:
                self._walk(fn, fn.body, frozenset(), obligations, fn.name)
        return obligations

    def _event(self, held, res, where, obligations, what):
        bad = [h for h in held if not LEVEL[h] < LEVEL[res]]
        # re-entering the budget monitor while only holding a budget *reservation* is the normal release path
        if res == "budget" and what.startswith("release"):
            bad = []
        obligations.append((where, not bad, f"holding {sorted(held)} while acquiring {res} ({what})"))

    def _calls_in(self, node):
        st = [node]
        while st:
            n = st.pop()
            if isinstance(n, (ast.FunctionDef, ast.AsyncFunctionDef, ast.Lambda)):
                continue
            if isinstance(n, ast.Call):
                yield n
            st.extend(ast.iter_child_nodes(n))

    def _walk(self, fn, stmts, held, obligations, fname):
        """Sequential walk; `held` is the set of resources certainly/possibly held at this point."""
        for s in stmts:
            if isinstance(s, (ast.FunctionDef, ast.AsyncFunctionDef)):
                continue
            if isinstance(s, ast.With):
                inner = held
                for it in s.items:
                    for c in self._calls_in(it.context_expr):
                        self._call_event(c, inner, obligations, fname)
                    k = classify_with(ast.unparse(it.context_expr))
                    if k:
                        self._event(inner, k, f"{fname}@L{s.lineno}", obligations, "with " + ast.unparse(it.context_expr))
                        inner = inner | {k}
                self._walk(fn, s.body, inner, obligations, fname)
                continue
            if isinstance(s, ast.Try):
                # a reservation acquired just before the try and released in its finally is held throughout the body
                self._walk(fn, s.body, held, obligations, fname)
                for h in s.handlers:
                    self._walk(fn, h.body, held, obligations, fname)
                self._walk(fn, s.orelse, held, obligations, fname)
                self._walk(fn, s.finalbody, held, obligations, fname)
                if any(isinstance(c.func, ast.Attribute) and c.func.attr == "release" and "budget" in ast.unparse(c.func.value).lower()
                       for st_ in s.finalbody for c in self._calls_in(st_)):
                    held = held - {"budget"}
                continue
            if isinstance(s, (ast.If, ast.For, ast.While)):
                for c in self._calls_in(s.test if isinstance(s, (ast.If, ast.While)) else s.iter):
                    self._call_event(c, held, obligations, fname)
                self._walk(fn, s.body, held, obligations, fname)
                self._walk(fn, s.orelse, held, obligations, fname)
                continue
            for c in self._calls_in(s):
                r = self._call_event(c, held, obligations, fname)
                if r == "+budget":
                    held = held | {"budget"}
                elif r == "-budget":
                    held = held - {"budget"}

    def _call_event(self, c, held, obligations, fname):
        f = c.func
        if isinstance(f, ast.Attribute) and f.attr == "submit":
            return None       # runs in another thread: nothing of ours is held there (its own body is walked separately)
        if isinstance(f, ast.Attribute) and f.attr in ("acquire", "release") and "budget" in ast.unparse(f.value).lower():
            if f.attr == "acquire":
                self._event(held, "budget", f"{fname}@L{c.lineno}", obligations, "acquire a budget reservation (may block)")
                return "+budget"
            return "-budget"
        for callee in self.callees(c):
            for res in sorted(self.acquires(callee)):
                self._event(held, res, f"{fname}@L{c.lineno}", obligations, f"call of {callee.name}() which acquires {res}")
        return None


def check_module(path):
    tree = ast.parse(open(path).read())
    return Analysis(tree).check()
