"""Models of Python builtins and container methods (the assumed contracts of the language runtime)."""
from __future__ import annotations

import ast
import z3

from .core import Exc, Path, Unsupported
from .sem_stmt import NEXT
from .types import *  # noqa: F401,F403
from .types import (BOOL, INT, NULL, STR, TBag, TInt, TMap, TOpt, TRec, TRef, TSeq, TSet, TStr, TTup, V, VBag, VBool,
                    VClass, VFunc, VInt, VMap, VModule, VNone, VOpaque, VOpt, VRec, VRef, VSeq, VSet, VStr, VTup,
                    coerce, fresh_name, ite, val_eq)


class BuiltinMixin:
    # ---------------------------------------------------------------- builtin functions
    def call_builtin(self, p: Path, name, args, kwargs, node):
        if self.lenient and name in ("list", "tuple", "set", "frozenset", "dict", "enumerate", "zip", "reversed", "sorted", "iter",
                                     "next", "sum", "max", "min", "str", "repr", "int", "float") \
                and any(isinstance(a, VOpaque) for a in list(args) + list(kwargs.values())):
            return [(p, VOpaque(f"{name}(unmodelled)"))]
        m = getattr(self, "bi_" + name, None)
        if m is None:
            raise Unsupported(f"builtin {name}")
        return m(p, args, kwargs, node)

    def bi_len(self, p, args, kwargs, node):
        v = args[0]
        if isinstance(v, VNone):
            return [(p, Exc("TypeError", f"L{getattr(node, 'lineno', '?')}:len(None)"))]
        if isinstance(v, VOpaque) and self.lenient:
            n = z3.Int(fresh_name("opaque_len"))
            p.assume(n >= 0)
            return [(p, VInt(n))]
        if isinstance(v, VTup):
            return [(p, VInt(len(v.items)))]
        if isinstance(v, VSeq):
            return [(p, VInt(v.len))]
        if isinstance(v, VMap):
            return [(p, VInt(v.keys.len))]
        if isinstance(v, VRef) and v.cls in self.classes:
            d = self.classes[v.cls]
            if d.box:
                bv = self.box_value(p, v)
                if d.box[0] == "list":
                    return [(p, VInt(bv.len))]
                if d.box[0] == "dict":
                    return [(p, VInt(bv.keys.len))]
            if v.cls in ("list[?]", "dict[?]", "set[?]"):
                if self.lenient:
                    # an untyped local container may have been filled (with unmodelled values / in a cut loop)
                    n = z3.Int(fresh_name("opaque_len"))
                    p.assume(n >= 0)
                    return [(p, VInt(n))]
                return [(p, VInt(0))]
            m = self.find_method(v.cls, "__len__")
            if m:
                return self.call_fn(p, self.fn_for(m[0], "__len__"), [v], {}, node)
            if self.lenient and self.classes[v.cls].mod is None and not self.classes[v.cls].fields:
                # an abstract (field-less) class standing for an unmodelled container: some non-negative length
                n = z3.Int(fresh_name("opaque_len"))
                p.assume(n >= 0)
                return self.raise_if(p, v.z == NULL, "TypeError", f"L{getattr(node, 'lineno', '?')}:len(None)", lambda q: [(q, VInt(n))])
        raise Unsupported(f"len({v!r})")

    def bi_tuple(self, p, args, kwargs, node):
        if not args:
            return [(p, VTup([]))]
        v = args[0]
        if isinstance(v, (VTup, VSeq)):
            return [(p, v)]
        return [(p, self.iter_seq(v, p))]

    def bi_list(self, p, args, kwargs, node):
        if not args:
            hint = self.pending_list_hint
            self.pending_list_hint = None
            if hint is not None and isinstance(hint, TRef) and hint.cls in self.classes and self.classes[hint.cls].box:
                ety = self.classes[hint.cls].box[1]
                return [(p, self.new_box(p, "list", [ety], VSeq.empty(ety)))]
            return [(p, self.new_object(p, "list[?]", "list"))]
        v = args[0]
        if isinstance(v, VTup) and not v.items:
            return [(p, self.new_object(p, "list[?]", "list"))]
        s = self.iter_seq(v, p) if not isinstance(v, VTup) else self.to_seq(v, p)
        return [(p, self.new_box(p, "list", [s.elem], s))]

    def bi_range(self, p, args, kwargs, node):
        if len(args) == 1:
            lo, hi = z3.IntVal(0), args[0].z
        elif len(args) == 2:
            lo, hi = args[0].z, args[1].z
        else:
            raise Unsupported("range with step")
        i = z3.Int(fresh_name("ri"))
        return [(p, VSeq(z3.If(hi > lo, hi - lo, 0), [z3.Lambda([i], lo + i)], INT))]

    def bi_enumerate(self, p, args, kwargs, node):
        s = self.iter_seq(args[0], p) if not isinstance(args[0], VTup) else self.to_seq(args[0], p)
        start = kwargs.get("start", args[1] if len(args) > 1 else VInt(0))
        i = z3.Int(fresh_name("ei"))
        return [(p, VSeq(s.len, [z3.Lambda([i], i + start.z)] + s.arrs, TTup([INT, s.elem])))]

    def bi_zip(self, p, args, kwargs, node):
        seqs = [self.iter_seq(a, p) if not isinstance(a, VTup) else self.to_seq(a, p) for a in args]
        strict = kwargs.get("strict")
        n = seqs[0].len
        for s in seqs[1:]:
            n = z3.If(s.len < n, s.len, n)
        out = VSeq(n, [a for s in seqs for a in s.arrs], TTup([s.elem for s in seqs]))
        if strict is not None and z3.is_true(z3.simplify(self.truth(strict, p))):
            same = z3.And([s.len == seqs[0].len for s in seqs[1:]] or [z3.BoolVal(True)])
            # zip(strict=True) raises only when the shorter input is exhausted, i.e. after the loop body ran for
            # the common prefix; modelled as raising up front (no state change happens in a pure producer)
            return self.raise_if(p, z3.Not(same), "ValueError", f"zip-strict L{getattr(node, 'lineno', '?')}", lambda q: [(q, out)])
        return [(p, out)]

    def bi_reversed(self, p, args, kwargs, node):
        v = args[0]
        if isinstance(v, VRef) and v.cls in self.classes and not self.classes[v.cls].box:
            m = self.find_method(v.cls, "__reversed__")
            if m:
                return self.call_fn(p, self.fn_for(m[0], "__reversed__"), [v], {}, node)
        s = self.to_seq(v, p)
        i = z3.Int(fresh_name("rv"))
        return [(p, VSeq(s.len, [z3.Lambda([i], z3.Select(a, s.len - 1 - i)) for a in s.arrs], s.elem))]

    def bi_isinstance(self, p, args, kwargs, node):
        v, c = args
        classes = c.items if isinstance(c, VTup) else [c]
        conds = []
        for cl in classes:
            conds.append(self.isinstance_one(p, v, cl))
        return [(p, VBool(z3.Or(conds) if len(conds) > 1 else conds[0]))]

    def isinstance_one(self, p, v, cl):
        name = cl.name if isinstance(cl, VClass) else cl.payload if isinstance(cl, VFunc) and cl.kind == "builtin" else getattr(cl, "name", None)
        if isinstance(cl, VModule):
            name = cl.name.split(".")[-1]
        if isinstance(v, VRef):
            if name in self.classes and not self.classes[name].box:
                return self.is_instance(v.z, name)
            d = self.classes.get(v.cls) if v.cls else None
            if d is not None and d.box:
                kind = d.box[0]
                ok = {"list": {"list", "Iterable", "Sequence", "MutableSequence", "Collection"},
                      "dict": {"dict", "Mapping", "MutableMapping", "Iterable", "Collection"},
                      "set": {"set", "Iterable", "AbstractSet", "Collection"},
                      "counter": {"dict", "Counter", "Mapping", "Iterable"}}[kind]
                return z3.And(v.z != NULL, z3.BoolVal(name in ok))
            if v.cls in ("list[?]", "dict[?]", "set[?]"):
                return z3.BoolVal(name in ("Iterable", v.cls.split("[")[0], "Sequence", "Mapping", "Collection"))
            if name in ("Iterable", "Sequence", "Mapping", "SupportsIndex", "int", "str", "tuple", "list", "dict"):
                if v.cls is not None and v.cls in self.classes:
                    it = self.find_method(v.cls, "__iter__") is not None
                    gi = self.find_method(v.cls, "__getitem__") is not None
                    r = {"Iterable": it, "Sequence": "Sequence" in self.mro_names(v.cls), "Mapping": "Mapping" in self.mro_names(v.cls) or "MutableMapping" in self.mro_names(v.cls)}.get(name, False)
                    return z3.And(v.z != NULL, z3.BoolVal(bool(r)))
            r = self.isinstance_extra(p, v, name)
            if r is not None:
                return r
            raise Unsupported(f"isinstance({v!r}, {name})")
        table = {VInt: {"int", "SupportsIndex", "SupportsInt"}, VBool: {"bool", "int", "SupportsIndex"},
                 VStr: {"str", "Iterable", "Sequence"}, VSeq: {"tuple", "Iterable", "Sequence", "Collection"},
                 VTup: {"tuple", "Iterable", "Sequence", "Collection"},
                 VSet: {"frozenset", "AbstractSet", "Iterable", "Collection", "Set"}, VNone: {"NoneType"},
                 VMap: {"Mapping", "Iterable"}}
        for t, names in table.items():
            if isinstance(v, t):
                return z3.BoolVal(name in names)
        if isinstance(v, VOpt):
            return z3.And(z3.Not(v.isnone), self.isinstance_one(p, v.val, cl))
        if isinstance(v, VRec):
            return z3.BoolVal(name == v.ty.name or name in ("tuple",) and getattr(v.ty, "is_tuple", False))
        r = self.isinstance_extra(p, v, name)
        if r is not None:
            return r
        raise Unsupported(f"isinstance({v!r}, {name})")

    def isinstance_extra(self, p, v, name):
        if isinstance(v, VOpaque) and self.lenient:
            return z3.Bool(fresh_name("opaque_isinstance"))
        return None

    def mro_names(self, cls):
        out = set()
        for c in self.mro(cls):
            out.add(c)
            d = self.classes[c]
            for b in getattr(d, "abstract_bases", ()):
                out.add(b)
        return out

    def bi_type(self, p, args, kwargs, node):
        v = args[0]
        if isinstance(v, VRef) and v.cls:
            d = self.classes.get(v.cls)
            if d is not None and d.box:
                return [(p, VClass(d.box[0]))]
            if v.cls.endswith("[?]"):
                return [(p, VClass(v.cls.split("[")[0]))]
            if len(self.subclasses(v.cls)) <= 1:
                return [(p, VClass(v.cls))]
            return [(p, VOpaque("type"))]
        names = {VInt: "int", VBool: "bool", VStr: "str", VSeq: "tuple", VTup: "tuple", VNone: "NoneType", VSet: "frozenset"}
        for t, n in names.items():
            if isinstance(v, t):
                return [(p, VClass(n))]
        return [(p, VOpaque("type"))]

    def bi_max(self, p, args, kwargs, node):
        return self._minmax(p, args, kwargs, node, True)

    def bi_min(self, p, args, kwargs, node):
        return self._minmax(p, args, kwargs, node, False)

    def _minmax(self, p, args, kwargs, node, is_max):
        if any(isinstance(a, VOpaque) for a in args):
            return [(p, VOpaque("min/max of unmodelled values"))]
        if any(isinstance(a, VOpt) for a in args):
            return self.deopt(p, args, f"L{getattr(node, 'lineno', '?')}", lambda q, un: self._minmax(q, un, kwargs, node, is_max))
        if len(args) >= 2 and all(isinstance(a, (VInt, VBool)) for a in args):
            acc = coerce(args[0], INT).z
            for a in args[1:]:
                b = coerce(a, INT).z
                acc = z3.If(b > acc, b, acc) if is_max else z3.If(b < acc, b, acc)
            return [(p, VInt(acc))]
        if len(args) == 1 and "key" not in kwargs:
            s = self.iter_seq(args[0], p) if not isinstance(args[0], VTup) else self.to_seq(args[0], p)
            if s.elem == INT:
                r = z3.Int(fresh_name("max" if is_max else "min"))
                i = z3.Int(fresh_name("mi"))
                bound = z3.ForAll([i], z3.Implies(z3.And(0 <= i, i < s.len), (s.at(i).z <= r) if is_max else (s.at(i).z >= r)))
                j = z3.Int(fresh_name("mj"))
                wit = z3.Exists([j], z3.And(0 <= j, j < s.len, s.at(j).z == r))
                dflt = kwargs.get("default")
                if dflt is not None:
                    p.assume(z3.If(s.len > 0, z3.And(bound, wit), r == dflt.z))
                    return [(p, VInt(r))]

                def ok(q):
                    q.assume(z3.And(bound, wit))
                    return [(q, VInt(r))]
                return self.raise_if(p, s.len == 0, "ValueError", "max/min of empty", ok)
        raise Unsupported("max/min form")

    def bi_abs(self, p, args, kwargs, node):
        return [(p, VInt(z3.If(args[0].z >= 0, args[0].z, -args[0].z)))]

    def bi_id(self, p, args, kwargs, node):
        v = args[0]
        if isinstance(v, VNone):
            return [(p, VRef(NULL, None))]
        if isinstance(v, VRef):
            self.assumptions_used.add("id(x) is modelled as the object identity itself (injective on live objects)")
            return [(p, VRef(v.z, v.cls))]
        raise Unsupported(f"id({v!r})")

    def bi_bool(self, p, args, kwargs, node):
        return [(p, VBool(self.truth(args[0], p)))]

    def bi_int(self, p, args, kwargs, node):
        v = args[0]
        if isinstance(v, (VInt, VBool)):
            return [(p, coerce(v, INT))]
        return self.int_extra(p, v, node)

    def int_extra(self, p, v, node):
        raise Unsupported(f"int({v!r})")

    def bi_str(self, p, args, kwargs, node):
        if args and isinstance(args[0], VStr):
            return [(p, args[0])]
        return [(p, VStr(z3.Const(fresh_name("str"), STR.sorts()[0])))]

    def bi_repr(self, p, args, kwargs, node):
        return [(p, VStr(z3.Const(fresh_name("repr"), STR.sorts()[0])))]

    def bi_print(self, p, args, kwargs, node):
        return [(p, VNone())]

    def bi_callable(self, p, args, kwargs, node):
        if isinstance(args[0], VOpaque):
            return [(p, VBool(z3.Bool(fresh_name("callable"))))]        # unknown object: either answer
        return [(p, VBool(isinstance(args[0], (VFunc, VClass))))]

    def bi_frozenset(self, p, args, kwargs, node):
        if not args:
            raise Unsupported("frozenset() of unknown element type")
        v = args[0]
        if isinstance(v, VSet):
            return [(p, v)]
        s = self.iter_seq(v, p) if not isinstance(v, VTup) else self.to_seq(v, p)
        x = [z3.Const(fresh_name("fx"), so) for so in s.elem.sorts()]
        j = z3.Int(fresh_name("fj"))
        mem = z3.Exists([j], z3.And(0 <= j, j < s.len, *[z3.Select(a, j) == xx for a, xx in zip(s.arrs, x)]))
        return [(p, VSet(z3.Lambda(x, mem), s.elem))]

    def bi_set(self, p, args, kwargs, node):
        if not args:
            return [(p, self.new_object(p, "set[?]", "set"))]
        r = self.bi_frozenset(p, args, kwargs, node)
        (q, v), = r
        return [(q, self.new_box(q, "set", [v.elem], v))]

    def bi_dict(self, p, args, kwargs, node):
        if not args and not kwargs:
            return [(p, self.new_object(p, "dict[?]", "dict"))]
        raise Unsupported("dict(...) with arguments")

    def bi_hasattr(self, p, args, kwargs, node):
        return self.hasattr_extra(p, args, node)

    def hasattr_extra(self, p, args, node):
        if self.lenient:
            return [(p, VBool(z3.Bool(fresh_name("opaque_hasattr"))))]
        raise Unsupported("hasattr")

    def bi_getattr(self, p, args, kwargs, node):
        obj, name = args[0], args[1]
        nm = None
        for s, c in self._str_lits().items():
            if c.eq(name.z):
                nm = s
        if nm is None:
            if self.lenient:
                return [(p, VOpaque("getattr"))]
            raise Unsupported("getattr with non-literal name")
        if isinstance(obj, VOpaque):
            return [(p, VOpaque(f"{obj.what}.{nm}"))]
        return self.get_attr(p, obj, nm, node)

    def _str_lits(self):
        from . import types as T
        return T._str_consts

    def bi_next(self, p, args, kwargs, node):
        raise Unsupported("next()")

    def bi_iter(self, p, args, kwargs, node):
        raise Unsupported("iter()")

    def bi_sum(self, p, args, kwargs, node):
        raise Unsupported("sum()")

    def _opaque_pred(self, p, args):
        if args and isinstance(args[0], VOpaque):
            return [(p, VBool(z3.Bool(fresh_name("opaque_anyall"))))]
        return None

    def bi_any(self, p, args, kwargs, node):
        r = self._opaque_pred(p, args)
        if r is not None:
            return r
        return self._bi_any(p, args, kwargs, node)

    def bi_all(self, p, args, kwargs, node):
        r = self._opaque_pred(p, args)
        if r is not None:
            return r
        return self._bi_all(p, args, kwargs, node)

    def _bi_any(self, p, args, kwargs, node):
        s = self.to_seq(args[0], p) if not isinstance(args[0], VSeq) else args[0]
        i = z3.Int(fresh_name("ai"))
        return [(p, VBool(z3.Exists([i], z3.And(0 <= i, i < s.len, self.truth(s.at(i), p)))))]

    def _bi_all(self, p, args, kwargs, node):
        s = self.to_seq(args[0], p) if not isinstance(args[0], VSeq) else args[0]
        i = z3.Int(fresh_name("ai"))
        return [(p, VBool(z3.ForAll([i], z3.Implies(z3.And(0 <= i, i < s.len), self.truth(s.at(i), p)))))]

    def bi_sorted(self, p, args, kwargs, node):
        raise Unsupported("sorted()")

    # ---------------------------------------------------------------- methods of immutable values
    def call_vmethod(self, p, recv: V, name, args, kwargs, node):
        if isinstance(recv, VMap):
            return self.map_method(p, recv, name, args, kwargs, node, box=None)
        if isinstance(recv, (VSeq, VTup)):
            s = self.to_seq(recv, p)
            if name == "index":
                i = z3.Int(fresh_name("idx"))
                j = z3.Int(fresh_name("j"))

                def ok(q):
                    q.assume(z3.And(0 <= i, i < s.len, val_eq(s.at(i), args[0]),
                                    z3.ForAll([j], z3.Implies(z3.And(0 <= j, j < i), z3.Not(val_eq(s.at(j), args[0]))))))
                    return [(q, VInt(i))]
                return self.raise_if(p, z3.Not(self.seq_contains(s, args[0])), "ValueError", "index", ok)
            if name == "count":
                return [(p, VInt(self.seq_count(s, args[0])))]
        if isinstance(recv, VStr):
            return self.str_method(p, recv, name, args, kwargs, node)
        raise Unsupported(f"method {name} on {recv!r}")

    def str_method(self, p, recv, name, args, kwargs, node):
        from . import types as T
        if T._USE_Z3_STRINGS:
            if name == "startswith" and isinstance(args[0], VStr):
                return [(p, VBool(z3.PrefixOf(args[0].z, recv.z)))]
            if name == "endswith" and isinstance(args[0], VStr):
                return [(p, VBool(z3.SuffixOf(args[0].z, recv.z)))]
        raise Unsupported(f"str.{name}")

    def seq_count(self, s: VSeq, v: V):
        """Number of occurrences of v in s: the ghost function `count` with its unfolding axioms."""
        cnt = self.count_fn(s.elem)
        return cnt(*s.comps()[1:], *coerce(v, s.elem).comps(), s.len)

    def count_effect(self, p, old: VSeq, new: VSeq, plus=(), minus=(), plus_seq=None):
        """Assume the effect of a list operation on element counts (lemma by induction on the length)."""
        if not isinstance(old.elem, TRef):
            return
        x = old.elem.fresh("cx")
        rhs = self.seq_count(old, x)
        for y in plus:
            rhs = rhs + z3.If(val_eq(x, y), 1, 0)
        for y in minus:
            rhs = rhs - z3.If(val_eq(x, y), 1, 0)
        if plus_seq is not None:
            rhs = rhs + self.seq_count(plus_seq, x)
        lhs = self.seq_count(new, x)
        try:
            p.assume(z3.ForAll(x.comps(), lhs == rhs, patterns=[lhs]))
        except z3.Z3Exception:      # lambda arrays cannot occur in patterns
            p.assume(z3.ForAll(x.comps(), lhs == rhs))

    def count_fn(self, elem):
        key = "count<" + repr(elem) + ">"
        if key not in self.ufuncs:
            arr_sorts = [z3.ArraySort(z3.IntSort(), so) for so in elem.sorts()]
            f = z3.Function(key, *arr_sorts, *elem.sorts(), z3.IntSort(), z3.IntSort())
            self.ufuncs[key] = f
            arrs = [z3.Const(f"cnt_a{i}", so) for i, so in enumerate(arr_sorts)]
            x = [z3.Const(f"cnt_x{i}", so) for i, so in enumerate(elem.sorts())]
            n = z3.Int("cnt_n")
            hit = z3.And([z3.Select(a, n) == xx for a, xx in zip(arrs, x)])
            self.axioms.append(z3.ForAll(arrs + x, f(*arrs, *x, 0) == 0))
            self.axioms.append(z3.ForAll(arrs + x + [n], z3.Implies(n >= 0, f(*arrs, *x, n + 1) == f(*arrs, *x, n) + z3.If(hit, 1, 0)),
                                         patterns=[f(*arrs, *x, n + 1)]))
            self.axioms.append(z3.ForAll(arrs + x + [n], z3.Implies(n >= 0, f(*arrs, *x, n) >= 0), patterns=[f(*arrs, *x, n)]))
            # membership link (lemmas about the recursive definition, by induction on n; listed as assumed lemmas)
            i = z3.Int("cnt_i")
            at_i = z3.And([z3.Select(a, i) == xx for a, xx in zip(arrs, x)])
            self.axioms.append(z3.ForAll(arrs + x + [n, i], z3.Implies(z3.And(0 <= i, i < n, at_i), f(*arrs, *x, n) >= 1),
                                         patterns=[z3.MultiPattern(f(*arrs, *x, n), z3.Select(arrs[0], i))]))
            wit = z3.Function(key + "!wit", *arr_sorts, *elem.sorts(), z3.IntSort(), z3.IntSort())
            w = wit(*arrs, *x, n)
            at_w = z3.And([z3.Select(a, w) == xx for a, xx in zip(arrs, x)])
            self.axioms.append(z3.ForAll(arrs + x + [n], z3.Implies(f(*arrs, *x, n) >= 1, z3.And(0 <= w, w < n, at_w)),
                                         patterns=[f(*arrs, *x, n)]))
            self.assumptions_used.add("count(seq, x): recursive definition + lemmas (membership link, effect of list operations) "
                                      "that hold by induction on the length; assumed, not re-proved by the SMT solver")
        return self.ufuncs[key]

    # ---------------------------------------------------------------- methods of boxes (list/dict/set/Counter)
    def _ensure_box(self, p, recv: VRef, kind, tys):
        """Give a `[?]` placeholder its element type on first use; returns the typed reference."""
        if recv.cls.endswith("[?]"):
            cls = self.box_class(kind, *tys)
            d = self.classes[cls]
            # same object identity is irrelevant (it was empty and unaliased as a fresh literal): retag in place
            recv.cls = cls
            recv.ty = TRef(cls)
            p.assume(clsof(recv.z) == d.id) if False else None
            fty = d.fields["$v"]
            init = {"list": lambda: VSeq.empty(fty.elem), "dict": lambda: VMap.empty(fty),
                    "set": lambda: VSet.empty(fty.elem), "counter": lambda: VBag.empty(fty.elem)}[kind]()
            self.write_field(p, recv, "$v", init)
        return recv

    def call_boxmethod(self, p: Path, recv: VRef, name, args, kwargs, node):
        w = f"L{getattr(node, 'lineno', '?')}"
        kind = recv.cls.split("[")[0]
        if recv.cls.endswith("[?]"):
            if self.lenient and name in ("append", "insert", "extend", "add", "update", "setdefault") and \
                    any(_has_opaque(a) for a in args):
                # an unmodelled value goes into a still untyped local container: the container becomes unmodelled
                p.ghost["$opaque_boxes"] = p.ghost.get("$opaque_boxes", frozenset()) | {str(recv.z)}
                return [(p, VOpaque("entry of unmodelled local container"))]
            if kind == "list" and name in ("append", "insert"):
                self._ensure_box(p, recv, "list", [self._elem_ty_of(args[-1])])
            elif kind == "list" and name == "extend":
                s = self.iter_seq(args[0], p) if not isinstance(args[0], VTup) else self.to_seq(args[0], p)
                self._ensure_box(p, recv, "list", [s.elem])
            elif kind == "set" and name == "add":
                self._ensure_box(p, recv, "set", [self._elem_ty_of(args[0])])
            elif kind == "dict" and name in ("update", "setdefault"):
                if not self.lenient:
                    raise Unsupported("dict[?] update")
                # lenient mode: a function-local dictionary of unknown element type becomes an unmodelled container
                # (its later items()/values()/lookups are arbitrary); effect obligations do not depend on its content
                p.ghost["$opaque_boxes"] = p.ghost.get("$opaque_boxes", frozenset()) | {str(recv.z)}
                return [(p, VOpaque("entry of unmodelled local dict"))]
            elif self.lenient and str(recv.z) in p.ghost.get("$opaque_boxes", ()):
                if name in ("values", "items", "keys"):
                    return [(p, VOpaque("items of unmodelled local dict"))]
                return [(p, VOpaque("result of unmodelled local dict." + name))]
            elif name in ("clear", "copy", "values", "items", "keys", "get", "pop"):
                if name in ("values", "items", "keys"):
                    if self.lenient:
                        # loops are cut: an untyped local dict may have been filled by an earlier iteration of a cut loop;
                        # over-approximate its content (sound: an opaque iterable may also be empty)
                        return [(p, VOpaque("items of unmodelled local dict"))]
                    return [(p, VTup([]))]
                if name == "get":
                    if self.lenient:
                        return [(p, VOpaque("lookup in unmodelled local dict"))]
                    return [(p, args[1] if len(args) > 1 else VNone())]
                if name == "clear":
                    return [(p, VNone())]
                if name == "copy":
                    return [(p, self.new_object(p, recv.cls, kind))]
                return [(p, Exc("KeyError" if kind == "dict" else "IndexError", w))]
            else:
                raise Unsupported(f"{recv.cls}.{name}")
        d = self.classes[recv.cls]
        kind = d.box[0]
        bv = self.box_value(p, recv)
        self.on_box_mutation(p, recv, name, node)
        if kind == "list":
            return self.list_method(p, recv, bv, name, args, kwargs, node)
        if kind == "dict":
            return self.map_method(p, bv, name, args, kwargs, node, box=recv)
        if kind == "set":
            return self.set_method(p, recv, bv, name, args, kwargs, node)
        if kind == "counter":
            raise Unsupported(f"Counter.{name}")
        raise Unsupported(f"{kind}.{name}")

    def on_box_mutation(self, p, recv, name, node):
        pass

    def _elem_ty_of(self, v):
        if isinstance(v, VNone):
            return TRef(None)
        if v.ty is None:
            raise Unsupported(f"container of {v!r}")
        return v.ty

    def adapt(self, p, v, ty):
        """coerce + give an empty `[]`/`{}` literal of still unknown element type the type of its destination."""
        if isinstance(v, VRef) and v.cls in ("list[?]", "dict[?]", "set[?]") and isinstance(ty, TRef) \
                and ty.cls in self.classes and self.classes[ty.cls].box:
            return self.retag_box(p, v, ty.cls)
        return coerce(v, ty)

    def list_method(self, p, recv, s: VSeq, name, args, kwargs, node):
        w = f"L{getattr(node, 'lineno', '?')}"
        i = z3.Int(fresh_name("li"))
        if name == "append":
            x = self.adapt(p, args[0], s.elem)
            new = VSeq(s.len + 1, [z3.Store(a, s.len, c) for a, c in zip(s.arrs, x.comps())], s.elem)
            self.count_effect(p, s, new, plus=[x])
            self.write_field(p, recv, "$v", new)
            return [(p, VNone())]
        if name == "extend":
            o = self.iter_seq(args[0], p) if not isinstance(args[0], VTup) else self.to_seq(args[0], p, like=s.elem)
            new = self.seq_concat(s, o)
            self.count_effect(p, s, new, plus_seq=o)
            self.write_field(p, recv, "$v", new)
            return [(p, VNone())]
        if name == "insert":
            idx = args[0].z
            n = s.len
            k = z3.If(idx < 0, z3.If(idx + n < 0, 0, idx + n), z3.If(idx > n, n, idx))
            x = self.adapt(p, args[1], s.elem)
            arrs = [z3.Lambda([i], z3.If(i < k, z3.Select(a, i), z3.If(i == k, c, z3.Select(a, i - 1)))) for a, c in zip(s.arrs, x.comps())]
            new = VSeq(n + 1, arrs, s.elem)
            self.count_effect(p, s, new, plus=[x])
            self.write_field(p, recv, "$v", new)
            return [(p, VNone())]
        if name == "pop":
            idx = args[0].z if args else z3.IntVal(-1)
            n = s.len
            k = z3.If(idx < 0, idx + n, idx)

            def ok(q):
                val = s.at(k)
                self.assume_typed(q, val)
                arrs = [z3.Lambda([i], z3.If(i < k, z3.Select(a, i), z3.Select(a, i + 1))) for a in s.arrs]
                new = VSeq(n - 1, arrs, s.elem)
                self.count_effect(q, s, new, minus=[val])
                self.write_field(q, recv, "$v", new)
                return [(q, val)]
            return self.raise_if(p, z3.Or(k < 0, k >= n), "IndexError", w, ok)
        if name == "remove":
            x = coerce(args[0], s.elem) if not isinstance(args[0], VNone) or isinstance(s.elem, (TRef, TOpt)) else args[0]
            k = z3.Int(fresh_name("rm"))
            j = z3.Int(fresh_name("j"))

            def ok(q):
                q.assume(z3.And(0 <= k, k < s.len, val_eq(s.at(k), x),
                                z3.ForAll([j], z3.Implies(z3.And(0 <= j, j < k), z3.Not(val_eq(s.at(j), x))))))
                arrs = [z3.Lambda([i], z3.If(i < k, z3.Select(a, i), z3.Select(a, i + 1))) for a in s.arrs]
                new = VSeq(s.len - 1, arrs, s.elem)
                self.count_effect(q, s, new, minus=[x])
                self.write_field(q, recv, "$v", new)
                return [(q, VNone())]
            return self.raise_if(p, z3.Not(self.seq_contains(s, x)), "ValueError", w, ok)
        if name == "clear":
            self.write_field(p, recv, "$v", VSeq.empty(s.elem))
            return [(p, VNone())]
        if name == "copy":
            return [(p, self.new_box(p, "list", [s.elem], s))]
        if name == "reverse":
            arrs = [z3.Lambda([i], z3.Select(a, s.len - 1 - i)) for a in s.arrs]
            new = VSeq(s.len, arrs, s.elem)
            self.count_effect(p, s, new)
            self.write_field(p, recv, "$v", new)
            return [(p, VNone())]
        if name == "index":
            return self.call_vmethod(p, s, "index", args, kwargs, node)
        if name == "count":
            return [(p, VInt(self.seq_count(s, args[0])))]
        if name == "sort":
            # result: some permutation of the same multiset (order unspecified here)
            new = TSeq(s.elem).fresh("sorted")
            x = s.elem.fresh("sx")
            p.assume(new.len == s.len)
            p.assume(z3.ForAll(x.comps(), self.seq_count(new, x) == self.seq_count(s, x)))
            self.write_field(p, recv, "$v", new)
            return [(p, VNone())]
        raise Unsupported(f"list.{name}")

    def map_method(self, p, m: VMap, name, args, kwargs, node, box):
        w = f"L{getattr(node, 'lineno', '?')}"
        i = z3.Int(fresh_name("di"))
        if name == "get":
            k = coerce(args[0], m.ty.k)
            dflt = args[1] if len(args) > 1 else VNone()
            return [(p, ite(m.has(k), m.get(k), dflt))]
        if name == "keys":
            return [(p, m.keys)]
        if name == "values":
            arrs = [z3.Lambda([i], z3.Select(a, *m.keys.at(i).comps())) for a in m.vals]
            return [(p, VSeq(m.keys.len, arrs, m.ty.v))]
        if name == "items":
            arrs = [z3.Lambda([i], z3.Select(a, *m.keys.at(i).comps())) for a in m.vals]
            return [(p, VSeq(m.keys.len, m.keys.arrs + arrs, TTup([m.ty.k, m.ty.v])))]
        if name == "copy" and box is not None:
            return [(p, self.new_box(p, "dict", [m.ty.k, m.ty.v], m))]
        if box is None:
            raise Unsupported(f"mutating/unknown method {name} on an immutable map")
        if name == "pop":
            k = coerce(args[0], m.ty.k)

            def ok(q):
                val = m.get(k)
                self.assume_typed(q, val)
                self.write_field(q, box, "$v", self.map_remove(q, m, k))
                return [(q, val)]
            if len(args) > 1:
                pt, pf = self.fork(p, m.has(k), f"pop {w}")
                out = []
                if pt is not None:
                    out.extend(ok(pt))
                if pf is not None:
                    out.append((pf, args[1]))
                return out
            return self.raise_if(p, z3.Not(m.has(k)), "KeyError", w, ok)
        if name == "clear":
            self.write_field(p, box, "$v", VMap.empty(m.ty))
            return [(p, VNone())]
        if name == "setdefault":
            k = coerce(args[0], m.ty.k)
            pt, pf = self.fork(p, m.has(k), f"setdefault {w}")
            out = []
            if pt is not None:
                out.append((pt, m.get(k)))
            if pf is not None:
                v = self.adapt(pf, args[1] if len(args) > 1 else VNone(), m.ty.v)
                self.write_field(pf, box, "$v", self.map_store(pf, m, k, v))
                out.append((pf, v))
            return out
        if name == "update":
            o = args[0]
            if isinstance(o, VRef) and o.cls in self.classes and self.classes[o.cls].box and self.classes[o.cls].box[0] == "dict":
                o = self.box_value(p, o)
            if not isinstance(o, VMap) or o.ty.k != m.ty.k:
                raise Unsupported("dict.update with a non-dict / differently keyed argument")
            ks = [z3.Const(fresh_name("uk"), s) for s in m.ty.k.sorts()]
            dom = z3.Lambda(ks, z3.Or(z3.Select(m.dom, *ks), z3.Select(o.dom, *ks)))
            vals = [z3.Lambda(ks, z3.If(z3.Select(o.dom, *ks), z3.Select(b_, *ks), z3.Select(a_, *ks))) for a_, b_ in zip(m.vals, o.vals)]
            nk = TSeq(m.ty.k).fresh("updkeys")        # insertion order after update: old keys, then the new ones (not tracked)
            p.assume(nk.len >= m.keys.len)
            self.write_field(p, box, "$v", VMap(dom, vals, nk, m.ty))
            return [(p, VNone())]
        raise Unsupported(f"dict.{name}")

    def map_store(self, p, m: VMap, k: V, v: V) -> VMap:
        """d[k] = v : value updated; key appended to the order when new."""
        dom = z3.Store(m.dom, *k.comps(), z3.BoolVal(True))
        vals = [z3.Store(a, *k.comps(), c) for a, c in zip(m.vals, v.comps())]
        if not m.ty.ordered:
            return VMap(dom, vals, None, m.ty)
        ks = m.keys
        had = m.has(k)
        nk = VSeq(z3.If(had, ks.len, ks.len + 1),
                  [z3.If(had, a, z3.Store(a, ks.len, c)) for a, c in zip(ks.arrs, k.comps())], ks.elem)
        return VMap(dom, vals, nk, m.ty)

    def map_remove(self, p, m: VMap, k: V) -> VMap:
        dom = z3.Store(m.dom, *k.comps(), z3.BoolVal(False))
        ks = m.keys
        pos = z3.Int(fresh_name("kpos"))
        i = z3.Int(fresh_name("ki"))
        # position of k in the key order (exists by the map well-formedness assumed below)
        p.assume(z3.Implies(m.has(k), z3.And(0 <= pos, pos < ks.len, val_eq(ks.at(pos), k))))
        self.assumptions_used.add("dict model: every key in the domain occurs in the insertion-order sequence")
        arrs = [z3.Lambda([i], z3.If(i < pos, z3.Select(a, i), z3.Select(a, i + 1))) for a in ks.arrs]
        nk = VSeq(z3.If(m.has(k), ks.len - 1, ks.len), [z3.If(m.has(k), x, a) for x, a in zip(arrs, ks.arrs)], ks.elem)
        return VMap(dom, m.vals, nk, m.ty)

    def set_method(self, p, recv, s: VSet, name, args, kwargs, node):
        if name == "add":
            x = coerce(args[0], s.elem)
            self.write_field(p, recv, "$v", VSet(z3.Store(s.arr, *x.comps(), z3.BoolVal(True)), s.elem))
            return [(p, VNone())]
        if name == "discard":
            x = coerce(args[0], s.elem)
            self.write_field(p, recv, "$v", VSet(z3.Store(s.arr, *x.comps(), z3.BoolVal(False)), s.elem))
            return [(p, VNone())]
        raise Unsupported(f"set.{name}")

    # ---------------------------------------------------------------- item assignment / deletion
    def set_item(self, p: Path, base: V, idx: V, v: V, node):
        w = f"L{node.lineno}"
        if isinstance(base, VRef) and base.cls is not None:
            if base.cls == "dict[?]" and self.lenient and (isinstance(idx, VOpaque) or isinstance(v, VOpaque)):
                p.ghost["$opaque_boxes"] = p.ghost.get("$opaque_boxes", frozenset()) | {str(base.z)}
                return [(p, NEXT)]
            if base.cls == "dict[?]":
                self._ensure_box(p, base, "dict", [self._elem_ty_of(idx), self._elem_ty_of(v)])
            d = self.classes.get(base.cls)
            if d is None:
                raise Unsupported(f"item store on {base!r}")
            if d.box:
                self.on_box_mutation(p, base, "__setitem__", node)
                bv = self.box_value(p, base)
                if d.box[0] == "list":
                    i = coerce(idx, INT).z
                    j = z3.If(i < 0, i + bv.len, i)

                    def ok(q):
                        x = self.adapt(q, v, bv.elem)
                        new = VSeq(bv.len, [z3.Store(a, j, c) for a, c in zip(bv.arrs, x.comps())], bv.elem)
                        self.count_effect(q, bv, new, plus=[x], minus=[bv.at(j)])
                        self.write_field(q, base, "$v", new)
                        return [(q, NEXT)]
                    pt, pf = self.fork(p, z3.Or(j < 0, j >= bv.len), f"IndexError {w}")
                    out = [(pt, ("raise", Exc("IndexError", w)))] if pt is not None else []
                    return out + (ok(pf) if pf is not None else [])
                if d.box[0] == "dict":
                    k = coerce(idx, bv.ty.k)
                    self.write_field(p, base, "$v", self.map_store(p, bv, k, self.adapt(p, v, bv.ty.v)))
                    return [(p, NEXT)]
                if d.box[0] == "counter":
                    k = coerce(idx, bv.elem)
                    self.write_field(p, base, "$v", VBag(z3.Store(bv.arr, *k.comps(), coerce(v, INT).z), bv.elem))
                    return [(p, NEXT)]
            m = self.find_method(base.cls, "__setitem__")
            if m is not None:
                fn = self.fn_for(m[0], "__setitem__")
                return [(q, NEXT if not isinstance(r, Exc) else ("raise", r)) for q, r in self.call_fn(p, fn, [base, idx, v], {}, node)]
        r = self.setitem_extra(p, base, idx, v, node)
        if r is not None:
            return r
        if isinstance(base, VOpaque) and self.lenient:
            root = node
            while isinstance(root, (ast.Attribute, ast.Subscript, ast.Call)):
                root = root.value if not isinstance(root, ast.Call) else root.func
            rootname = root.id if isinstance(root, ast.Name) else None
            if rootname not in (getattr(p.frame.fn, "local_containers", ()) if p.frame.fn is not None else ()):
                self.mark_dirty(p, f"item store into {rootname} at {w}")
            return [(p, NEXT)]
        if self.lenient and isinstance(base, VRef) and base.cls in self.classes and self.classes[base.cls].mod is None \
                and not self.classes[base.cls].box and not self.classes[base.cls].fields:
            # an abstract (field-less) class standing for an unmodelled IR container (e.g. a node's attributes): an IR edit
            self.mark_dirty(p, f"item store into an unmodelled {base.cls} at {w}")
            return [(p, NEXT), (p.copy(), ("raise", Exc("AnyException", w)))]
        raise Unsupported(f"item store on {base!r} at {w}")

    def setitem_extra(self, p, base, idx, v, node):
        return None

    def set_slice(self, p, base, sl, v, node):
        if isinstance(base, VRef) and base.cls in self.classes and self.classes[base.cls].box and self.classes[base.cls].box[0] == "list":
            if sl.lower is None and sl.upper is None and sl.step is None:
                s = self.iter_seq(v, p) if not isinstance(v, VTup) else self.to_seq(v, p, like=self.box_value(p, base).elem)
                self.on_box_mutation(p, base, "__setitem__", node)
                self.write_field(p, base, "$v", coerce(s, self.classes[base.cls].fields["$v"]))   # data[:] = seq
                return [(p, NEXT)]
        return self.setslice_extra(p, base, sl, v, node)

    def setslice_extra(self, p, base, sl, v, node):
        raise Unsupported(f"slice store on {base!r}")

    def del_item(self, p, base, idx, node):
        w = f"L{node.lineno}"
        if isinstance(base, VRef) and base.cls in self.classes:
            d = self.classes[base.cls]
            if d.box and d.box[0] == "dict":
                bv = self.box_value(p, base)
                k = coerce(idx, bv.ty.k)
                self.on_box_mutation(p, base, "__delitem__", node)

                def ok(q):
                    self.write_field(q, base, "$v", self.map_remove(q, bv, k))
                    return [(q, NEXT)]
                pt, pf = self.fork(p, z3.Not(bv.has(k)), f"KeyError {w}")
                out = [(pt, ("raise", Exc("KeyError", w)))] if pt is not None else []
                return out + (ok(pf) if pf is not None else [])
            if d.box and d.box[0] == "list" and idx is not None:
                r = self.call_boxmethod(p, base, "pop", [idx], {}, node)
                return [(q, NEXT if not isinstance(x, Exc) else ("raise", x)) for q, x in r]
            if d.box and d.box[0] == "counter":
                bv = self.box_value(p, base)
                k = coerce(idx, bv.elem)
                self.write_field(p, base, "$v", VBag(z3.Store(bv.arr, *k.comps(), z3.IntVal(0)), bv.elem))
                return [(p, NEXT)]
            m = self.find_method(base.cls, "__delitem__")
            if m is not None and idx is not None:
                fn = self.fn_for(m[0], "__delitem__")
                return [(q, NEXT if not isinstance(r, Exc) else ("raise", r)) for q, r in self.call_fn(p, fn, [base, idx], {}, node)]
        raise Unsupported(f"del on {base!r} at {w}")


def _has_opaque(v):
    if isinstance(v, VOpaque):
        return True
    if isinstance(v, VTup):
        return any(_has_opaque(i) for i in v.items)
    return False
