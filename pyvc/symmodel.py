"""An algebraic model of the SymPy expressions used by onnx_ir's symbolic dimensions (assumed contract of SymPy; the
C16 bounded stand-in runs the same functions against the real SymPy).

A SymPy expression is an immutable heap object of class `SymExpr`.  Every SymPy operation the code under contract
uses (`+ - * / // % **`, unary minus, `sympy.floor/ceiling/sign/Abs/Max/Min/Mod/sqrt/Integer/Rational/Symbol/sympify`)
is a *constructor*: an uninterpreted function from operand expressions to an expression.  The assumed SymPy contract
is the list of `den` axioms below: `den(e, b)` is the exact value (a real number) of `e` under the binding `b` of
its symbols, and each constructor denotes the standard arithmetic operation.  Nothing else is assumed about SymPy -
in particular nothing about automatic simplification (an expression object may be any term with the same
denotation), printing (`str`) or parsing."""
from __future__ import annotations

import ast
import z3

from .core import ClassDecl, Exc, Unsupported
from .engine import Engine
from .types import INT, REAL, STR, NULL, Ref, Ty, V, VBool, VClass, VFunc, VInt, VModule, VNone, VOpaque, VReal, VRef, VSeq, VStr, VTup, clsof, fresh_name

Beta = z3.DeclareSort("Binding")


class TBeta(Ty):
    def sorts(self):
        return [Beta]

    def wrap(self, comps):
        return VBeta(comps[0])


class VBeta(V):
    ty = TBeta()

    def __init__(self, z):
        self.z = z

    def comps(self):
        return [self.z]


def fl(x):
    """floor of a real, as a real"""
    return z3.ToReal(z3.ToInt(x))


BIN = {ast.Add: "add", ast.Sub: "sub", ast.Mult: "mul", ast.Div: "div", ast.FloorDiv: "floordiv", ast.Mod: "mod", ast.Pow: "pow"}


class SymEngine(Engine):
    def __init__(self, prop):
        super().__init__(prop)
        self.type_aliases = dict(self.type_aliases)
        self.type_aliases["beta"] = TBeta()
        self.add_class(ClassDecl("SymExpr"))
        self.lib_consts = dict(self.lib_consts)
        self.lib_consts["sympy.Expr"] = VClass("SymExpr")
        self.den = z3.Function("den", Ref, Beta, z3.RealSort())
        self.spec_ufuncs["den"] = (self.den, REAL)
        self.ctor = {}
        R = Ref
        for name, sorts in (("add", [R, R]), ("sub", [R, R]), ("mul", [R, R]), ("div", [R, R]), ("floordiv", [R, R]),
                            ("mod", [R, R]), ("pow", [R, R]), ("neg", [R]), ("floor", [R]), ("ceiling", [R]), ("sign", [R]),
                            ("Abs", [R]), ("sqrt", [R]), ("lit", [z3.IntSort()]), ("rat", [z3.IntSort(), z3.IntSort()]),
                            ("sym", [STR.sorts()[0]]), ("Max2", [R, R]), ("Min2", [R, R])):
            self.ctor[name] = z3.Function("sympy_" + name, *sorts, R)
        a, b = z3.Consts("sa sb", R)
        i, j = z3.Ints("si sj")
        be = z3.Const("sbeta", Beta)
        d, c = self.den, self.ctor

        def ax(vars_, lhs_term, rhs, guard=None):
            body = d(lhs_term, be) == rhs
            if guard is not None:
                body = z3.Implies(guard, body)
            self.axioms.append(z3.ForAll(list(vars_) + [be], body, patterns=[d(lhs_term, be)]))
        x, y = d(a, be), d(b, be)
        ax([a, b], c["add"](a, b), x + y)
        ax([a, b], c["sub"](a, b), x - y)
        ax([a, b], c["mul"](a, b), x * y)
        ax([a, b], c["div"](a, b), x / y, y != 0)
        ax([a, b], c["floordiv"](a, b), fl(x / y), y != 0)
        ax([a, b], c["mod"](a, b), x - y * fl(x / y), y != 0)
        ax([a], c["neg"](a), -x)
        ax([a], c["floor"](a), fl(x))
        ax([a], c["ceiling"](a), -fl(-x))
        ax([a], c["sign"](a), z3.If(x > 0, z3.RealVal(1), z3.If(x < 0, z3.RealVal(-1), z3.RealVal(0))))
        ax([a], c["Abs"](a), z3.If(x >= 0, x, -x))
        ax([a, b], c["Max2"](a, b), z3.If(x >= y, x, y))
        ax([a, b], c["Min2"](a, b), z3.If(x <= y, x, y))
        ax([i], c["lit"](i), z3.ToReal(i))
        ax([i, j], c["rat"](i, j), z3.ToReal(i) / z3.ToReal(j), j != 0)
        self.assumptions_used.add(
            "SymPy contract (assumed): +,-,*,/,//,%,unary -, floor, ceiling, sign, Abs, Max, Min, Integer, Rational build expressions "
            "whose exact value under any binding is the standard arithmetic result (// = floor of the quotient, % = x - y*floor(x/y)); "
            "sympify(e) denotes e; nothing is assumed about simplification, printing or parsing")
        for name in ("floor", "ceiling", "sign", "Abs", "sqrt"):
            self.lib_models["sympy." + name] = (lambda e, p, args, kw, node, name=name: [(p, e.mk(p, name, args[0]))])
        self.lib_models["sympy.sympify"] = lambda e, p, args, kw, node: [(p, e.as_expr(p, args[0]))]
        self.lib_models["sympy.Integer"] = lambda e, p, args, kw, node: [(p, e.as_expr(p, args[0]))]
        self.lib_models["sympy.Rational"] = lambda e, p, args, kw, node: e.rational(p, args, node)
        self.lib_models["sympy.Mod"] = lambda e, p, args, kw, node: [(p, e.mk(p, "mod", args[0], args[1]))]
        self.lib_models["sympy.Symbol"] = lambda e, p, args, kw, node: [(p, e.mk(p, "sym", args[0]))]
        self.lib_models["sympy.Max"] = lambda e, p, args, kw, node: e.nary(p, "Max2", args, node)
        self.lib_models["sympy.Min"] = lambda e, p, args, kw, node: e.nary(p, "Min2", args, node)

    # ------------------------------------------------------------------ construction
    def is_expr(self, v):
        return isinstance(v, VRef) and v.cls == "SymExpr"

    def as_expr(self, p, v):
        if self.is_expr(v):
            return v
        if isinstance(v, VBool):
            raise Unsupported("bool as a sympy operand")
        if isinstance(v, VInt):
            return self.mk(p, "lit", v)
        raise Unsupported(f"sympy operand {v!r}")

    def mk(self, p, name, *args):
        zs = []
        for a in args:
            if isinstance(a, (VInt, VStr)):
                zs.append(a.z)
            else:
                zs.append(self.as_expr(p, a).z)
        r = self.ctor[name](*zs)
        p.assume(r != NULL)
        p.assume(z3.Select(self.alloc_arr(p), r))
        p.assume(clsof(r) == self.classes["SymExpr"].id)
        return VRef(r, "SymExpr")

    def rational(self, p, args, node):
        if len(args) == 2 and all(isinstance(a, VInt) for a in args):
            w = f"L{node.lineno}"
            # sympy.Rational(p, 0) does not raise (it is zoo/nan); the contracts exclude a zero divisor by precondition
            return [(p, self.mk(p, "rat", args[0], args[1]))]
        raise Unsupported("sympy.Rational with non-integer arguments")

    def nary(self, p, name, args, node):
        if len(args) < 1:
            raise Unsupported("Max/Min without arguments")
        acc = self.as_expr(p, args[0])
        for a in args[1:]:
            acc = self.mk(p, name, acc, a)
        return [(p, acc)]

    # ------------------------------------------------------------------ operators
    def binop_extra(self, op, a, b, p, node):
        if self.is_expr(a) or self.is_expr(b):
            if type(op) in BIN and all(self.is_expr(x) or isinstance(x, VInt) for x in (a, b)):
                if any(isinstance(x, VBool) for x in (a, b)):
                    raise Unsupported("bool operand")
                return [(p, self.mk(p, BIN[type(op)], self.as_expr(p, a), self.as_expr(p, b)))]
            raise Unsupported(f"sympy binop {type(op).__name__} on {a!r}, {b!r}")
        return super().binop_extra(op, a, b, p, node)

    def unary_extra(self, node, p, v):
        if self.is_expr(v) and isinstance(node.op, ast.USub):
            return [(p, self.mk(p, "neg", v))]
        if isinstance(v, VReal) and isinstance(node.op, ast.USub):
            return [(p, VReal(-v.z))]
        return super().unary_extra(node, p, v)

    # ------------------------------------------------------------------ assumption queries (three-valued)
    QUERIES = {"is_negative": lambda x: x < 0, "is_positive": lambda x: x > 0, "is_nonnegative": lambda x: x >= 0,
               "is_nonpositive": lambda x: x <= 0, "is_zero": lambda x: x == 0, "is_integer": lambda x: x == fl(x)}

    def attr_extra(self, p, v, name, node):
        if self.is_expr(v) and name in self.QUERIES:
            # SymPy contract (assumed): a query answers True only if the fact holds under every binding, False only if it
            # fails under every binding, None otherwise
            from .types import VOpt
            isnone, val = z3.Bool(fresh_name("q_none")), z3.Bool(fresh_name("q_val"))
            b = z3.Const(fresh_name("qb"), Beta)
            fact = self.QUERIES[name](self.den(v.z, b))
            p.assume(z3.Implies(z3.And(z3.Not(isnone), val), z3.ForAll([b], fact)))
            p.assume(z3.Implies(z3.And(z3.Not(isnone), z3.Not(val)), z3.ForAll([b], z3.Not(fact))))
            self.assumptions_used.add("SymPy assumption queries (is_negative, is_positive, is_integer, ...) are sound: True/False only when the "
                                      "fact holds/fails under every binding, None otherwise")
            return [(p, VOpt(isnone, VBool(val)))]
        return super().attr_extra(p, v, name, node)

    # ------------------------------------------------------------------ spec helpers
    def sp_floor_(self, node, p):
        return self.bind(self.ev(node.args[0], p), lambda q, v: [(q, VReal(fl(_real(v))))])

    def sp_real(self, node, p):
        return self.bind(self.ev(node.args[0], p), lambda q, v: [(q, VReal(_real(v)))])

    def sp_rdiv(self, node, p):
        return self.bind(self.ev_list(node.args, p), lambda q, vs: [(q, VReal(_real(vs[0]) / _real(vs[1])))])


def _real(v):
    if isinstance(v, VReal):
        return v.z
    if isinstance(v, VInt):
        return z3.ToReal(v.z)
    raise Unsupported(f"real() of {v!r}")


# ---------------------------------------------------------------------------------------------------------------
# Tokens of the expression parser: a token is the Python tuple (kind: str, value: str | int).  The value is modelled
# by TTokVal = (isint, s, n): a string `s` when not isint, the integer `n` otherwise.

class TTokVal(Ty):
    def sorts(self):
        return [z3.BoolSort(), STR.sorts()[0], z3.IntSort()]

    def wrap(self, comps):
        return VTokVal(*comps)


class VTokVal(V):
    ty = TTokVal()

    def __init__(self, isint, s, n):
        self.isint, self.s, self.n = isint, s, n

    def comps(self):
        return [self.isint, self.s, self.n]

    def __repr__(self):
        return "VTokVal"


class VFnTable(V):
    """The module-level dict name -> sympy function (read from the real source)."""
    ty = None

    def __init__(self, entries):
        self.entries = entries      # [(key str, sympy function name)]

    def comps(self):
        return []


class VTableFn(V):
    """table[name]: the sympy function selected by a symbolic name."""
    ty = None

    def __init__(self, fid):
        self.fid = fid              # z3 Str term: canonical sympy function name

    def comps(self):
        return []


class ParserMixin:
    """Extends SymEngine with the token values and the function table."""

    def init_parser_model(self):
        S = STR.sorts()[0]
        self.sympy_app = z3.Function("sympy_app", S, z3.IntSort(), z3.ArraySort(z3.IntSort(), Ref), Ref)

    def tokval_str(self, v):
        return v

    def py_eq(self, a, b, p, is_=False):
        if isinstance(a, VTokVal) or isinstance(b, VTokVal):
            if isinstance(b, VTokVal):
                a, b = b, a
            if isinstance(b, VStr):
                return z3.And(z3.Not(a.isint), a.s == b.z)
            if isinstance(b, VInt):
                return z3.And(a.isint, a.n == b.z)
            if isinstance(b, VTokVal):
                return z3.And(a.isint == b.isint, z3.If(a.isint, a.n == b.n, a.s == b.s))
            if isinstance(b, VNone):
                return z3.BoolVal(False)
            raise Unsupported(f"== on a token value and {b!r}")
        return super().py_eq(a, b, p, is_)

    def contains(self, container, item, p):
        if isinstance(item, VTokVal):
            from .types import VSet, VTup as _VTup
            if isinstance(container, _VTup):
                return z3.Or([self.py_eq(item, i, p) for i in container.items] or [z3.BoolVal(False)])
            if isinstance(container, VSet):
                return z3.And(z3.Not(item.isint), container.has(VStr(item.s)))
            if isinstance(container, VFnTable):
                return z3.And(z3.Not(item.isint), z3.Or([item.s == VStr(k).z for k, _ in container.entries]))
            raise Unsupported(f"token value in {container!r}")
        if isinstance(container, VFnTable) and isinstance(item, VStr):
            return z3.Or([item.z == VStr(k).z for k, _ in container.entries])
        return super().contains(container, item, p)

    def isinstance_extra(self, p, v, name):
        if isinstance(v, VTokVal):
            if name == "str":
                return z3.Not(v.isint)
            if name == "int":
                return v.isint
            return z3.BoolVal(False)
        return super().isinstance_extra(p, v, name)

    def unpack(self, v, n, p):
        from .types import VOpt
        if isinstance(v, VOpt):
            # unpacking None raises TypeError: it must be unreachable
            self.oblige(p, z3.Not(v.isnone), "no-TypeError", "unpack-of-optional")
            p.assume(z3.Not(v.isnone))
            return super().unpack(v.val, n, p)
        return super().unpack(v, n, p)

    def getitem_extra(self, p, base, idx, node):
        from .types import VOpt
        if isinstance(base, VOpt) and self.spec_mode:
            return self.get_item(p, base.val, idx, node)
        if isinstance(base, VOpt):
            return self.raise_if(p, base.isnone, "TypeError", self.where(node), lambda q: self.get_item(q, base.val, idx, node))
        if isinstance(base, VFnTable):
            s = idx.s if isinstance(idx, VTokVal) else idx.z
            fid = VStr("?").z
            for k, f in reversed(base.entries):
                fid = z3.If(s == VStr(k).z, VStr(f).z, fid)
            cond = self.contains(base, idx, p)
            return self.raise_if(p, z3.Not(cond), "KeyError", self.where(node), lambda q: [(q, VTableFn(fid))])
        return super().getitem_extra(p, base, idx, node)

    def star_call(self, node, p):
        # func(*args) with func selected from the table and args a list of expressions
        if len(node.args) == 1 and isinstance(node.args[0], ast.Starred) and not node.keywords:
            def k(q, f):
                if not isinstance(f, VTableFn):
                    return None
                def k2(q2, a):
                    s = self.to_seq(a, q2)
                    r = self.sympy_app(f.fid, s.len, s.arrs[0])
                    q2.assume(r != NULL)
                    q2.assume(z3.Select(self.alloc_arr(q2), r))
                    q2.assume(clsof(r) == self.classes["SymExpr"].id)
                    return [(q2, VRef(r, "SymExpr"))]
                return self.bind(self.ev(node.args[0].value, q), k2)
            fres = self.ev(node.func, p)
            if all(isinstance(f, VTableFn) for _, f in fres):
                return self.bind(fres, k)
        return super().star_call(node, p)

    def as_expr(self, p, v):
        if isinstance(v, VTokVal):
            # sympy.Integer(token_value): the integer payload (callers check the token kind first)
            return self.mk(p, "lit", VInt(v.n))
        return super().as_expr(p, v)

    def mk(self, p, name, *args):
        args = [VStr(a.s) if (name == "sym" and isinstance(a, VTokVal)) else a for a in args]
        return super().mk(p, name, *args)
