"""Engine base: schema, paths, heap, allocation, obligations, forking."""
from __future__ import annotations

import ast
import z3

from . import extract
from .types import *  # noqa: F401,F403
from .types import (NULL, Ref, TBag, TMap, TRef, TSeq, TSet, Ty, V, VBag, VBool, VMap, VOpaque, VRef, VSeq, VSet,
                    clsof, fresh_name)


class Unsupported(Exception):
    """Construct outside the supported subset: the function is not verified (exit 3 / demotion)."""


class Exc:
    """An in-flight Python exception on a path (class name is all the encoding tracks)."""

    def __init__(self, cls: str, where: str = ""):
        self.cls, self.where = cls, where

    def __repr__(self):
        return f"Exc({self.cls}@{self.where})"


EXC_PARENTS = {
    "BaseException": None, "Exception": "BaseException", "ValueError": "Exception", "TypeError": "Exception",
    "KeyError": "LookupError", "IndexError": "LookupError", "LookupError": "Exception",
    "AttributeError": "Exception", "RuntimeError": "Exception", "AssertionError": "Exception",
    "StopIteration": "Exception", "NotImplementedError": "RuntimeError", "OSError": "Exception",
    "FileNotFoundError": "OSError", "FileExistsError": "OSError", "KeyboardInterrupt": "BaseException",
    "SerdeError": "Exception", "InvariantError": "Exception", "PreconditionError": "InvariantError",
    "PostconditionError": "InvariantError", "PassError": "RuntimeError", "UnicodeDecodeError": "ValueError",
    "ZeroDivisionError": "ArithmeticError", "ArithmeticError": "Exception", "AnyException": "Exception",
    "ExternalDataError": "Exception", "InvalidExternalDataError": "ValueError",
}


def exc_isinstance(cls: str, parent: str) -> bool:
    while cls is not None:
        if cls == parent:
            return True
        cls = EXC_PARENTS.get(cls, "Exception" if cls not in ("BaseException",) else None)
        if cls == "Exception" and parent == "Exception":
            return True
    return False


class ClassDecl:
    def __init__(self, name, mod=None, bases=(), fields=None, box=None, record=None, methods=None):
        self.name, self.mod, self.bases = name, mod, list(bases)
        self.fields: dict[str, Ty] = dict(fields or {})
        self.box = box          # ('list', elemTy) / ('dict', TMap) / ('set', elemTy) / ('counter', elemTy)
        self.record = record    # TRec for value classes
        self.methods = methods  # name -> [kinds], from the real class body (None for synthetic classes)
        self.id = None


class FnDecl:
    """How calls to a function are treated. mode: inline | contract | opaque | builtin."""

    def __init__(self, fqn, mode="inline", mod=None, qual=None, kind="function", **kw):
        self.fqn, self.mode, self.mod, self.qual, self.kind = fqn, mode, mod, qual, kind
        self.requires = kw.get("requires", [])
        self.ensures = kw.get("ensures", [])
        self.raises = kw.get("raises", {})       # exc name -> list of spec strings (post on that exit)
        self.modifies = kw.get("modifies", None)  # None = everything; list of 'Class.field'
        self.ret = kw.get("ret", None)            # Ty of the result for contract/opaque modes
        self.pure = kw.get("pure", False)
        self.loops = kw.get("loops", {})
        self.params = kw.get("params", None)
        self.impl = kw.get("impl", None)          # python callable for builtin mode
        self.local_types = kw.get("local_types", {})
        self._extracted = None

    def extracted(self):
        if self._extracted is None:
            self._extracted = extract.find(self.mod, self.qual, self.kind)
        return self._extracted


class Frame:
    def __init__(self, fn: FnDecl | None, mod: str | None, cls: str | None = None):
        self.fn, self.mod, self.cls = fn, mod, cls
        self.locals: dict[str, V] = {}
        self.closure: Frame | None = None
        self.loop_counter = 0

    def copy(self):
        f = Frame(self.fn, self.mod, self.cls)
        f.locals = dict(self.locals)
        f.closure = self.closure
        f.loop_counter = self.loop_counter
        return f

    def lookup(self, name):
        f = self
        while f is not None:
            if name in f.locals:
                return f.locals[name]
            f = f.closure
        return None


class Path:
    def __init__(self):
        self.pc: list = []
        self.heap: dict = {}
        self.epoch = 0
        self.frames: list[Frame] = []
        self.old_heaps: list = []      # stack of (heap dict, epoch) snapshots for old()
        self.ghost: dict = {}
        self.trace: list[str] = []
        self.dead = False
        self.stmts: set = set()

    def copy(self):
        p = Path()
        p.pc = list(self.pc)
        p.heap = dict(self.heap)
        p.epoch = self.epoch
        p.frames = [f.copy() for f in self.frames]
        # closures: re-link copies (closure frames are shared by identity within a path)
        idmap = {id(o): n for o, n in zip(self.frames, p.frames)}
        for f in p.frames:
            if f.closure is not None and id(f.closure) in idmap:
                f.closure = idmap[id(f.closure)]
        p.old_heaps = list(self.old_heaps)
        p.ghost = dict(self.ghost)
        p.trace = list(self.trace)
        p.stmts = set(self.stmts)
        return p

    @property
    def frame(self) -> Frame:
        return self.frames[-1]

    def assume(self, c):
        c = z3.simplify(c) if not isinstance(c, bool) else z3.BoolVal(c)
        if z3.is_true(c):
            return
        if z3.is_false(c):
            self.dead = True
        self.pc.append(c)


class Obligation:
    def __init__(self, name, pc, goal, kind, where="", extra=None):
        self.name, self.pc, self.goal, self.kind, self.where = name, list(pc), goal, kind, where
        self.extra = extra or {}
        self.status = None
        self.backend = None
        self.time = 0.0
        self.model = None


_HQ_CACHE: dict = {}


def has_quantifier(e) -> bool:
    """Memoised per top-level constraint (path conditions are re-examined at every feasibility check; the id is kept
    alive by the reference stored next to the answer)."""
    k = e.get_id()
    hit = _HQ_CACHE.get(k)
    if hit is not None and hit[0].eq(e):
        return hit[1]
    seen = set()
    stack = [e]
    r = False
    while stack:
        x = stack.pop()
        if x.get_id() in seen:
            continue
        seen.add(x.get_id())
        if z3.is_quantifier(x):
            r = True
            break
        stack.extend(x.children())
    if len(_HQ_CACHE) > 200000:
        _HQ_CACHE.clear()
    _HQ_CACHE[k] = (e, r)
    return r


class EngineBase:
    def __init__(self, prop_id: str):
        self.prop = prop_id
        self.classes: dict[str, ClassDecl] = {}
        self.functions: dict[str, FnDecl] = {}
        self.specfuncs: dict[str, ast.FunctionDef] = {}
        self.axioms: list = []
        self.obligations: list[Obligation] = []
        self.init_heap: dict = {}
        self.cur_target = None
        self.prune = True
        self.stats = {"paths": 0, "pruned": 0, "forks": 0}
        self._clsid = 0
        self.assumptions_used: set[str] = set()
        self.functions_under_contract: dict[str, dict] = {}
        self.ufuncs: dict[str, z3.FuncDeclRef] = {}
        self.max_paths = 4000
        self.terminals: list = []     # (target, pc, stmts) of every path end, for the cover (vacuity) queries

    # ---------------------------------------------------------------- schema
    def add_class(self, decl: ClassDecl):
        self._clsid += 1
        decl.id = self._clsid
        self.classes[decl.name] = decl
        return decl

    def cls(self, name) -> ClassDecl:
        if name not in self.classes:
            box = self._box_from_name(name)
            if box is None:
                raise Unsupported(f"unknown class {name}")
        return self.classes[name]

    def box_class(self, kind, *tys) -> str:
        name = f"{kind}[{','.join(map(repr, tys))}]"
        if name not in self.classes:
            if kind == "list":
                fty = TSeq(tys[0])
            elif kind == "dict":
                fty = TMap(tys[0], tys[1])
            elif kind == "set":
                fty = TSet(tys[0])
            elif kind == "counter":
                fty = TBag(tys[0])
            else:
                raise Unsupported(kind)
            self.add_class(ClassDecl(name, fields={"$v": fty}, box=(kind,) + tuple(tys)))
        return name

    def LIST(self, elem) -> TRef:
        return TRef(self.box_class("list", elem))

    def DICT(self, k, v) -> TRef:
        return TRef(self.box_class("dict", k, v))

    def SET(self, elem) -> TRef:
        return TRef(self.box_class("set", elem))

    def COUNTER(self, elem) -> TRef:
        return TRef(self.box_class("counter", elem))

    def _box_from_name(self, name):
        return None

    def mro(self, name):
        out, stack = [], [name]
        while stack:
            c = stack.pop(0)
            if c in out or c not in self.classes:
                continue
            out.append(c)
            stack = list(self.classes[c].bases) + stack
        return out

    def subclasses(self, name):
        return [c for c in self.classes if name in self.mro(c)]

    def field_decl(self, cls, fname):
        for c in self.mro(cls):
            if fname in self.classes[c].fields:
                return c, self.classes[c].fields[fname]
        return None

    def find_method(self, cls, name, after=None):
        """Resolve along the MRO (optionally strictly after class `after`, for super())."""
        mro = self.mro(cls)
        if after is not None:
            mro = mro[mro.index(after) + 1:] if after in mro else []
        for c in mro:
            d = self.classes[c]
            if d.methods and name in d.methods:
                return c, d.methods[name]
        return None

    def is_instance(self, ref, clsname):
        ids = [self.classes[c].id for c in self.subclasses(clsname)]
        if not ids:
            return z3.BoolVal(False)
        return z3.And(ref != NULL, z3.Or([clsof(ref) == i for i in ids]))

    # ---------------------------------------------------------------- heap
    def heap_key(self, cls, fname):
        fd = self.field_decl(cls, fname)
        if fd is None:
            raise Unsupported(f"field {cls}.{fname} is not declared in the schema")
        owner, ty = fd
        return (owner, fname), ty

    def _arrays_for(self, key, ty, tag):
        return [z3.Const(f"H{tag}!{key[0]}.{key[1]}.{i}", z3.ArraySort(Ref, s)) for i, s in enumerate(ty.sorts())]

    def heap_arrays(self, p: Path, key, ty, heap=None, epoch=None):
        heap = p.heap if heap is None else heap
        epoch = p.epoch if epoch is None else epoch
        if key not in heap:
            ik = (epoch, key)
            if ik not in self.init_heap:
                self.init_heap[ik] = self._arrays_for(key, ty, epoch)
            heap[key] = self.init_heap[ik]
        return heap[key]

    ALLOC = ("$", "alloc")

    def alloc_arr(self, p: Path, heap=None, epoch=None):
        return self.heap_arrays(p, self.ALLOC, BOOL, heap, epoch)[0]

    def read_field(self, p: Path, ref: VRef, fname: str, heap=None, epoch=None) -> V:
        if ref.cls is None:
            raise Unsupported(f"attribute {fname} on a reference of unknown class")
        key, ty = self.heap_key(ref.cls, fname)
        arrs = self.heap_arrays(p, key, ty, heap, epoch)
        v = ty.wrap([z3.Select(a, ref.z) for a in arrs])
        self.assume_typed(p, v, heap, epoch)
        return v

    def assume_typed(self, p: Path, v: V, heap=None, epoch=None):
        """Typing assumption: a declared reference holds null or an allocated object of its class."""
        if isinstance(v, VSeq):
            p.assume(v.len >= 0)
        elif isinstance(v, VMap) and v.keys is not None:
            p.assume(v.keys.len >= 0)
        if isinstance(v, VRef) and v.cls is not None and v.cls in self.classes:
            al = self.alloc_arr(p, heap, epoch)
            ids = [self.classes[c].id for c in self.subclasses(v.cls)]
            p.assume(z3.Or(v.z == NULL, z3.And(z3.Select(al, v.z), z3.Or([clsof(v.z) == i for i in ids]))))

    def write_field(self, p: Path, ref: VRef, fname: str, val: V):
        key, ty = self.heap_key(ref.cls, fname)
        if isinstance(val, VOpaque):
            # an unmodelled value stored into a typed slot: the slot now holds an arbitrary value of its type
            val = ty.fresh("opq_" + fname)
            self.assume_typed(p, val)
        val = coerce(val, ty)
        arrs = self.heap_arrays(p, key, ty)
        p.heap[key] = [z3.Store(a, ref.z, c) for a, c in zip(arrs, val.comps())]

    def new_object(self, p: Path, cls: str, base="obj") -> VRef:
        d = self.cls(cls)
        r = z3.Const(fresh_name(base + "_" + cls.split("[")[0]), Ref)
        al = self.alloc_arr(p)
        p.assume(r != NULL)
        p.assume(z3.Not(z3.Select(al, r)))
        p.assume(clsof(r) == d.id)
        p.heap[self.ALLOC] = [z3.Store(al, r, z3.BoolVal(True))]
        return VRef(r, cls)

    def new_box(self, p: Path, kind, tys, init: V) -> VRef:
        cls = self.box_class(kind, *tys)
        r = self.new_object(p, cls, kind)
        self.write_field(p, r, "$v", init)
        return r

    def box_value(self, p: Path, ref: VRef, heap=None, epoch=None) -> V:
        return self.read_field(p, ref, "$v", heap, epoch)

    def havoc_heap(self, p: Path, keys=None):
        """Replace heap arrays by fresh ones (all when keys is None). alloc only grows."""
        old_alloc = self.alloc_arr(p)
        if keys is None:
            p.heap = {}
            self._epoch_counter = getattr(self, "_epoch_counter", 0) + 1
            p.epoch = self._epoch_counter
        else:
            for k in keys:
                kk, ty = self.heap_key(*k) if k != self.ALLOC else (self.ALLOC, BOOL)
                self.heap_arrays(p, kk, ty)   # make sure the pre-havoc array exists (for frame checks)
                p.heap[kk] = self._arrays_for(kk, ty, fresh_name("hv"))
        new_alloc = self.alloc_arr(p)
        if new_alloc is not old_alloc:
            r = z3.Const(fresh_name("r"), Ref)
            p.assume(z3.ForAll([r], z3.Implies(z3.Select(old_alloc, r), z3.Select(new_alloc, r))))

    # ---------------------------------------------------------------- obligations / forking
    def terminal(self, p: Path, what=""):
        """Record a path end for the reachability (anti-vacuity) check."""
        self.terminals.append((self.cur_target, list(p.pc), set(p.stmts), what))

    def add_static(self, name, ok, detail="", backend="effect-analysis", functions=None):
        """An obligation decided outside the SMT layer (effect / frame / coverage contracts decided by the analysis itself)."""
        ob = Obligation(f"{self.prop}/{name}", [], z3.BoolVal(bool(ok)), "static", name)
        ob.status, ob.backend = ("proved" if ok else "refuted"), backend
        ob.why = detail
        ob.model = detail if not ok else None
        self.obligations.append(ob)
        return ob

    def oblige(self, p: Path, goal, kind, where="", extra=None):
        # split top-level conjunctions: one small query per conjunct (slow merged queries are the unstable ones)
        if z3.is_and(goal) and goal.num_args() > 1 and kind not in ("vacuity",):
            for i, c in enumerate(goal.children()):
                self.oblige(p, c, kind, f"{where}.{i}", extra)
            return
        raw = goal
        goal = z3.simplify(goal)
        if z3.is_true(goal):
            # still count it: discharged by simplification
            ob = Obligation(self._obname(kind, where), [], goal, kind, where, extra)
            ob.status, ob.backend = "proved", "simplify"
            self.obligations.append(ob)
            return
        ob = Obligation(self._obname(kind, where), p.pc, raw, kind, where, extra)
        ob.trace = list(p.trace)[-40:]
        self.obligations.append(ob)

    def _obname(self, kind, where):
        t = self.cur_target or "?"
        return f"{self.prop}/{t}/{kind}" + (f"@{where}" if where else "")

    def mark_dirty(self, p: Path, why: str):
        """An event that may change IR state (effect obligations).  Besides the sticky path flag `$ir_dirty` consulted by
        ir_clean(), a contract may keep a symbolic edit counter: if the target declared the ghost local `g_edits`, every such
        event increments it (so that `no edit happened` can be related to program variables across loop cuts)."""
        p.ghost["$ir_dirty"] = p.ghost.get("$ir_dirty") or why
        for f in p.frames:
            if "g_edits" in f.locals:
                from .types import VInt
                f.locals["g_edits"] = VInt(f.locals["g_edits"].z + 1)
                break

    def havoc_edit_counter(self, p: Path):
        """At a loop cut whose body may change IR state: an unknown number (>= 0) of earlier edits."""
        for f in p.frames:
            if "g_edits" in f.locals:
                from .types import VInt, fresh_name
                import z3 as _z3
                n = _z3.Int(fresh_name("g_edits"))
                p.assume(n >= f.locals["g_edits"].z)
                f.locals["g_edits"] = VInt(n)
                break

    def feasible(self, p: Path) -> bool:
        if p.dead:
            return False
        if not self.prune:
            return True
        s = z3.Solver()
        s.set("timeout", 400)
        for c in p.pc:
            if not has_quantifier(c):
                s.add(c)
        r = s.check()
        if r == z3.unsat:
            self.stats["pruned"] += 1
            p.dead = True
            return False
        return True

    def fork(self, p: Path, cond, label=""):
        """Return (p_true, p_false); either may be None when infeasible."""
        cond = z3.simplify(cond)
        if z3.is_true(cond):
            return p, None
        if z3.is_false(cond):
            return None, p
        self.stats["forks"] += 1
        if self.stats["forks"] > self.max_paths * 4:
            raise Unsupported("path explosion")
        pt, pf = p, p.copy()
        pt.assume(cond)
        pf.assume(z3.Not(cond))
        pt.trace.append(label + "+")
        pf.trace.append(label + "-")
        return (pt if self.feasible(pt) else None), (pf if self.feasible(pf) else None)
