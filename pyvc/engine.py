"""The verifier: specs, targets, obligation generation."""
from __future__ import annotations

import ast
import time
import z3

from . import extract
from .builtins import BuiltinMixin
from .core import ClassDecl, EngineBase, Exc, FnDecl, Frame, Obligation, Path, Unsupported, exc_isinstance
from .sem_call import CallMixin
from .sem_expr import ExprMixin
from .sem_stmt import NEXT, LoopSpec, StmtMixin
from .types import *  # noqa: F401,F403
from .types import (BOOL, INT, NULL, Ref, STR, TBag, TInt, TMap, TOpt, TRec, TRef, TSeq, TSet, TStr, TTup, Ty, V, VBag,
                    VBool, VClass, VFunc, VInt, VMap, VModule, VNone, VOpaque, VOpt, VRec, VRef, VSeq, VSet, VStr, VTup,
                    clsof, coerce, fresh_name, ite, val_eq)


class Target:
    """One function under contract, proved against its body."""

    def __init__(self, name, fqn=None, mod=None, qual=None, kind="function", self_cls=None, params=None,
                 requires=(), ensures=(), raises=None, raises_default=None, no_raise=None, loops=None,
                 local_types=None, setup=None, allow_exc=None, assert_mode=None, modifies=None, node=None,
                 unchecked_exc=(), reveal=(), ghost=(), ghost_init=None, dead=(), yield_spec=None, ret=None):
        self.ret = ret                        # declared result type: an unmodelled (opaque) result becomes an ARBITRARY value of it
        self.yield_spec = yield_spec          # iterator contract for generator functions
        self.name, self.mod, self.qual, self.kind, self.self_cls = name, mod, qual, kind, self_cls
        self.params = dict(params or {})      # name -> Ty (parameters not listed take their default value)
        self.requires, self.ensures = list(requires), list(ensures)
        self.raises = dict(raises or {})      # exc class -> [specs] that must hold on that exceptional exit
        self.raises_default = raises_default  # [specs] for every other exception; None => such exits are violations
        self.no_raise = no_raise
        self.loops = dict(loops or {})
        self.local_types = dict(local_types or {})
        self.setup = setup                    # callable(engine, path, env) run after parameter creation
        self.assert_mode = assert_mode
        self.modifies = modifies
        self.node = node
        self.unchecked_exc = set(unchecked_exc)
        self.reveal = set(reveal)
        self.ghost = list(ghost)              # (statement text, 'before'|'after', ghost code)
        self.ghost_init = ghost_init          # ghost code run at function entry
        self.dead = list(dead)                # first-line source text of statements declared unreachable under `requires`

    def is_declared_dead(self, lineno):
        fnode = getattr(self, "_fnode", None)
        if fnode is None or not self.dead:
            return False
        for n in ast.walk(fnode):
            if isinstance(n, ast.stmt) and n.lineno <= lineno <= n.end_lineno and any(
                    d in ast.unparse(n).splitlines()[0] for d in self.dead):
                return True
        return False


class Engine(ExprMixin, StmtMixin, CallMixin, BuiltinMixin, EngineBase):
    def __init__(self, prop_id):
        EngineBase.__init__(self, prop_id)
        self._consts_cache, self._imports_cache = {}, {}
        self.spec_env = {}
        self.global_overrides = {}
        self.lib_models = dict(self.lib_models)
        self.targets: list[Target] = []
        self.targets_by_fqn = {}
        self.target_results = {}
        self._spec_cache = {}
        self.add_class(ClassDecl("list[?]"))
        self.add_class(ClassDecl("dict[?]"))
        self.add_class(ClassDecl("set[?]"))
        self.add_class(ClassDecl("counter[?]"))
        self.lib_models["collections.Counter"] = lambda e, p, a, k, n: [(p, e.new_object(p, "counter[?]", "counter"))]
        self.unsupported: dict[str, str] = {}
        self.spec_ufuncs = {}       # spec-level names of uninterpreted (library) functions
        self.lemmas = []
        self.type_aliases = {"optint": TOpt(INT), "optstr": TOpt(STR)}

    # ---------------------------------------------------------------- spec language
    def spec_fn(self, src: str):
        """Register spec functions (macros) from python source: `def name(args): return <expr>`."""
        for n in ast.parse(src).body:
            if isinstance(n, ast.FunctionDef):
                self.specfuncs[n.name] = n

    def parse_spec(self, s):
        if s not in self._spec_cache:
            self._spec_cache[s] = ast.parse(s.strip(), mode="eval").body
        return self._spec_cache[s]

    def spec_val(self, s, p: Path, env=None) -> V:
        node = self.parse_spec(s) if isinstance(s, str) else s
        saved = (self.spec_mode, self.spec_env)
        self.spec_mode = True
        self.spec_env = dict(saved[1]) if saved[0] else dict(self.ghost_env)
        self.spec_env.update(env or {})
        npc = len(p.pc)
        heap_before = dict(p.heap)
        try:
            res = self.ev(node, p)
        finally:
            self.spec_mode, self.spec_env = saved
        if len(res) != 1 or isinstance(res[0][1], Exc):
            raise Unsupported(f"spec expression forks or raises: {s if isinstance(s, str) else ast.unparse(s)} -> {res}")
        # evaluating a spec must not change the path: typing facts learnt are kept (they are assumptions of the
        # typed-heap model), the heap must be untouched
        p.heap = heap_before if len(heap_before) == len(p.heap) else {**p.heap, **heap_before}
        return res[0][1]

    def spec_bool(self, s, p: Path, env=None):
        return self.truth(self.spec_val(s, p, env), p)

    def spec_call(self, node, p):
        f = node.func
        if not isinstance(f, ast.Name):
            return None
        name = f.id
        if name in self.spec_ufuncs:
            uf, rty = self.spec_ufuncs[name]
            return self.bind(self.ev_list(node.args, p), lambda q, vs: [(q, rty.wrap([uf(*[c for v in vs for c in v.comps()])]))])
        if name in self.specfuncs and name in self.opaque_specs and name not in self.revealed:
            # opaque spec predicate: an uninterpreted function of its (flattened) arguments; its definition is
            # only revealed in the targets that list it under `reveal`
            def ko(q, vs):
                comps = [c for v in vs for c in v.comps()]
                f = self.ufunc("spec!" + name + "!" + "_".join(str(c.sort()) for c in comps), [c.sort() for c in comps], z3.BoolSort())
                return [(q, VBool(f(*comps)))]
            return self.bind(self.ev_list(node.args, p), ko)
        if name in self.specfuncs:
            fn = self.specfuncs[name]

            def k(q, vs):
                env = {a.arg: v for a, v in zip(fn.args.args, vs)}
                body = fn.body[-1]
                if not isinstance(body, ast.Return):
                    raise Unsupported(f"spec function {name} must be a single return")
                saved = self.spec_env
                self.spec_env = {**saved, **env}
                try:
                    return self.ev(body.value, q)
                finally:
                    self.spec_env = saved
            return self.bind(self.ev_list(node.args, p), k)
        m = getattr(self, "sp_" + name, None)
        if m is not None:
            return m(node, p)
        return None

    def _with_heap(self, p, heap, epoch, node):
        saved = (p.heap, p.epoch)
        p.heap, p.epoch = heap, epoch
        try:
            return self.ev(node, p)
        finally:
            p.heap, p.epoch = saved

    def sp_old(self, node, p):
        if not p.old_heaps:
            raise Unsupported("old() outside a two-state context")
        heap, epoch = p.old_heaps[-1]
        return self._with_heap(p, heap, epoch, node.args[0])

    def sp_at_loop(self, node, p):
        heap, epoch = self.spec_env["$loop_heap"]
        return self._with_heap(p, dict(heap), epoch, node.args[0])

    def _quant(self, node, p, is_forall):
        lam = node.args[0]
        if not isinstance(lam, ast.Lambda):
            raise Unsupported("forall/exists expects a lambda with typed defaults")
        names = [a.arg for a in lam.args.args]
        tys = lam.args.defaults
        if len(tys) != len(names):
            raise Unsupported("forall: every bound variable needs `=Type`")
        bound, guards, env = [], [], {}
        for n, t in zip(names, tys):
            ty = self.spec_type(t)
            v = ty.wrap([z3.Const(fresh_name("q_" + n) + f".{i}", s) for i, s in enumerate(ty.sorts())])
            bound.extend(v.comps())
            env[n] = v
            if isinstance(v, VRef) and v.cls is not None:
                guards.append(z3.And(z3.Select(self.alloc_arr(p), v.z), self.is_instance(v.z, v.cls)))
        saved = self.spec_env
        self.spec_env = {**saved, **env}
        n0 = len(p.pc)
        try:
            res = self.ev(lam.body, p)
        finally:
            self.spec_env = saved
        (q, bv), = res
        body = self.truth(bv, p)
        # typing facts learnt while evaluating the body (they may mention the bound variables) are globally true in
        # the typed-heap model: they become antecedents inside the quantifier instead of path assumptions
        facts = p.pc[n0:]
        del p.pc[n0:]
        if facts:
            # ... and, being consequences of the typed/closed-heap assumption (an allocated object's fields hold null
            # or allocated objects of the declared class; lengths are non-negative), they are also assumed outright
            p.assume(z3.ForAll(bound, z3.Implies(z3.And(guards) if guards else z3.BoolVal(True), z3.And(facts))))
        g = z3.And(guards + facts) if (guards or facts) else z3.BoolVal(True)
        if is_forall:
            matrix = z3.Implies(g, body)
            pats = select_triggers(bound, matrix) if self.auto_triggers else None
            if pats:
                try:
                    return [(p, VBool(z3.ForAll(bound, matrix, patterns=pats)))]
                except z3.Z3Exception:
                    pass      # e.g. a lambda array inside a candidate trigger: let z3 infer
            return [(p, VBool(z3.ForAll(bound, matrix)))]
        return [(p, VBool(z3.Exists(bound, z3.And(g, body))))]

    def sp_forall(self, node, p):
        return self._quant(node, p, True)

    def sp_exists(self, node, p):
        return self._quant(node, p, False)

    def spec_type(self, t) -> Ty:
        if isinstance(t, ast.Name):
            if t.id == "int":
                return INT
            if t.id == "bool":
                return BOOL
            if t.id == "str":
                return STR
            if t.id == "ref":
                return TRef(None)
            if t.id == "real":
                from .types import REAL
                return REAL
            if t.id in self.classes:
                d = self.classes[t.id]
                return d.record if d.record is not None else TRef(t.id)
            if t.id in self.type_aliases:
                return self.type_aliases[t.id]
        raise Unsupported(f"spec type {ast.unparse(t)}")

    type_aliases: dict = {}
    auto_triggers = True
    opaque_specs: set = set()
    revealed: set = set()

    def sp_implies(self, node, p):
        return self.bind(self.ev_list(node.args, p),
                         lambda q, vs: [(q, VBool(z3.Implies(self.truth(vs[0], q), self.truth(vs[1], q))))])

    def sp_iff(self, node, p):
        return self.bind(self.ev_list(node.args, p),
                         lambda q, vs: [(q, VBool(self.truth(vs[0], q) == self.truth(vs[1], q)))])

    def sp_ite(self, node, p):
        return self.bind(self.ev_list(node.args, p), lambda q, vs: [(q, ite(self.truth(vs[0], q), vs[1], vs[2]))])

    def sp_allocated(self, node, p):
        return self.bind(self.ev(node.args[0], p), lambda q, v: [(q, VBool(z3.Select(self.alloc_arr(q), v.z)))])

    def sp_fresh(self, node, p):
        """fresh(x): x is non-null and was not allocated in the old state."""
        heap, epoch = p.old_heaps[-1]
        return self.bind(self.ev(node.args[0], p),
                         lambda q, v: [(q, VBool(z3.And(v.z != NULL, z3.Not(z3.Select(self.alloc_arr(q, heap, epoch), v.z)))))])

    def sp_typeis(self, node, p):
        cls = node.args[1].id
        return self.bind(self.ev(node.args[0], p), lambda q, v: [(q, VBool(self.is_instance(v.z, cls)))])

    def sp_IntSeq(self, node, p):
        """IntSeq(a, b, ...): an immutable integer sequence literal (possibly empty) for ghost code."""
        return self.bind(self.ev_list(node.args, p), lambda q, vs: [(q, VSeq.of([coerce(v, INT) for v in vs], INT))])

    def sp_prefixof(self, node, p):
        return self.bind(self.ev_list(node.args, p), lambda q, vs: [(q, VBool(z3.PrefixOf(vs[0].z, vs[1].z)))])

    def sp_suffixof(self, node, p):
        return self.bind(self.ev_list(node.args, p), lambda q, vs: [(q, VBool(z3.SuffixOf(vs[0].z, vs[1].z)))])

    def sp_strlen(self, node, p):
        return self.bind(self.ev_list(node.args, p), lambda q, vs: [(q, VInt(z3.Length(vs[0].z)))])

    def sp_charat(self, node, p):
        return self.bind(self.ev_list(node.args, p), lambda q, vs: [(q, VStr(z3.SubString(vs[0].z, vs[1].z, 1)))])

    def sp_ir_clean(self, node, p):
        """ir_clean(): no possibly-IR-mutating call on an unmodelled receiver happened on this path (lenient mode)."""
        return [(p, VBool(z3.BoolVal(p.ghost.get("$ir_dirty") is None)))]

    def sp_box_get(self, node, p):
        """box_get(m, k): value of an (unordered ghost) map at k."""
        return self.bind(self.ev_list(node.args, p), lambda q, vs: [(q, vs[0].get(coerce(vs[1], vs[0].ty.k)))])

    def sp_box_has(self, node, p):
        return self.bind(self.ev_list(node.args, p), lambda q, vs: [(q, vs[0].get(coerce(vs[1], vs[0].ty.k)) if isinstance(vs[0].ty.v, type(BOOL)) else VBool(vs[0].has(coerce(vs[1], vs[0].ty.k))))])

    def sp_some(self, node, p):
        """some(x): the payload of an optional (meaningful only where `x is not None` is also stated)."""
        return self.bind(self.ev(node.args[0], p), lambda q, v: [(q, v.val if isinstance(v, VOpt) else v)])

    def sp_nonnull(self, node, p):
        return self.bind(self.ev(node.args[0], p), lambda q, v: [(q, VBool(v.z != NULL))])

    def sp_box(self, node, p):
        """box(x): the immutable value held by list/dict/set object x."""
        return self.bind(self.ev(node.args[0], p), lambda q, v: [(q, self.box_value(q, v))])

    def sp_count(self, node, p):
        return self.bind(self.ev_list(node.args, p),
                         lambda q, vs: [(q, VInt(self.seq_count(self.to_seq(vs[0], q), vs[1])))])

    def sp_countp(self, node, p):
        """countp(seq, k, x): occurrences of x among the first k elements of seq."""
        def k(q, vs):
            s = self.to_seq(vs[0], q)
            cnt = self.count_fn(s.elem)
            return [(q, VInt(cnt(*s.arrs, *coerce(vs[2], s.elem).comps(), vs[1].z)))]
        return self.bind(self.ev_list(node.args, p), k)

    def sp_seq_eq(self, node, p):
        return self.bind(self.ev_list(node.args, p),
                         lambda q, vs: [(q, VBool(val_eq(self.to_seq(vs[0], q), self.to_seq(vs[1], q, like=self.to_seq(vs[0], q).elem))))])

    def sp_Seq(self, node, p):
        """Seq(x): view a list/tuple as an immutable sequence value."""
        return self.bind(self.ev(node.args[0], p), lambda q, v: [(q, self.to_seq(v, q))])

    def sp_EmptySeq(self, node, p):
        """EmptySeq(Type): the empty sequence of the given element type (initial value of a ghost sequence)."""
        return [(p, VSeq.empty(self.spec_type(node.args[0])))]

    def sp_unchanged(self, node, p):
        """unchanged('Class.field', ...): the field arrays equal their old versions (whole-heap frame)."""
        heap, epoch = p.old_heaps[-1]
        conj = []
        for a in node.args:
            cf = a.value
            c, f = cf.rsplit(".", 1)
            key, ty = (self.ALLOC, BOOL) if cf == "$.alloc" else self.heap_key(c, f)
            now = self.heap_arrays(p, key, ty)
            then = self.heap_arrays(p, key, ty, heap, epoch)
            conj.extend(x == y for x, y in zip(now, then) if not x.eq(y))
        return [(p, VBool(z3.And(conj) if conj else z3.BoolVal(True)))]

    def sp_keypos(self, node, p):
        """keypos(it, u): position of key u in the key sequence `it` obtained by iterating a dict."""
        def k(q, vs):
            seq, u = vs
            kp = self.keypos_fn(seq)
            return [(q, VInt(kp(*seq.arrs, *coerce(u, seq.elem).comps())))]
        return self.bind(self.ev_list(node.args, p), k)

    def sp_unchanged_old(self, node, p):
        """unchanged_old('Class.field', ...): every object allocated in the old state keeps the value of the field
        (objects created since are unconstrained)."""
        heap, epoch = p.old_heaps[-1]
        old_alloc = self.alloc_arr(p, heap, epoch)
        conj = []
        for a in node.args:
            c, f = a.value.rsplit(".", 1)
            key, ty = self.heap_key(c, f)
            now = self.heap_arrays(p, key, ty)
            then = self.heap_arrays(p, key, ty, heap, epoch)
            if all(x.eq(y) for x, y in zip(now, then)):
                continue
            r = z3.Const(fresh_name("uo"), Ref)
            conj.append(z3.ForAll([r], z3.Implies(z3.Select(old_alloc, r), z3.And([z3.Select(x, r) == z3.Select(y, r) for x, y in zip(now, then)]))))
        return [(p, VBool(z3.And(conj) if conj else z3.BoolVal(True)))]

    # ---------------------------------------------------------------- targets
    def add_target(self, t: Target):
        self.targets.append(t)
        if t.mod:
            self.targets_by_fqn[f"{t.mod}.{t.qual}"] = t
        return t

    def symbolic_param(self, p: Path, name, ty: Ty):
        v = ty.fresh(name)
        self.assume_typed(p, v)
        if isinstance(v, VSeq):
            p.assume(v.len >= 0)
            if isinstance(v.elem, TRef) and v.elem.cls in self.classes:
                i = z3.Int(fresh_name("pi"))
                al = self.alloc_arr(p)
                ids = [self.classes[c].id for c in self.subclasses(v.elem.cls)]
                e = v.at(i).z
                p.assume(z3.ForAll([i], z3.Implies(z3.And(0 <= i, i < v.len),
                                                    z3.Or(e == NULL, z3.And(z3.Select(al, e), z3.Or([clsof(e) == c for c in ids]))))))
        return v

    def verify_target(self, t: Target):
        self.cur_target = t.name
        n0 = len(self.obligations)
        t0 = time.time()
        saved_am = self.assert_mode
        self.revealed = set(t.reveal)
        if t.assert_mode:
            self.assert_mode = t.assert_mode
        try:
            self._verify_target(t)
            status = "generated"
        except Unsupported as e:
            del self.obligations[n0:]
            self.unsupported[t.name] = str(e)
            status = "unsupported"
        except (z3.Z3Exception, TypeError, KeyError, AttributeError, IndexError, AssertionError) as e:
            # the code no longer fits the types / shapes the contract declares (e.g. a dictionary key with fewer components):
            # the function is outside the verifier's reach as written -> undecided, never a crash and never a violation
            del self.obligations[n0:]
            self.unsupported[t.name] = f"the code does not fit the declared model ({type(e).__name__}: {str(e)[:200]})"
            status = "unsupported"
        finally:
            self.assert_mode = saved_am
        self.target_results[t.name] = {"status": status, "obligations": len(self.obligations) - n0,
                                       "gen_time": round(time.time() - t0, 3)}
        self.cur_target = None

    def _verify_target(self, t: Target):
        fn = FnDecl(f"{t.mod}.{t.qual}" + ("#setter" if t.kind == "setter" else ""), "inline", t.mod, t.qual, t.kind,
                    loops=t.loops, local_types=t.local_types)
        fn.ghost = t.ghost
        fn.ghost_init = t.ghost_init
        fn.yield_spec = t.yield_spec
        fn.local_containers = getattr(t, "local_containers", ())
        fn._ghost_hits = set()
        if t.node is not None:
            fn.node = t.node
            fn.mod = None
            fnode = t.node
        else:
            ex = fn.extracted()
            fnode = ex.node
            info = ex.info()
            info["how"] = "proved against its body"
            self.functions_under_contract[fn.fqn] = info
        fn.owner_cls = t.self_cls_owner if hasattr(t, "self_cls_owner") else (t.qual.split(".")[0] if t.qual and "." in t.qual else None)
        # loops registered on the target apply to this function even when reached by a later call
        self.functions.setdefault(fn.fqn, fn)
        p = Path()
        fr = Frame(fn, t.mod, fn.owner_cls)
        p.frames.append(fr)
        self.alloc_arr(p)
        args, kwargs = [], {}
        a = fnode.args
        pos = [x.arg for x in a.posonlyargs + a.args]
        env = {}
        for name in pos:
            if name == "self" and t.self_cls:
                v = self.symbolic_param(p, "self", TRef(t.self_cls))
                p.assume(v.z != NULL)
                if getattr(t, "exact_self", True):
                    p.assume(clsof(v.z) == self.classes[t.self_cls].id)
            elif name in t.params:
                v = self.symbolic_param(p, name, t.params[name])
            else:
                break
            args.append(v)
            env[name] = v
        for name in [x.arg for x in a.kwonlyargs] + pos[len(args):]:
            if name in t.params:
                v = self.symbolic_param(p, name, t.params[name])
                kwargs[name] = v
                env[name] = v
        if t.setup:
            t.setup(self, p, env)
        for r in t.requires:
            p.assume(self.spec_bool(r, p, env))
        # vacuity guard: the precondition must be satisfiable
        self.vacuity_check(p, t)
        p.old_heaps.append((dict(p.heap), p.epoch))
        p.frames.pop()
        self.stats["paths"] += 1
        results = self.inline(p, fn, fnode, t.mod, args, kwargs, fnode, cls=fn.owner_cls)
        nret = nexc = 0
        for q, r in results:
            self.terminal(q, "raise " + r.cls if isinstance(r, Exc) else "return")
            fr2 = Frame(fn, t.mod, fn.owner_cls)
            q.frames.append(fr2)
            if t.modifies is not None:
                self.check_target_frame(q, t, "exc" if isinstance(r, Exc) else "ret")
            if isinstance(r, Exc):
                nexc += 1
                where = r.where.replace(" ", "")
                specs = None
                for ecls, ss in t.raises.items():
                    if exc_isinstance(r.cls, ecls):
                        specs = ss
                        break
                if specs is None and r.cls in t.unchecked_exc:
                    specs = []
                if specs is None:
                    specs = t.raises_default
                if specs is None:
                    self.oblige(q, z3.BoolVal(False), f"no-{r.cls}", where)
                else:
                    envx = dict(env)
                    envx.update(q.ghost.get("$exit_ghost", {}))
                    for i, s in enumerate(specs):
                        self.oblige(q, self.spec_bool(s, q, envx), "exc-post", f"{r.cls}@{where}#{i}")
                    if not specs:
                        self.oblige(q, z3.BoolVal(True), "exc-post", f"{r.cls}@{where}")
            else:
                nret += 1
                env2 = dict(env)
                env2.update(q.ghost.get("$exit_ghost", {}))
                if getattr(t, "ret", None) is not None and isinstance(r, VOpaque):
                    # the function returned something the model does not follow (e.g. taken from an unmodelled container):
                    # an arbitrary value of the declared type - about which the postconditions must still hold
                    r = t.ret.fresh("opaque_result")
                    self.assume_typed(q, r)
                env2["result"] = r
                for i, s in enumerate(t.ensures):
                    goal = self.spec_bool(s, q, env2)
                    self.oblige(q, goal, "post", f"#{i}/path{nret}")
                    q.assume(goal)     # proved in order: earlier postconditions serve as lemmas for later ones
            q.frames.pop()
        self.target_results.setdefault(t.name, {})
        t._paths = (nret, nexc)
        t._fn_fqn = fn.fqn
        t._fnode = fnode
        t._stmt_lines = sorted({n.lineno for n in _own_statements(fnode)}) if t.node is None else []
        # additional functions (inlined callees) whose statements must all be reached on a feasible path
        t._cover_extra = []
        for cmod, cqual in getattr(t, "cover", ()):
            ex = extract.find(cmod, cqual)
            t._cover_extra.append((f"{cmod}.{cqual}", sorted({n.lineno for n in _own_statements(ex.node)})))
        for g in t.ghost:
            if (g[0], g[1]) not in fn._ghost_hits:
                raise Unsupported(f"ghost anchor not found in {t.name}: {g[0]!r} (the code changed shape; the contract must be re-anchored)")

    def check_target_frame(self, q: Path, t: Target, tag):
        """Frame obligation: a field outside `modifies` keeps its value on every object allocated in the pre-state."""
        allowed = set(self.expand_modifies(t.modifies))
        old_heap, old_epoch = q.old_heaps[0]
        old_alloc = self.alloc_arr(q, old_heap, old_epoch)
        for key, arrs in list(q.heap.items()):
            if key in allowed or key == self.ALLOC:
                continue
            owner, fname = key
            ty = self.classes[owner].fields[fname]
            before = self.heap_arrays(q, key, ty, old_heap, old_epoch)
            if all(a.eq(b) for a, b in zip(arrs, before)):
                continue
            r = z3.Const(fresh_name("fr"), Ref)
            same = z3.And([z3.Select(a, r) == z3.Select(b, r) for a, b in zip(arrs, before)])
            self.oblige(q, z3.ForAll([r], z3.Implies(z3.Select(old_alloc, r), same)), "frame", f"{tag}:{owner}.{fname}")

    def vacuity_check(self, p: Path, t: Target):
        s = z3.Solver()
        s.set("timeout", 5000)
        for c in p.pc:
            if not z3.is_quantifier(c) and not _has_q(c):
                s.add(c)
        r = s.check()
        ob = Obligation(f"{self.prop}/{t.name}/vacuity", [], z3.BoolVal(r != z3.unsat), "vacuity")
        ob.status = "proved" if r != z3.unsat else "refuted"
        ob.backend = "z3-sat-check"
        self.obligations.append(ob)

    def add_lemma(self, name, statement, reveal=()):
        """A lemma over spec predicates: proved once with the listed definitions revealed, then available to every
        other obligation as a hypothesis with the predicates opaque."""
        self.lemmas.append((name, statement, set(reveal)))

    def _run_lemmas(self):
        for name, statement, reveal in self.lemmas:
            self.cur_target = "lemma:" + name
            p = Path()
            p.frames.append(Frame(None, None))
            self.alloc_arr(p)
            self.revealed = set(reveal)
            goal = self.spec_bool(statement, p, {})
            self.oblige(p, goal, "lemma", "")
            self.revealed = set()
            hyp = self.spec_bool(statement, p, {})
            self.axioms.append(hyp)
            self.target_results["lemma:" + name] = {"status": "generated", "obligations": 1}
        self.cur_target = None

    def run(self):
        self._run_lemmas()
        for t in self.targets:
            self.verify_target(t)


def select_triggers(bound, matrix):
    """Triggers for a universally quantified specification formula, chosen as Dafny does: field reads / function
    applications whose arguments are exactly bound variables, excluding those that would start a matching loop (the
    matrix contains the same symbol applied to a bigger term over the bound variables).  Returns None to let z3 infer."""
    bids = {b.get_id(): i for i, b in enumerate(bound)}
    apps = {}      # key (decl/array id) -> list of (term, argtuple)

    def mentions(t):
        st, seen = [t], set()
        out = set()
        while st:
            y = st.pop()
            if y.get_id() in seen:
                continue
            seen.add(y.get_id())
            if y.get_id() in bids:
                out.add(bids[y.get_id()])
            if z3.is_quantifier(y):
                continue
            st.extend(y.children())
        return out

    st, seen = [matrix], set()
    while st:
        y = st.pop()
        if y.get_id() in seen or z3.is_quantifier(y):
            continue
        seen.add(y.get_id())
        st.extend(y.children())
        if z3.is_select(y):
            arr, idx = y.arg(0), [y.arg(i) for i in range(1, y.num_args())]
            if mentions(arr):
                continue
            key = ("sel", arr.get_id())
        elif z3.is_app(y) and y.num_args() > 0 and y.decl().kind() == z3.Z3_OP_UNINTERPRETED:
            idx = list(y.children())
            key = ("app", y.decl().name())
        else:
            continue
        m = set()
        for a in idx:
            m |= mentions(a)
        if m and not _has_ite(y):
            apps.setdefault(key, []).append((y, idx, m))
    cands = []
    for key, lst in apps.items():
        simple = [(t, m) for (t, idx, m) in lst if all(a.get_id() in bids or not mentions(a) for a in idx)]
        loopy = any(not all(a.get_id() in bids or not mentions(a) for a in idx) for (t, idx, m) in lst)
        if simple and not loopy:
            cands.extend(simple)
    if not cands:
        return None
    allv = set(range(len(bound)))
    pats = []
    singles = [t for t, m in cands if m == allv]
    for t in singles[:6]:
        pats.append(t)
    if not pats:
        # multi-pattern: greedily cover all variables
        chosen, cov = [], set()
        for t, m in sorted(cands, key=lambda x: -len(x[1])):
            if not m <= cov:
                chosen.append(t)
                cov |= m
            if cov == allv:
                break
        if cov != allv:
            return None
        pats.append(z3.MultiPattern(*chosen) if len(chosen) > 1 else chosen[0])
    return pats


def _has_ite(t):
    st, seen = [t], set()
    while st:
        y = st.pop()
        if y.get_id() in seen:
            continue
        seen.add(y.get_id())
        if z3.is_quantifier(y):          # lambdas are not allowed inside patterns
            return True
        if z3.is_app(y) and y.decl().kind() in (z3.Z3_OP_ITE, z3.Z3_OP_AND, z3.Z3_OP_OR, z3.Z3_OP_NOT, z3.Z3_OP_EQ,
                                                 z3.Z3_OP_LE, z3.Z3_OP_LT, z3.Z3_OP_GE, z3.Z3_OP_GT, z3.Z3_OP_IMPLIES):
            return True
        st.extend(y.children())
    return False


def _own_statements(fnode):
    """Statements of the function body (nested defs included: closures are executed when called)."""
    import ast as _ast
    from . import extract as _ex
    body = _ex.strip_docstring(fnode.body)
    for st in body:
        for n in _ast.walk(st):
            if isinstance(n, _ast.stmt) and not (isinstance(n, _ast.Expr) and isinstance(n.value, _ast.Constant)):
                yield n


def _has_q(e):
    from .core import has_quantifier
    return has_quantifier(e)
