"""A byte-level model of the 1-D numpy uint8 arrays used by _type_casting (assumed contract of numpy; validated
against real numpy by the C04 bounded stand-in which runs the same functions natively).

VNp = (n, Array Int -> BV8).  Floats are opaque bit patterns; only uint8 views are modelled: `ravel().view(np.uint8)`
on an input whose itemsize is 1 (the 4-/2-bit container dtypes and int8/uint8) keeps the element count - that is a
stated precondition of the pack functions."""
from __future__ import annotations

import ast
import z3

from .core import Exc, Unsupported
from .engine import Engine
from .sem_stmt import NEXT
from .types import INT, V, VBV, VBool, VClass, VFunc, VInt, VNone, VOpaque, VSeq, VTup, Ty, fresh_name

BV8 = z3.BitVecSort(8)


class TNp(Ty):
    def sorts(self):
        return [z3.IntSort(), z3.ArraySort(z3.IntSort(), BV8)]

    def wrap(self, comps):
        return VNp(comps[0], comps[1])


class VNp(V):
    ty = TNp()

    def __init__(self, n, arr):
        self.n = z3.IntVal(n) if isinstance(n, int) else n
        self.arr = arr

    def comps(self):
        return [self.n, self.arr]

    def at(self, i):
        return z3.Select(self.arr, i)

    def __repr__(self):
        return f"VNp(n={self.n})"


class VNpSlice(V):
    """a[start::step] as a view (start, step constants)."""
    ty = None

    def __init__(self, base: VNp, start: int, step: int, stop=None):
        self.base, self.start, self.step, self.stop = base, start, step, stop

    def comps(self):
        return []

    def length(self):
        n = self.base.n if self.stop is None else self.stop
        # ceil((n - start)/step) for n >= start else 0
        return z3.If(n > self.start, (n - self.start + self.step - 1) / self.step, 0)

    def materialize(self) -> VNp:
        i = z3.Int(fresh_name("sl"))
        return VNp(self.length(), z3.Lambda([i], z3.Select(self.base.arr, self.start + i * self.step)))


def bv(v):
    if isinstance(v, VBV):
        return v.z
    if isinstance(v, VInt):
        c = v.concrete()
        if c is None:
            raise Unsupported("symbolic int as uint8 operand")
        return z3.BitVecVal(c, 8)
    raise Unsupported(f"uint8 operand {v!r}")


class NumpyEngine(Engine):
    def __init__(self, prop):
        super().__init__(prop)
        self.type_aliases = dict(self.type_aliases)
        self.type_aliases["nparray"] = TNp()
        from .types import TBV
        self.type_aliases["bv8"] = TBV(8)
        self.lib_models.update({
            "numpy.empty": self.np_empty, "numpy.uint8": self.np_uint8, "numpy.prod": self.np_prod,
        })

    def resolve_import(self, dotted, p):
        if dotted == "numpy":
            from .types import VModule
            return VModule("ext:numpy")
        return super().resolve_import(dotted, p)

    def module_attr(self, m, name, p):
        if m.name == "ext:numpy" and name == "uint8":
            return VFunc("lib", "numpy.uint8", "np.uint8")
        return super().module_attr(m, name, p)

    # --- constructors
    def np_empty(self, eng, p, args, kwargs, node):
        shape = args[0]
        if isinstance(shape, VTup) and len(shape.items) == 1:
            n = shape.items[0]
        elif isinstance(shape, (V,)) and hasattr(shape, "cls") and shape.cls and shape.cls.startswith("list"):
            s = self.to_seq(shape, p)
            n = s.at(z3.IntVal(0))
            p.assume(s.len == 1)
        else:
            raise Unsupported("np.empty shape")
        arr = z3.Const(fresh_name("np_empty"), z3.ArraySort(z3.IntSort(), BV8))    # uninitialised memory: arbitrary
        return [(p, VNp(n.z, arr))]

    def np_uint8(self, eng, p, args, kwargs, node):
        c = args[0].concrete()
        return [(p, VBV(z3.BitVecVal(c, 8), 8))]

    def np_prod(self, eng, p, args, kwargs, node):
        dims = args[0]
        if isinstance(dims, VInt):
            return [(p, dims)]
        # product of the dims: a ghost integer supplied by the contract (`dims` is modelled by its product)
        raise Unsupported("np.prod of a non-scalar dims model")

    def bi_int(self, p, args, kwargs, node):
        if isinstance(args[0], VInt):
            return [(p, args[0])]
        return super().bi_int(p, args, kwargs, node)

    # --- attributes / methods
    def get_attr(self, p, v, name, node=None):
        if isinstance(v, VNp):
            if name == "size":
                return [(p, VInt(v.n))]
            if name == "dtype":
                return [(p, VFunc("lib", "numpy.uint8", "np.uint8"))]
            return [(p, VFunc("py", lambda e, q, a, k, n, v=v, name=name: self.np_method(q, v, name, a, k, n), name))]
        return super().get_attr(p, v, name, node)

    def np_method(self, p, v: VNp, name, args, kwargs, node):
        if name in ("ravel", "copy", "view"):
            return [(p, v)]
        if name == "resize":
            new = args[0]
            if isinstance(new, VInt):          # dims modelled by their product
                n = new.z
            else:
                s = self.to_seq(new, p) if not isinstance(new, VTup) else None
                n = new.items[0].z if s is None else s.at(z3.IntVal(0)).z
            i = z3.Int(fresh_name("rz"))
            # ndarray.resize: zero padded when growing, truncated when shrinking (refcheck=False, in place)
            arr = z3.Lambda([i], z3.If(i < v.n, z3.Select(v.arr, i), z3.BitVecVal(0, 8)))
            tgt = p.frame.locals
            for k_, val in list(tgt.items()):
                if val is v:
                    tgt[k_] = VNp(n, arr)
            return [(p, VNone())]
        raise Unsupported(f"ndarray.{name}")

    def py_eq(self, a, b, p, is_=False):
        if isinstance(a, VFunc) and isinstance(b, VFunc) and a.kind == "lib" and b.kind == "lib":
            return z3.BoolVal(a.payload == b.payload)
        return super().py_eq(a, b, p, is_)

    # --- elementwise operators
    def binop_extra(self, op, a, b, p, node):
        if isinstance(a, (VNp, VNpSlice)) or isinstance(b, (VNp, VNpSlice)):
            A = a.materialize() if isinstance(a, VNpSlice) else a
            B = b.materialize() if isinstance(b, VNpSlice) else b
            i = z3.Int(fresh_name("ew"))
            x = z3.Select(A.arr, i) if isinstance(A, VNp) else bv(A)
            y = z3.Select(B.arr, i) if isinstance(B, VNp) else bv(B)
            f = {ast.BitAnd: lambda: x & y, ast.BitOr: lambda: x | y, ast.LShift: lambda: x << y,
                 ast.RShift: lambda: z3.LShR(x, y)}.get(type(op))
            if f is None:
                raise Unsupported(f"ndarray op {type(op).__name__}")
            n = A.n if isinstance(A, VNp) else B.n
            if isinstance(A, VNp) and isinstance(B, VNp):
                # numpy broadcasting of equal-length operands only: the lengths must agree
                self.oblige(p, A.n == B.n, "np-shape", f"L{getattr(node, 'lineno', '?')}")
            return [(p, VNp(n, z3.Lambda([i], f())))]
        if isinstance(a, VBV) or isinstance(b, VBV):
            x, y = bv(a), bv(b)
            f = {ast.BitAnd: lambda: x & y, ast.BitOr: lambda: x | y, ast.LShift: lambda: x << y,
                 ast.RShift: lambda: z3.LShR(x, y)}.get(type(op))
            if f is not None:
                return [(p, VBV(f(), 8))]
        return super().binop_extra(op, a, b, p, node)

    def slice_extra(self, p, base, lo, hi, st, node, probe=False):
        if isinstance(base, VNp):
            if st is not None:
                start = lo.concrete() if lo is not None else 0
                step = st.concrete()
                return [(p, VNpSlice(base, start, step))]
            if lo is None and hi is not None:
                h = hi.z
                n = z3.If(h < 0, base.n + h, z3.If(h > base.n, base.n, h))
                return [(p, VNp(z3.If(n < 0, 0, n), base.arr))]
            raise Unsupported("ndarray slice form")
        return super().slice_extra(p, base, lo, hi, st, node, probe)

    def aug_special(self, s, p, cur, rhs):
        """a[start::step] op= c  : in-place update of the strided elements."""
        if isinstance(cur, VNpSlice):
            base = cur.base
            i = z3.Int(fresh_name("au"))
            x, y = z3.Select(base.arr, i), bv(rhs)
            f = {ast.BitAnd: x & y, ast.BitOr: x | y, ast.LShift: x << y, ast.RShift: z3.LShR(x, y)}[type(s.op)]
            hit = z3.And(i >= cur.start, (i - cur.start) % cur.step == 0)
            new = VNp(base.n, z3.Lambda([i], z3.If(hit, f, x)))
            name = s.target.value.id
            p.frame.locals[name] = new
            return [(p, NEXT)]
        return None

    def setslice_extra(self, p, base, sl, v, node):
        if isinstance(base, VNp) and sl.step is not None:
            start = sl.lower.value if sl.lower is not None else 0
            step = sl.step.value
            src = v.materialize() if isinstance(v, VNpSlice) else v
            i = z3.Int(fresh_name("ss"))
            view = VNpSlice(base, start, step)
            self.oblige(p, view.length() == src.n, "np-shape", f"L{node.lineno}")
            hit = z3.And(i >= start, (i - start) % step == 0)
            new = VNp(base.n, z3.Lambda([i], z3.If(hit, z3.Select(src.arr, (i - start) / step), z3.Select(base.arr, i))))
            p.frame.locals[node.value.id] = new
            return [(p, NEXT)]
        return super().setslice_extra(p, base, sl, v, node)

    def getitem_extra(self, p, base, idx, node):
        if isinstance(base, VNp) and isinstance(idx, VInt):
            return [(p, VBV(base.at(idx.z), 8))]
        return super().getitem_extra(p, base, idx, node)
