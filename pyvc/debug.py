"""Debug helper: which conjunct of a failing goal is not provable."""
import z3
from .types import str_distinct_axioms


def conjuncts(e):
    if z3.is_and(e):
        out = []
        for c in e.children():
            out.extend(conjuncts(c))
        return out
    return [e]


def explain(engine, ob, timeout=10000):
    goal = ob.goal
    hyps = list(engine.axioms) + str_distinct_axioms() + list(ob.pc)
    pre = []
    while True:
        if z3.is_quantifier(goal) and goal.is_forall():
            vs = [z3.Const(f"dbg!{goal.var_name(i)}!{i}", goal.var_sort(i)) for i in range(goal.num_vars())]
            goal = z3.substitute_vars(goal.body(), *reversed(vs))
            continue
        if z3.is_implies(goal):
            pre.append(goal.arg(0))
            goal = goal.arg(1)
            continue
        break
    res = []
    for c in conjuncts(goal):
        s = z3.Solver()
        s.set("timeout", timeout)
        s.add(hyps)
        s.add(pre)
        s.add(z3.Not(c))
        r = s.check()
        res.append((str(r), " ".join(str(c).split())[:int(__import__("os").environ.get("PYVC_EXPLAIN_CHARS","300"))]))
    return res
