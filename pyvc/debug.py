"""Debug helper: which leaf conjunct of a failing goal is not provable (recursive skolemisation)."""
import os
import z3
from .types import str_distinct_axioms

_n = [0]


def leaves(goal, pre, path):
    """Yield (path, premises, leaf)."""
    if z3.is_quantifier(goal) and goal.is_forall():
        _n[0] += 1
        vs = [z3.Const(f"dbg{_n[0]}!{goal.var_name(i)}", goal.var_sort(i)) for i in range(goal.num_vars())]
        yield from leaves(z3.substitute_vars(goal.body(), *reversed(vs)), pre, path + "A")
    elif z3.is_implies(goal):
        yield from leaves(goal.arg(1), pre + [goal.arg(0)], path)
    elif z3.is_and(goal):
        for i, c in enumerate(goal.children()):
            yield from leaves(c, pre, path + f".{i}")
    else:
        yield path, pre, goal


def explain(engine, ob, timeout=8000):
    hyps = list(engine.axioms) + str_distinct_axioms() + list(ob.pc)
    n = int(os.environ.get("PYVC_EXPLAIN_CHARS", "300"))
    res = []
    for path, pre, leaf in leaves(ob.goal, [], ""):
        s = z3.Solver()
        s.set("timeout", timeout)
        s.add(hyps)
        s.add(pre)
        s.add(z3.Not(leaf))
        r = s.check()
        if r != z3.unsat:
            res.append((f"{path} {r}", " ".join(str(leaf).split())[:n]))
    return res
