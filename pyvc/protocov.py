"""Field-coverage contracts for a protobuf (de)serializer, decided by a typed data-flow pass over the real source.

For a message type M and a field f of its real descriptor (dumped from the installed onnx at run time):
    read(M.f)     some deserializer function reads f from an expression whose static type is M
    written(M.f)  some serializer function writes f on an expression whose static type is M
Static types of protobuf expressions come from parameter annotations (`onnx.NodeProto`, `onnx.TensorShapeProto.Dimension`,
`RepeatedCompositeFieldContainer[onnx.X]`, `Sequence[onnx.X]`) and are propagated through attribute access, `.add()`, iteration,
comprehensions, subscripts and assignments using the descriptor's own field types.  Wholesale operations cover all fields:
`dst.CopyFrom(src)` writes every field of dst's type; wrapping a message in an object that keeps it (`TensorProtoTensor(proto)`)
reads every field.  `WhichOneof(g)` followed by `getattr(msg, <that name>)` reads every member of the group g."""
import ast
import json
import os
import subprocess

from . import extract

VENV_PY = "/venv/bin/python"
DUMP = r'''
import json, onnx
out = {}
def visit(d):
    if d.full_name in out:
        return
    fs = {}
    out[d.full_name] = fs
    for f in d.fields:
        fs[f.name] = {"msg": f.message_type.full_name if f.message_type else None, "rep": bool(f.is_repeated),
                      "oneof": f.containing_oneof.name if f.containing_oneof and not f.containing_oneof.name.startswith("_") else None}
        if f.message_type:
            visit(f.message_type)
visit(onnx.ModelProto.DESCRIPTOR)
print(json.dumps(out))
'''


def descriptors():
    r = subprocess.run([VENV_PY, "-c", DUMP], capture_output=True, text=True, timeout=120,
                       env={**os.environ, "PYTHONPATH": os.path.join(extract.REPO, "src")})
    return json.loads(r.stdout.strip().splitlines()[-1])


class Cov:
    def __init__(self, desc):
        self.desc = desc
        self.reads, self.writes = {}, {}       # (M, f) -> [ "func:line" ]
        self.notes = []

    def rd(self, m, f, where):
        if m in self.desc and f in self.desc[m]:
            self.reads.setdefault((m, f), []).append(where)

    def wr(self, m, f, where):
        if m in self.desc and f in self.desc[m]:
            self.writes.setdefault((m, f), []).append(where)

    def rd_all(self, m, where, seen=None):
        seen = seen if seen is not None else set()
        if m in seen or m not in self.desc:
            return
        seen.add(m)
        for f, info in self.desc[m].items():
            self.rd(m, f, where)
            if info["msg"]:
                self.rd_all(info["msg"], where, seen)

    def wr_all(self, m, where, seen=None):
        seen = seen if seen is not None else set()
        if m in seen or m not in self.desc:
            return
        seen.add(m)
        for f, info in self.desc[m].items():
            self.wr(m, f, where)
            if info["msg"]:
                self.wr_all(info["msg"], where, seen)


def ann_type(ann, desc):
    """('one'|'rep', full message name) for a protobuf annotation, else None."""
    if ann is None:
        return None
    if isinstance(ann, ast.Constant) and isinstance(ann.value, str):
        try:
            return ann_type(ast.parse(ann.value, mode="eval").body, desc)
        except SyntaxError:
            return None
    if isinstance(ann, ast.Subscript):
        inner = ann_type(ann.slice, desc)
        base = ann.value.attr if isinstance(ann.value, ast.Attribute) else getattr(ann.value, "id", "")
        if inner and base in ("RepeatedCompositeFieldContainer", "Sequence", "Iterable", "list", "MutableSequence", "Collection"):
            return ("rep", inner[1], None)
        return None
    if isinstance(ann, ast.BinOp):            # X | None
        return ann_type(ann.left, desc) or ann_type(ann.right, desc)
    parts = []
    e = ann
    while isinstance(e, ast.Attribute):
        parts.append(e.attr)
        e = e.value
    if isinstance(e, ast.Name):
        parts.append(e.id)
    parts.reverse()
    if parts and parts[0] == "onnx":
        full = ".".join(parts)
        if full in desc:
            return ("one", full, None)
    return None


def analyse(fnode, fname, desc, cov, side, wrappers=()):
    """side = 'de' (reads matter) or 'ser' (writes matter).  Flow-insensitive typing, two passes."""
    env = {}
    oneof_vars = {}          # local name -> (M, group) from  x = msg.WhichOneof("group")
    args = fnode.args
    for a in args.posonlyargs + args.args + args.kwonlyargs:
        t = ann_type(a.annotation, desc)
        if t:
            env[a.arg] = t

    def where(n):
        return f"{fname}:{getattr(n, 'lineno', 0)}"

    def ty(e):
        if isinstance(e, ast.Name):
            return env.get(e.id)
        if isinstance(e, ast.Attribute):
            b = ty(e.value)
            if b and b[0] == "one" and e.attr in desc.get(b[1], {}):
                info = desc[b[1]][e.attr]
                if info["msg"]:
                    return ("rep" if info["rep"] else "one", info["msg"], [(b[1], e.attr)])
                return ("scalar-rep", None, [(b[1], e.attr)]) if info["rep"] else None
            if b and b[0] == "union":
                infos = [(m, desc[m][e.attr]) for m in b[1] if e.attr in desc.get(m, {})]
                if infos and len({(i["msg"], i["rep"]) for _m, i in infos}) == 1 and infos[0][1]["msg"]:
                    return ("rep" if infos[0][1]["rep"] else "one", infos[0][1]["msg"], [(m, e.attr) for m, _i in infos])
            return None
        if isinstance(e, ast.Subscript):
            b = ty(e.value)
            if b and b[0] == "rep":
                return ("rep", b[1], b[2]) if isinstance(e.slice, ast.Slice) else ("one", b[1], None)
            return None
        if isinstance(e, ast.Call):
            f = e.func
            if isinstance(f, ast.Attribute):
                b = ty(f.value)
                if b and b[0] == "rep" and f.attr == "add":
                    return ("one", b[1], None)
                if isinstance(f.value, ast.Name) and f.value.id == "onnx" or (isinstance(f.value, ast.Attribute) and ann_type(f, desc)):
                    t = ann_type(f, desc)
                    if t:
                        return t
            if isinstance(f, ast.Name) and f.id in ("reversed", "list", "tuple", "sorted", "iter") and e.args:
                return ty(e.args[0])
            if isinstance(f, ast.Name) and f.id == "getattr" and len(e.args) >= 2:
                b = ty(e.args[0])
                nm = e.args[1]
                if b and b[0] == "one" and isinstance(nm, ast.Constant) and nm.value in desc.get(b[1], {}):
                    info = desc[b[1]][nm.value]
                    if info["msg"]:
                        return ("rep" if info["rep"] else "one", info["msg"], [(b[1], nm.value)])
                if b and b[0] == "one" and isinstance(nm, ast.Name) and nm.id in oneof_vars:
                    m, grp = oneof_vars[nm.id]
                    subs = {info["msg"] for f2, info in desc[m].items() if info["oneof"] == grp and info["msg"]}
                    if len(subs) >= 1:
                        return ("union", sorted(subs), None)
            return None
        return None

    def bind(target, t):
        if isinstance(target, ast.Name) and t and target.id not in env:
            env[target.id] = t

    for _pass in range(3):
        for n in ast.walk(fnode):
            if isinstance(n, ast.Assign) and len(n.targets) == 1:
                v = n.value
                if isinstance(v, ast.Call) and isinstance(v.func, ast.Attribute) and v.func.attr == "WhichOneof" and v.args and isinstance(v.args[0], ast.Constant):
                    b = ty(v.func.value)
                    if b and b[0] == "one" and isinstance(n.targets[0], ast.Name):
                        oneof_vars[n.targets[0].id] = (b[1], v.args[0].value)
                t = ty(v)
                if t and t[0] in ("one", "rep"):
                    bind(n.targets[0], t)
                elif t and t[0] == "union" and isinstance(n.targets[0], ast.Name):
                    env.setdefault(n.targets[0].id, t)
            elif isinstance(n, (ast.For, ast.comprehension)):
                it = n.iter
                if isinstance(it, ast.Call) and isinstance(it.func, ast.Name) and it.func.id == "enumerate" and it.args and isinstance(n.target, ast.Tuple):
                    t = ty(it.args[0])
                    if t and t[0] == "rep":
                        bind(n.target.elts[1], ("one", t[1], None))
                else:
                    t = ty(it)
                    if t and t[0] == "rep":
                        bind(n.target, ("one", t[1], None))

    def mark_chain_written(e, n):
        """a write below e makes every message field on the access path present."""
        x = e
        while True:
            b = ty(x)
            if b and len(b) > 2 and b[2]:
                for (om, of) in b[2]:
                    cov.wr(om, of, where(n))
            if isinstance(x, (ast.Attribute, ast.Subscript)):
                x = x.value
            elif isinstance(x, ast.Call) and isinstance(x.func, ast.Attribute):
                x = x.func.value
            else:
                break

    def members(b):
        """message types an expression may denote."""
        if not b:
            return []
        if b[0] == "one":
            return [b[1]]
        if b[0] == "union":
            return list(b[1])
        return []

    for n in ast.walk(fnode):
        if isinstance(n, ast.Attribute):
            b = ty(n.value)
            for m in members(b):
                if isinstance(n.ctx, ast.Load):
                    cov.rd(m, n.attr, where(n))
                    # reading a repeated / message field and then mutating it is a write: handled at the call below
                else:
                    cov.wr(m, n.attr, where(n))
                    mark_chain_written(n.value, n)
        elif isinstance(n, ast.Call):
            f = n.func
            if side == "ser":
                for a in list(n.args) + [k.value for k in n.keywords]:
                    b = ty(a)
                    if b and b[0] in ("one", "rep", "scalar-rep") and len(b) > 2 and b[2]:
                        mark_chain_written(a, n)                     # delegated: the callee serializes into this field
            if isinstance(f, ast.Attribute):
                b = ty(f.value)
                if f.attr in ("HasField", "ClearField") and n.args and isinstance(n.args[0], ast.Constant):
                    for m in members(b):
                        (cov.rd if f.attr == "HasField" else cov.wr)(m, n.args[0].value, where(n))
                    if f.attr == "ClearField":
                        mark_chain_written(f.value, n)
                elif f.attr == "WhichOneof" and n.args and isinstance(n.args[0], ast.Constant):
                    for m in members(b):
                        for f2, info in desc.get(m, {}).items():
                            if info["oneof"] == n.args[0].value:
                                cov.rd(m, f2, where(n))
                elif f.attr in ("add", "append", "extend", "CopyFrom", "MergeFrom", "insert") and b and b[0] in ("rep", "scalar-rep", "one"):
                    mark_chain_written(f.value, n)
                    if f.attr == "add" and b[0] == "rep":
                        for kw in n.keywords:
                            if kw.arg:
                                cov.wr(b[1], kw.arg, where(n))
                    if f.attr in ("CopyFrom", "MergeFrom") and b[0] == "one":
                        cov.wr_all(b[1], where(n))
                        for a in n.args:
                            for m in members(ty(a)):
                                cov.rd_all(m, where(n))
            # calls passing a typed message to a wrapper that keeps it whole
            name = f.id if isinstance(f, ast.Name) else f.attr if isinstance(f, ast.Attribute) else None
            if name in wrappers:
                for a in n.args:
                    for m in members(ty(a)):
                        cov.rd_all(m, where(n))
            if name == "_get_field" and len(n.args) >= 2 and isinstance(n.args[1], ast.Constant):
                for m in members(ty(n.args[0])):
                    cov.rd(m, n.args[1].value, where(n))
            if name == "getattr" and len(n.args) >= 2:
                b = ty(n.args[0])
                nm = n.args[1]
                if isinstance(nm, ast.Constant):
                    for m in members(b):
                        cov.rd(m, nm.value, where(n))
                elif isinstance(nm, ast.Name) and nm.id in oneof_vars:
                    m0, grp = oneof_vars[nm.id]
                    for f2, info in desc.get(m0, {}).items():
                        if info["oneof"] == grp:
                            cov.rd(m0, f2, where(n))
            # constructor with keyword fields: onnx.X(field=...)
            t = ann_type(f, desc) if isinstance(f, ast.Attribute) else None
            if t:
                for kw in n.keywords:
                    if kw.arg:
                        cov.wr(t[1], kw.arg, where(n))
    return env
