"""Character-level model of `str` for lexers: a text is a window [lo, hi) on a base sequence of code points; a character is its
code point.  The str predicates are uninterpreted predicates on code points constrained by the facts a lexer relies on:

  isalnum(c) <=> isalpha(c) or isdigit(c) [Python adds isnumeric characters: see the ASSUMPTION below]; a digit is neither
  alphabetic nor white space; white space is not alphanumeric; the ASCII punctuation the lexer names ('+', '-', '*', '/', '%',
  '(', ')', ',', '_', '.') is neither alphanumeric nor white space.

ASSUMPTION (listed in the evidence): str.isalnum is modelled as isalpha-or-isdigit (characters that are numeric without being
digits, e.g. vulgar fractions, are outside the model); int(text) of a non-empty run of isdigit characters is an uninterpreted
function `numval(base, lo, hi)` and may raise ValueError (Python accepts only decimal digits)."""
from __future__ import annotations

import z3

from .core import Exc, Unsupported
from .types import INT, TRec, TSeq, VBool, VFunc, VInt, VRec, VSeq, VStr, VTup, fresh_name

CHAR = TRec("Char", (("code", INT),))
TEXT = TRec("Text", (("base", TSeq(INT)), ("lo", INT), ("hi", INT)))
PUNCT = "+-*/%(),_."


def is_char(v):
    return isinstance(v, VRec) and v.ty.name == "Char"


def is_text(v):
    return isinstance(v, VRec) and v.ty.name == "Text"


class LexerMixin:
    def init_char_model(self):
        I, B = z3.IntSort(), z3.BoolSort()
        self.ch_space = z3.Function("ch_isspace", I, B)
        self.ch_digit = z3.Function("ch_isdigit", I, B)
        self.ch_alpha = z3.Function("ch_isalpha", I, B)
        self.numval = z3.Function("numval", I, z3.ArraySort(I, I), I, I, I)      # (len(base), base, lo, hi): spec calls flatten the base sequence
        c = z3.Int("chc")
        self.axioms.append(z3.ForAll([c], z3.Implies(self.ch_digit(c), z3.And(z3.Not(self.ch_alpha(c)), z3.Not(self.ch_space(c)))), patterns=[self.ch_digit(c)]))
        self.axioms.append(z3.ForAll([c], z3.Implies(self.ch_alpha(c), z3.Not(self.ch_space(c))), patterns=[self.ch_alpha(c)]))
        for ch in PUNCT:
            o = ord(ch)
            self.axioms.append(z3.And(z3.Not(self.ch_space(o)), z3.Not(self.ch_digit(o)), z3.Not(self.ch_alpha(o))))
        for nm, f in (("ch_isspace", self.ch_space), ("ch_isdigit", self.ch_digit), ("ch_isalpha", self.ch_alpha)):
            self.spec_ufuncs[nm] = (f, __import__("pyvc.types", fromlist=["BOOL"]).BOOL)
        self.spec_ufuncs["numval"] = (self.numval, INT)
        self.assumptions_used.add("character model: str.isalnum == isalpha or isdigit; int() of a digit run is an uninterpreted function of the run "
                                  "and may raise ValueError; the named ASCII punctuation is neither alphanumeric nor white space")

    # -- characters ------------------------------------------------------------------------------------------------------
    def mk_char(self, code):
        return VRec(CHAR, {"code": VInt(code)})

    def alnum(self, code):
        return z3.Or(self.ch_alpha(code), self.ch_digit(code))

    def rec_attr(self, p, v, name, node):
        if is_char(v):
            code = v.fields["code"].z
            preds = {"isspace": self.ch_space(code), "isdigit": self.ch_digit(code), "isalpha": self.ch_alpha(code), "isalnum": self.alnum(code)}
            if name in preds:
                val = preds[name]
                return [(p, VFunc("py", lambda e, q, a, k, n, val=val: [(q, VBool(val))], name))]
        if is_text(v) and name == "startswith":
            def startswith(e, q, a, k, n, v=v):
                lit = self._const(a[0])
                if lit is None:
                    raise Unsupported("str.startswith with a non-literal prefix")
                st = a[1].z if len(a) > 1 else z3.IntVal(0)
                self.oblige(q, st >= 0, "startswith-start-non-negative", self.where(n))
                ok = z3.And(st + len(lit) <= self.text_len(v), *[self.text_at(v, st + i) == ord(ch) for i, ch in enumerate(lit)])
                return [(q, VBool(ok))]
            return [(p, VFunc("py", startswith, "startswith"))]
        return super().rec_attr(p, v, name, node)

    # -- texts -----------------------------------------------------------------------------------------------------------
    def text_len(self, t):
        return t.fields["hi"].z - t.fields["lo"].z

    def text_at(self, t, i):
        return z3.Select(t.fields["base"].arrs[0], t.fields["lo"].z + i)

    def bi_len(self, p, args, kwargs, node):
        if args and is_text(args[0]):
            return [(p, VInt(self.text_len(args[0])))]
        return super().bi_len(p, args, kwargs, node)

    def getitem_extra(self, p, base, idx, node):
        if is_text(base) and isinstance(idx, VInt):
            n = self.text_len(base)
            i = idx.z
            if self.spec_mode:
                return [(p, self.mk_char(self.text_at(base, i)))]
            j = z3.If(i < 0, i + n, i)
            return self.raise_if(p, z3.Or(j < 0, j >= n), "IndexError", self.where(node), lambda q: [(q, self.mk_char(self.text_at(base, j)))])
        return super().getitem_extra(p, base, idx, node)

    def slice_extra(self, p, base, lo, hi, st, node, probe=False):
        if is_text(base) and st is None:
            n = self.text_len(base)
            a = lo.z if lo is not None else z3.IntVal(0)
            b = hi.z if hi is not None else n
            # Python clamps slice bounds (non-negative bounds only are modelled)
            a2 = z3.If(a > n, n, a)
            b2 = z3.If(b > n, n, b)
            b3 = z3.If(b2 < a2, a2, b2)
            self.oblige(p, z3.And(a >= 0, b >= 0), "slice-bounds-non-negative", self.where(node))
            off = base.fields["lo"].z
            return [(p, VRec(TEXT, {"base": base.fields["base"], "lo": VInt(off + a2), "hi": VInt(off + b3)}))]
        return super().slice_extra(p, base, lo, hi, st, node, probe)

    def get_slice(self, p, base, lo, hi, st, node):
        if is_text(base):
            return self.slice_extra(p, base, lo, hi, st, node)
        return super().get_slice(p, base, lo, hi, st, node)

    def text_eq_const(self, t, s: str):
        return z3.And(self.text_len(t) == len(s), *[self.text_at(t, i) == ord(ch) for i, ch in enumerate(s)])

    def _const(self, v):
        """the Python literal a VStr constant stands for, or None"""
        if isinstance(v, VStr):
            from .types import str_const_value
            return str_const_value(v.z)
        return None

    def py_eq(self, a, b, p, is_=False):
        for x, y in ((a, b), (b, a)):
            if is_char(x):
                s = self._const(y)
                if s is not None:
                    return z3.BoolVal(False) if len(s) != 1 else x.fields["code"].z == ord(s)
                if is_char(y):
                    return x.fields["code"].z == y.fields["code"].z
            if is_text(x):
                s = self._const(y)
                if s is not None:
                    return self.text_eq_const(x, s)
        return super().py_eq(a, b, p, is_)

    def contains(self, container, item, p):
        if is_char(item):
            s = self._const(container)
            if s is not None:
                return z3.Or([item.fields["code"].z == ord(ch) for ch in s] or [z3.BoolVal(False)])
        if is_text(item) and isinstance(container, VTup):
            return z3.Or([self.py_eq(item, c, p) for c in container.items] or [z3.BoolVal(False)])
        return super().contains(container, item, p)

    def int_extra(self, p, v, node):
        if is_text(v):
            q = p.copy()
            r = VInt(self.numval(v.fields["base"].len, v.fields["base"].arrs[0], v.fields["lo"].z, v.fields["hi"].z))
            return [(p, r), (q, Exc("ValueError", f"L{getattr(node, 'lineno', '?')}:int()"))]
        return super().int_extra(p, v, node)
