"""Bounded stand-in for C06 (never counted as proved): directed `rejected edit changes nothing` cases for Node.resize_outputs /
Node.resize_inputs - a node with 2..5 outputs of which exactly one (every position in turn) still has a consumer, shrunk to
every smaller size: if the call raises, outputs, producers, indices, names, uses and the consumer's inputs are what they were.
Last stdout line: JSON."""
import argparse
import json
import os
import sys
import time

import onnx_ir as ir

ROOT = os.path.dirname(os.path.dirname(os.path.abspath(__file__)))


def snap(node, consumer, graph):
    return (len(node.outputs), [id(o) for o in node.outputs], [o.producer() is node for o in node.outputs], [o.index() for o in node.outputs],
            [o.name for o in node.outputs], [[(id(u.node), u.idx) for u in o.uses()] for o in node.outputs],
            [id(v) for v in consumer.inputs], [id(n) for n in graph], [id(v) for v in graph.outputs], len(node.inputs), [id(v) for v in node.inputs])


def main():
    ap = argparse.ArgumentParser()
    ap.add_argument("--tier", default="quick")
    ap.add_argument("--seed", type=int, default=0)
    a = ap.parse_args()
    t0 = time.time()
    failures, n = [], 0
    for nout in range(2, 6):
        for used in range(nout):
            for new_size in range(-1, nout):
                x = ir.val("x")
                split = ir.Node("", "Split", inputs=[x], num_outputs=nout, name="split")
                held = list(split.outputs)
                consumer = ir.Node("", "Relu", inputs=[held[used]], num_outputs=1, name="relu")
                g = ir.Graph(inputs=[x], outputs=[consumer.outputs[0]], nodes=[split, consumer], name="g")
                before = snap(split, consumer, g)
                held_state = [(o.producer() is split, o.index()) for o in held]
                n += 1
                try:
                    split.resize_outputs(new_size)
                except (ValueError, IndexError):
                    after = snap(split, consumer, g)
                    hs = [(o.producer() is split, o.index()) for o in held]
                    if after != before or hs != held_state:
                        failures.append(f"resize_outputs({new_size}) on a node with {nout} outputs (output {used} used) raised and changed the node: "
                                        f"{[i for i, (p, q) in enumerate(zip(before, after)) if p != q]} / held outputs {hs}")
                # resize_inputs: negative sizes are rejected without effect
                n += 1
                b2 = snap(split, consumer, g)
                try:
                    consumer.resize_inputs(-1 - used)
                    failures.append(f"resize_inputs({-1 - used}) was accepted") if len(consumer.inputs) < 0 else None
                except (ValueError, IndexError):
                    if snap(split, consumer, g) != b2:
                        failures.append(f"resize_inputs({-1 - used}) raised and changed the node")
    out = {"status": "violation" if failures else "ok", "evaluations": n, "distinct_nontrivial": n,
           "rule": "nodes with 2-5 outputs x the used output x every smaller size (and negative sizes); a raising call leaves a deep snapshot unchanged; bounded, not a proof",
           "known_findings": [], "samples": [{"outputs": 4, "used": 3, "new_size": 1}], "failures": failures[:10], "wall_s": round(time.time() - t0, 2)}
    if failures:
        os.makedirs(os.path.join(ROOT, "out", "replay"), exist_ok=True)
        path = os.path.join(ROOT, "out", "replay", "C06_bounded_resize.json")
        json.dump({"property": "C06", "kind": "script",
                   "script": "import subprocess, sys, json\nr = subprocess.run([sys.executable, %r], capture_output=True, text=True)\n"
                             "d = json.loads(r.stdout.strip().splitlines()[-1])\nVIOLATED = d['status'] == 'violation'\nDETAIL = '\\n'.join(d.get('failures', []))\n"
                             % os.path.abspath(__file__), "failures": failures[:10]}, open(path, "w"), indent=1)
        out["replay"] = path
    print(json.dumps(out))


if __name__ == "__main__":
    main()
