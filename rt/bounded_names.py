"""Bounded stand-in for C15 (never counted as proved).
(a) add/remove/re-add histories with explicit names shaped like generated ones: automatically assigned names never equal
    a name the graph registered or assigned before; explicit names are never altered by adding a node.
(b) NameFixPass on models with missing/duplicated names across nested scopes and functions: afterwards every node and
    value has a non-empty name, value names unique per graph and different from enclosing-scope values, node names unique
    per graph, initializers keyed by their names, nothing but names changed, already-unique names kept.
(c) rename_values: every assignment of targets from a small pool to 1-3 values (initializers included, swaps/cycles):
    applied completely or not at all.
Last stdout line: JSON."""
import argparse
import itertools
import json
import os
import sys
import time

import onnx
from onnx import helper, TensorProto

sys.path.insert(0, os.path.dirname(os.path.abspath(__file__)))
import onnx_ir as ir  # noqa: E402
import onnx_ir.passes.common as P  # noqa: E402
from onnx_ir import _convenience  # noqa: E402

import models  # noqa: E402

ROOT = os.path.dirname(os.path.dirname(os.path.abspath(__file__)))


def hist_checks(failures, count):
    names_pool = [None, "val_0", "val_1", "node_Op_0", "x", None]
    for explicit in itertools.product(["val_0", "val_1", None], repeat=3):
        count[0] += 1
        g = ir.Graph([], [], nodes=[], name="g")
        seen = set()
        for step, nm in enumerate(explicit):
            v_in = ir.Value(name="in")
            n = ir.Node("", "Op", inputs=[v_in], num_outputs=1, name=names_pool[step])
            n.outputs[0].name = nm
            before_node, before_val = n.name, n.outputs[0].name
            g.append(n)
            if before_node is not None and n.name != before_node:
                failures.append(f"history {explicit}: explicit node name {before_node!r} altered to {n.name!r}")
            if before_val is not None and n.outputs[0].name != before_val:
                failures.append(f"history {explicit}: explicit value name {before_val!r} altered to {n.outputs[0].name!r}")
            if before_val is None and n.outputs[0].name in seen:
                failures.append(f"history {explicit}: generated value name {n.outputs[0].name!r} collides with an earlier one {sorted(seen)}")
            if n.outputs[0].name is None or n.name is None:
                failures.append(f"history {explicit}: a name was left unset")
            seen.add(n.outputs[0].name)
            if step == 1:
                g.remove(n)          # remove / re-add
                g.append(n)


def scopes(model):
    """(graph, enclosing value names) for every graph of the model."""
    out = []

    def walk(g, outer):
        mine = set()
        for v in list(g.inputs) + list(g.initializers.values()):
            mine.add(v.name)
        for n in g:
            for o in n.outputs:
                mine.add(o.name)
        out.append((g, outer))
        for n in g:
            for a in n.attributes.values():
                if a.type == ir.AttributeType.GRAPH:
                    walk(a.as_graph(), outer | mine)
                elif a.type == ir.AttributeType.GRAPHS:
                    for sg in a.as_graphs():
                        walk(sg, outer | mine)
    walk(model.graph, set())
    for f in model.functions.values():
        walk(f.graph if hasattr(f, "graph") else f._graph, set())
    return out


def structure(model):
    """Everything but names: op types, connectivity by position, shapes/types, attribute keys."""
    out = []
    ids = {}

    def vid(v):
        if v is None:
            return None
        return ids.setdefault(id(v), len(ids))
    for g, _ in scopes(model):
        out.append(("graph", [vid(v) for v in g.inputs], [vid(v) for v in g.outputs], sorted(vid(v) for v in g.initializers.values())))
        for n in g:
            out.append((n.op_type, n.domain, [vid(v) for v in n.inputs], [vid(v) for v in n.outputs], sorted(n.attributes.keys())))
    return out



def api_name_models():
    """Models built through the public API whose nested values duplicate a name of an enclosing scope WHILE the obvious
    replacement (`<name>_1`, `<name>_2`) is already taken in the same or a nearer scope."""
    out = []

    def node(op, inputs, out_name, attrs=(), name=""):
        n = ir.Node("", op, inputs=list(inputs), num_outputs=1, attributes=list(attrs), name=name)
        n.outputs[0].name = out_name
        return n
    for variant in ("outer-has-x_1", "own-input-a_1", "two-levels", "chain-of-taken-names"):
        x, x1 = ir.Value(name="x"), ir.Value(name="x_1")
        if variant == "outer-has-x_1":
            inner = node("Neg", [x], "x", name="inner")                       # duplicates outer `x`; `x_1` is taken by an outer input
            use = node("Add", [inner.outputs[0], x1], "t_out", name="use")
            body = ir.Graph([], [use.outputs[0]], nodes=[inner, use], name="body")
        elif variant == "own-input-a_1":
            a, a1 = ir.Value(name="x"), ir.Value(name="x_1")                   # the body's own inputs
            inner = node("Neg", [a], "x", name="inner")                        # duplicates its own graph's input; `x_1` is the other input
            use = node("Add", [inner.outputs[0], a1], "t_out", name="use")
            body = ir.Graph([a, a1], [use.outputs[0]], nodes=[inner, use], name="body")
        elif variant == "two-levels":
            deep_n = node("Neg", [x], "x", name="deep")                        # innermost duplicates the outermost `x`
            deep = ir.Graph([], [deep_n.outputs[0]], nodes=[deep_n], name="deep")
            mid_v = node("Abs", [x], "x_1", name="mid")                        # the middle scope already owns `x_1` ... and the outer one too
            holder = node("If", [x1], "h", attrs=[ir.AttrGraph("then_branch", deep)], name="holder")
            use = node("Add", [mid_v.outputs[0], holder.outputs[0]], "t_out", name="use")
            body = ir.Graph([], [use.outputs[0]], nodes=[mid_v, holder, use], name="body")
        else:
            x2 = ir.Value(name="x_2")
            inner = node("Neg", [x], "x", name="inner")
            inner2 = node("Neg", [x2], "x_3", name="inner2")
            use = node("Add", [inner.outputs[0], inner2.outputs[0]], "t_out", name="use")
            body = ir.Graph([], [use.outputs[0]], nodes=[inner, inner2, use], name="body")
        ctl = node("If", [x], "r", attrs=[ir.AttrGraph("then_branch", body)], name="ctl")
        fin = node("Add", [ctl.outputs[0], x1], "y", name="fin")
        inputs = [x, x1] + ([x2] if variant == "chain-of-taken-names" else [])
        g = ir.Graph(inputs, [fin.outputs[0]], nodes=[ctl, fin], name="main", opset_imports={"": 18})
        out.append((f"api:{variant}", ir.Model(g, ir_version=10)))
    return out


def namefix_checks(failures, count):
    variants = []
    for mname, mk in models.ALL.items():
        variants.append((mname, mk()))
    # blank / duplicate some names
    base = models.m_if()
    for mode in ("blank-nodes", "dup-values", "clash-with-outer", "generated-like"):
        p = onnx.ModelProto()
        p.CopyFrom(base)
        if mode == "blank-nodes":
            for n in p.graph.node:
                n.name = ""
        elif mode == "dup-values":
            tb = p.graph.node[0].attribute[0].g
            tb.node[0].output[0] = "dupv"
            tb.node[1].input[0] = "dupv"
            eb = p.graph.node[0].attribute[1].g
            eb.node[0].output[0] = "dupv"
            eb.node[1].input[0] = "dupv"
        elif mode == "clash-with-outer":
            tb = p.graph.node[0].attribute[0].g
            tb.node[0].output[0] = "x_alias"       # same name as a value of the enclosing graph
            tb.node[1].input[0] = "x_alias"
        else:
            p.graph.node[1].output[0] = "val_0"
            p.graph.node[2].input[1] = "val_0"
            p.graph.output[1].name = "val_0"
        variants.append((f"if/{mode}", p))
    variants += api_name_models()
    for tag, proto in variants:
        count[0] += 1
        model = proto if isinstance(proto, ir.Model) else ir.from_proto(proto)
        before_struct = structure(model)
        before_names = {}
        for g, outer in scopes(model):
            names = [v.name for v in list(g.inputs) + list(g.initializers.values())] + [o.name for n in g for o in n.outputs]
            for nm in names:
                if nm and names.count(nm) == 1 and nm not in outer:
                    before_names[(id(g), nm)] = True
        obj_names = {id(v): v.name for g, _ in scopes(model) for v in list(g.inputs) + list(g.initializers.values()) + [o for n in g for o in n.outputs]}
        try:
            P.NameFixPass()(model)
        except Exception as e:  # noqa: BLE001
            failures.append(f"NameFixPass[{tag}] raised {e!r}"[:200])
            continue
        if structure(model) != before_struct:
            failures.append(f"NameFixPass[{tag}]: something other than names changed")
        for g, outer in scopes(model):
            vals = list(dict.fromkeys(list(g.inputs) + list(g.initializers.values()) + [o for n in g for o in n.outputs if o.name != "" or o.uses() or o.is_graph_output()]))
            names = [v.name for v in vals]
            if any(not nm for nm in names):
                failures.append(f"NameFixPass[{tag}]: graph {g.name!r} still has an unnamed value")
            if len(set(names)) != len(names):
                d = sorted({n for n in names if names.count(n) > 1})
                failures.append(f"NameFixPass[{tag}]: duplicate value names {d} in graph {g.name!r}")
            nn = [n.name for n in g]
            if any(not x for x in nn) or len(set(nn)) != len(nn):
                failures.append(f"NameFixPass[{tag}]: node names not unique/non-empty in graph {g.name!r}: {nn}")
            for k, v in g.initializers.items():
                if k != v.name:
                    failures.append(f"NameFixPass[{tag}]: initializer keyed {k!r} but named {v.name!r}")
        # values whose name was already unique (in scope and vs enclosing scopes) keep it
        for g, outer in scopes(model):
            for v in list(g.inputs) + list(g.initializers.values()) + [o for n in g for o in n.outputs]:
                old = obj_names.get(id(v))
                if old and (id(g), old) in before_names and v.name != old:
                    failures.append(f"NameFixPass[{tag}]: already-unique name {old!r} was changed to {v.name!r}")


def rename_checks(failures, count):
    pool = ["a", "b", "c", ""]
    for n_vals in (1, 2, 3):
        for targets in itertools.product(pool, repeat=n_vals):
            count[0] += 1
            vals = [ir.Value(name=nm, const_value=ir.tensor([float(i)], name=nm)) for i, nm in enumerate(["a", "b", "c"][:n_vals])]
            extra = ir.Value(name="d", const_value=ir.tensor([9.0], name="d"))
            plain = ir.Value(name="p")
            g = ir.Graph([plain], [], nodes=[], initializers=vals + [extra], name="g")
            before = ([v.name for v in vals], list(g.initializers.keys()), [v.is_initializer() for v in vals])
            try:
                _convenience.rename_values(vals, list(targets))
                raised = None
            except Exception as e:  # noqa: BLE001
                raised = e
            after = ([v.name for v in vals], list(g.initializers.keys()), [v.is_initializer() for v in vals])
            if raised is not None:
                if (after[0], sorted(after[1]), after[2]) != (before[0], sorted(before[1]), before[2]):
                    failures.append(f"rename_values{targets}: raised {type(raised).__name__} but state changed {before} -> {after}")
            else:
                ok = after[0] == list(targets) and all(after[2]) and all(g.initializers.get(v.name) is v for v in vals) \
                    and len(g.initializers) == n_vals + 1 and g.initializers.get("d") is extra
                if not ok:
                    failures.append(f"rename_values{targets}: returned but not applied completely: names {after[0]}, keys {after[1]}, is_initializer {after[2]}")


def rename_across_graphs(failures, count):
    """A rename set that spans several graphs: when ANY group is rejected (collision outside the set, duplicate target,
    empty name) no graph may have lost or re-keyed an initializer."""
    def mk():
        w0 = ir.Value(name="w0", const_value=ir.tensor([1.0], name="w0"))
        w1 = ir.Value(name="w1", const_value=ir.tensor([2.0], name="w1"))
        s0 = ir.Value(name="s0", const_value=ir.tensor([3.0], name="s0"))
        s1 = ir.Value(name="s1", const_value=ir.tensor([4.0], name="s1"))
        t0 = ir.Value(name="t0", const_value=ir.tensor([5.0], name="t0"))
        sub = ir.Graph([], [], nodes=[], initializers=[s0, s1], name="sub")
        sub2 = ir.Graph([], [], nodes=[], initializers=[t0], name="sub2")
        holder = ir.Node("", "If", inputs=[], num_outputs=1, attributes=[ir.AttrGraph("then_branch", sub), ir.AttrGraph("else_branch", sub2)])
        main = ir.Graph([], [], nodes=[holder], initializers=[w0, w1], name="main")
        return main, sub, sub2, dict(w0=w0, w1=w1, s0=s0, s1=s1, t0=t0)

    def snap(graphs, vals):
        return ([(g.name, list(g.initializers.keys()), [id(v) for v in g.initializers.values()]) for g in graphs],
                [(k, v.name, v.is_initializer(), None if v.graph is None else v.graph.name) for k, v in vals.items()])
    scenarios = [
        (("w0", "s0"), ("w_new", "s1")),          # second graph collides with an initializer outside the set
        (("s0", "w0"), ("s_new", "w1")),          # first-listed ok, main graph collides
        (("w0", "s0", "t0"), ("a", "b", "")),     # third graph: empty name
        (("w0", "s0", "s1"), ("a", "dup", "dup")),  # duplicate targets inside one graph
        (("t0", "s0", "w0"), ("x", "y", "w1")),
    ]
    for names, targets in scenarios:
        for order in itertools.permutations(range(len(names))):
            count[0] += 1
            main, sub, sub2, vals = mk()
            graphs = [main, sub, sub2]
            before = snap(graphs, vals)
            try:
                _convenience.rename_values([vals[names[i]] for i in order], [targets[i] for i in order])
                failures.append(f"rename_values across graphs {names}->{targets}: expected a rejection")
                continue
            except ValueError:
                pass
            except Exception as e:  # noqa: BLE001
                failures.append(f"rename_values across graphs {names}->{targets}: raised {e!r}"[:200])
            after = snap(graphs, vals)
            if after != before:
                failures.append(f"rename_values across graphs {[names[i] for i in order]}->{[targets[i] for i in order]}: rejected but state changed "
                                f"{before} -> {after}"[:600])


def main():
    ap = argparse.ArgumentParser()
    ap.add_argument("--tier", default="quick")
    ap.add_argument("--seed", type=int, default=0)
    a = ap.parse_args()
    t0 = time.time()
    failures, count = [], [0]
    hist_checks(failures, count)
    namefix_checks(failures, count)
    rename_checks(failures, count)
    rename_across_graphs(failures, count)
    known = {}
    kf = os.path.join(ROOT, "known_findings.json")
    if os.path.exists(kf):
        for k in json.load(open(kf)).get("open", []):
            if k.get("property") == "C15" and k.get("key"):
                known[k["key"]] = k
    new, known_lines = [], []
    for f in failures:
        hit = next((k for key, k in known.items() if key in f), None)
        if hit:
            if hit["what"] not in known_lines:
                known_lines.append(hit["what"])
        else:
            new.append(f)
    out = {"status": "violation" if new else "ok", "evaluations": count[0], "distinct_nontrivial": count[0],
           "rule": "27 add/remove/re-add histories with generated-looking explicit names; NameFixPass on 9 models with missing/duplicated/"
                   "clashing names across scopes; rename_values over every target assignment from {a,b,c,''} on 1-3 initializers; bounded",
           "known_findings": known_lines, "samples": [{"rename_values": ["a", "b"], "targets": ["b", "a"]}], "failures": new[:20],
           "wall_s": round(time.time() - t0, 2)}
    if new:
        os.makedirs(os.path.join(ROOT, "out", "replay"), exist_ok=True)
        path = os.path.join(ROOT, "out", "replay", "C15_bounded.json")
        json.dump({"property": "C15", "kind": "script",
                   "script": "import subprocess, sys, json\nr = subprocess.run([sys.executable, %r], capture_output=True, text=True)\n"
                             "d = json.loads(r.stdout.strip().splitlines()[-1])\nVIOLATED = d['status'] == 'violation'\nDETAIL = '\\n'.join(d.get('failures', []))\n"
                             % (os.path.abspath(__file__),), "failures": new[:20]}, open(path, "w"), indent=1)
        out["replay"] = path
    print(json.dumps(out))


if __name__ == "__main__":
    main()
