"""Bounded stand-in for C19 (never counted as proved): interleavings (length <= 3, quick; 4 thorough) of shard /
set_pipeline_stage / add / remove(cascade) / rename / replace_input / resize / replace_all_uses / clone / IR-11 round trip on
a 3-node model with values of known and unknown rank and negative axes.  After every step: every annotation targets a
current input/output of its node and a configuration registered on the model; the library's own checker reports nothing;
serialized references use current names; invalid requests are rejected without effect.  Last stdout line: JSON."""
import argparse
import itertools
import json
import os
import random
import sys
import time

import onnx_ir as ir
from onnx_ir import _multi_device

ROOT = os.path.dirname(os.path.dirname(os.path.abspath(__file__)))


def build():
    x = ir.Value(name="x", shape=ir.Shape([2, 3]), type=ir.TensorType(ir.DataType.FLOAT))
    u = ir.Value(name="u", type=ir.TensorType(ir.DataType.FLOAT))          # unknown rank
    n0 = ir.Node("", "Relu", [x], num_outputs=1, name="n0")
    n0.outputs[0].name, n0.outputs[0].shape, n0.outputs[0].type = "a", ir.Shape([2, 3]), ir.TensorType(ir.DataType.FLOAT)
    n1 = ir.Node("", "Add", [n0.outputs[0], u], num_outputs=2, name="n1")
    n1.outputs[0].name, n1.outputs[1].name = "b", "b2"
    n1.outputs[0].type = n1.outputs[1].type = ir.TensorType(ir.DataType.FLOAT)
    n2 = ir.Node("", "Mul", [n1.outputs[0], x], num_outputs=1, name="n2")
    n2.outputs[0].name, n2.outputs[0].type = "y", ir.TensorType(ir.DataType.FLOAT)
    g = ir.Graph([x, u], [n2.outputs[0]], nodes=[n0, n1, n2], name="g", opset_imports={"": 18})
    m = ir.Model(g, ir_version=11)
    tp = m.add_device_configuration("tp", num_devices=2)
    pp = m.add_device_configuration("pp", num_devices=4)
    return m, {"tp": tp, "pp": pp}


def check(model, where, failures):
    registered = list(model.device_configurations.values()) if hasattr(model.device_configurations, "values") else list(model.device_configurations)
    for n in model.graph:
        io = [v for v in list(n.inputs) + list(n.outputs) if v is not None]
        for cfg in n.device_configurations:
            if not any(cfg.configuration is r for r in registered):
                failures.append(f"{where}: node {n.name} references a configuration not registered on the model")
            for spec in cfg.sharding_specs:
                if not any(spec.value is v for v in io):
                    failures.append(f"{where}: node {n.name} keeps a sharding spec for {getattr(spec.value, 'name', None)!r} which is not one of its inputs/outputs")
    msgs = _multi_device._check_device_configurations(model)
    if msgs:
        failures.append(f"{where}: _check_device_configurations reports {msgs[0]}")
    try:
        proto = ir.to_proto(model)
    except Exception as e:  # noqa: BLE001
        failures.append(f"{where}: serialization failed {e!r}"[:200])
        return
    for pn in proto.graph.node:
        names = set(pn.input) | set(pn.output)
        for dc in pn.device_configurations:
            for ss in dc.sharding_spec:
                if ss.tensor_name not in names:
                    failures.append(f"{where}: serialized sharding of node {pn.name} names {ss.tensor_name!r}, not among its inputs/outputs {sorted(names)}")
    try:
        back = ir.from_proto(proto)
        msgs2 = _multi_device._check_device_configurations(back)
        if msgs2:
            failures.append(f"{where}: after the round trip the checker reports {msgs2[0]}")
    except Exception as e:  # noqa: BLE001
        failures.append(f"{where}: round trip failed {e!r}"[:200])



def nested_annotation_cases(failures):
    """Annotations on nodes INSIDE nested graphs whose own values carry the name of an enclosing-scope value: after the IR-11
    round trip every spec of such a node still targets that node's own input/output (innermost scope wins), the
    library's checker reports nothing, and sharding_of() finds it."""
    count = 0
    F32 = ir.TensorType(ir.DataType.FLOAT)

    def val(name):
        return ir.Value(name=name, type=F32, shape=ir.Shape([2, 4]))

    def all_nodes(g):
        for n in g:
            yield n
            for a in n.attributes.values():
                if a.type == ir.AttributeType.GRAPH:
                    yield from all_nodes(a.as_graph())
                elif a.type == ir.AttributeType.GRAPHS:
                    for sg in a.as_graphs():
                        yield from all_nodes(sg)

    for variant in ("body-input", "branch-local-output"):
        for axis in (0, -1):
            count += 1
            x = val("x")
            outer = ir.Node("", "Relu", [x], num_outputs=1, name="outer")
            outer.outputs[0].name, outer.outputs[0].type, outer.outputs[0].shape = "h", F32, ir.Shape([2, 4])
            if variant == "body-input":
                h_in = val("h")
                inner = ir.Node("", "Neg", [h_in], num_outputs=1, name="inner")
                inner.outputs[0].name, inner.outputs[0].type, inner.outputs[0].shape = "h_next", F32, ir.Shape([2, 4])
                sub = ir.Graph([h_in], [inner.outputs[0]], nodes=[inner], name="body")
                target = h_in
            else:
                inner = ir.Node("", "Sub", [x, x], num_outputs=1, name="inner")
                inner.outputs[0].name, inner.outputs[0].type, inner.outputs[0].shape = "h", F32, ir.Shape([2, 4])
                sub = ir.Graph([], [inner.outputs[0]], nodes=[inner], name="branch")
                target = inner.outputs[0]
            ctl = ir.Node("", "If", [x], num_outputs=1, name="ctl", attributes=[ir.AttrGraph("then_branch", sub)])
            ctl.outputs[0].name = "r"
            g = ir.Graph([x], [ctl.outputs[0]], nodes=[outer, ctl], name="main", opset_imports={"": 18})
            model = ir.Model(g, ir_version=11)
            cfg = model.add_device_configuration("tp", num_devices=2)
            where = f"nested annotation ({variant}, axis={axis})"
            try:
                inner.shard(target, configuration=cfg, axis=axis, num_shards=2)
                outer.shard(outer.outputs[0], configuration=cfg, axis=axis, num_shards=2)
                back = ir.from_proto(ir.to_proto(model))
            except Exception as e:  # noqa: BLE001
                failures.append(f"{where}: raised {e!r}"[:200])
                continue
            msgs = _multi_device._check_device_configurations(back)
            if msgs:
                failures.append(f"{where}: after the round trip the checker reports {msgs[0]}")
            for n in all_nodes(back.graph):
                io = [v for v in list(n.inputs) + list(n.outputs) if v is not None]
                for dc in n.device_configurations:
                    for spec in dc.sharding_specs:
                        if not any(spec.value is v for v in io):
                            failures.append(f"{where}: after the round trip node {n.name!r} holds a sharding spec for a value named "
                                            f"{spec.value.name!r} that is not one of its own inputs/outputs (outer scope won)")
                if n.name == "inner":
                    own = n.inputs[0] if variant == "body-input" else n.outputs[0]
                    if not n.device_configurations or not any(spec.value is own for dc in n.device_configurations for spec in dc.sharding_specs):
                        failures.append(f"{where}: after the round trip node 'inner' lost the sharding of its own value {own.name!r}")
    return count


def snapshot(model):
    return [(n.name, repr(n.device_configurations)) for n in model.graph] + [sorted(k for k in (model.device_configurations.keys() if hasattr(model.device_configurations, "keys") else []))]


def ops(model, cfgs):
    nodes = list(model.graph)
    out = []

    def val(name):
        for n in model.graph:
            for v in list(n.inputs) + list(n.outputs):
                if v is not None and v.name == name:
                    return v
        return None
    for ni, vname, c, axis, ns in itertools.product((0, 1, 2), ("x", "a", "b", "u", "b_renamed"), ("tp", "pp"), (0, -1, 5), (2, 0)):
        out.append((f"n{ni}.shard({vname},{c},axis={axis},num={ns})",
                    lambda ni=ni, vname=vname, c=c, axis=axis, ns=ns: list(model.graph)[ni].shard(val(vname), configuration=cfgs[c], axis=axis, num_shards=ns)))
    # the same requests carrying a pipeline stage in the same call (validation must precede every effect, stage included)
    for ni, vname, c, axis, st in itertools.product((0, 1, 2), ("x", "a", "b"), ("tp", "pp"), (0, -1, -2, 1, 5), (1, 3)):
        out.append((f"n{ni}.shard({vname},{c},axis={axis},num=2,stage={st})",
                    lambda ni=ni, vname=vname, c=c, axis=axis, st=st: list(model.graph)[ni].shard(val(vname), configuration=cfgs[c], axis=axis, num_shards=2,
                                                                                         pipeline_stage=st)))
    for ni, c, st in itertools.product((0, 1), ("tp", "pp"), (0, -1, 2)):
        out.append((f"n{ni}.set_pipeline_stage({c},{st})", lambda ni=ni, c=c, st=st: list(model.graph)[ni].set_pipeline_stage(cfgs[c], st)))
    out.append(("rename b", lambda: setattr(val("b") or val("b_renamed"), "name", "b_renamed")))
    out.append(("n2.replace_input_with(0,x)", lambda: list(model.graph)[2].replace_input_with(0, val("x"))))
    out.append(("n1.replace_input_with(0,x)", lambda: list(model.graph)[1].replace_input_with(0, val("x"))))
    out.append(("n1.resize_outputs(1)", lambda: list(model.graph)[1].resize_outputs(1)))
    out.append(("n1.resize_inputs(1)", lambda: list(model.graph)[1].resize_inputs(1)))
    out.append(("a.replace_all_uses_with(x)", lambda: val("a").replace_all_uses_with(val("x"))))
    out.append(("remove tp cascade", lambda: model.remove_device_configuration(cfgs["tp"], cascade=True)))
    out.append(("remove pp cascade", lambda: model.remove_device_configuration("pp", cascade=True)))
    return out


def main():
    ap = argparse.ArgumentParser()
    ap.add_argument("--tier", default="quick")
    ap.add_argument("--seed", type=int, default=0)
    a = ap.parse_args()
    t0 = time.time()
    rnd = random.Random(a.seed)
    failures, evaluations, distinct = [], 0, set()
    m0, c0 = build()
    labels = [l for l, _ in ops(m0, c0)]
    depth = 3 if a.tier == "quick" else 4
    budget = 1500 if a.tier == "quick" else 12000
    # all single ops, then sampled sequences biased to start with valid shardings under both configurations
    seqs = [(l,) for l in labels]
    starts = [l for l in labels if "axis=0,num=2" in l or "axis=-1,num=2" in l]
    for _ in range(budget):
        k = rnd.randint(2, depth)
        seqs.append(tuple([rnd.choice(starts)] + [rnd.choice(starts if rnd.random() < 0.4 else labels) for _ in range(k - 1)]))
    # directed: the same value sharded under both configurations on one node, then it leaves the node
    leave = [l for l in labels if l.startswith(("n1.replace_input", "n2.replace_input", "n1.resize", "a.replace_all", "rename"))]
    for ni, vname in ((1, "a"), (1, "u"), (1, "b2"), (2, "b"), (2, "x"), (0, "x"), (1, "b")):
        for ax1, ax2 in ((0, 0), (-1, 0)):
            s1 = f"n{ni}.shard({vname},tp,axis={ax1},num=2)"
            s2 = f"n{ni}.shard({vname},pp,axis={ax2},num=2)"
            for l in leave:
                seqs.append((s1, s2, l))
                seqs.append((s2, s1, "rename b", l))
    # directed: a repeated axis (same spelling or its negative alias) together with a stage, and a conflicting stage
    for ni, vname in ((0, "x"), (1, "a"), (2, "x")):
        for c in ("tp", "pp"):
            for ax1, ax2 in ((0, 0), (0, -2), (-1, 1), (1, -1)):
                first = f"n{ni}.shard({vname},{c},axis={ax1},num=2)" if ax1 in (0, -1) else f"n{ni}.shard({vname},{c},axis={ax1},num=2,stage=1)"
                for st in (1, 3):
                    seqs.append((first, f"n{ni}.shard({vname},{c},axis={ax2},num=2,stage={st})"))
            seqs.append((f"n{ni}.shard({vname},{c},axis=0,num=2,stage=1)", f"n{ni}.shard({vname},{c},axis=1,num=2,stage=3)"))
    nested = nested_annotation_cases(failures)
    evaluations += nested
    for i in range(nested):
        distinct.add(("nested-annotation", i))
    samples = []
    for seq in seqs:
        evaluations += 1
        if seq in distinct:
            continue
        distinct.add(seq)
        model, cfgs = build()
        table = dict(ops(model, cfgs))
        for step, label in enumerate(seq):
            before = snapshot(model)
            try:
                table[label]()
                raised = None
            except Exception as e:  # noqa: BLE001
                raised = e
            where = " ; ".join(seq[:step + 1])
            if raised is not None and ("shard(" in label or "set_pipeline_stage" in label) and isinstance(raised, ValueError):
                if snapshot(model) != before:
                    failures.append(f"{where}: rejected annotation request changed the annotations")
            n_before = len(failures)
            check(model, where, failures)
            if "remove" in label and raised is None:
                cfgs = {k: v for k, v in cfgs.items() if k not in label}
                table = dict(ops(model, cfgs))
            if len(failures) > n_before:
                break
        # clone keeps annotations pointing into the clone
        if len(seq) >= 2:
            try:
                clone = model.clone()
                check(clone, " ; ".join(seq) + " ; clone", failures)
                for n in clone.graph:
                    for cfg in n.device_configurations:
                        for spec in cfg.sharding_specs:
                            if any(spec.value is v for on in model.graph for v in list(on.inputs) + list(on.outputs)):
                                failures.append(f"{' ; '.join(seq)} ; clone: a cloned annotation still points at a value of the original")
            except Exception as e:  # noqa: BLE001
                failures.append(f"{' ; '.join(seq)} ; clone raised {e!r}"[:200])
        if len(samples) < 4 and len(seq) > 1:
            samples.append(list(seq))
        if len(failures) > 40:
            break
    uniq = []
    for f in failures:
        key = f.split(": ", 1)[-1][:80]
        if key not in [u.split(": ", 1)[-1][:80] for u in uniq]:
            uniq.append(f)
    known = {}
    kf = os.path.join(ROOT, "known_findings.json")
    if os.path.exists(kf):
        for k in json.load(open(kf)).get("open", []):
            if k.get("property") == "C19" and k.get("key"):
                known[k["key"]] = k
    new, known_lines = [], []
    for f in uniq:
        hit = next((k for key, k in known.items() if key in f), None)
        if hit:
            if hit["what"] not in known_lines:
                known_lines.append(hit["what"])
        else:
            new.append(f)
    out = {"status": "violation" if new else "ok", "evaluations": evaluations, "distinct_nontrivial": len(distinct),
           "rule": f"all single operations of a {len(labels)}-element alphabet plus seeded random sequences of length <= {depth} on a 3-node model; "
                   "distinct = distinct sequences; bounded, not a proof", "known_findings": known_lines, "samples": samples,
           "failures": new[:15], "wall_s": round(time.time() - t0, 2)}
    if new:
        os.makedirs(os.path.join(ROOT, "out", "replay"), exist_ok=True)
        path = os.path.join(ROOT, "out", "replay", "C19_bounded.json")
        json.dump({"property": "C19", "kind": "script",
                   "script": "import subprocess, sys, json\nr = subprocess.run([sys.executable, %r, '--tier', %r, '--seed', %r], capture_output=True, text=True)\n"
                             "d = json.loads(r.stdout.strip().splitlines()[-1])\nVIOLATED = d['status'] == 'violation'\nDETAIL = '\\n'.join(d.get('failures', []))\n"
                             % (os.path.abspath(__file__), a.tier, str(a.seed)), "failures": new[:15]}, open(path, "w"), indent=1)
        out["replay"] = path
    print(json.dumps(out))


if __name__ == "__main__":
    main()
