"""Runtime forms of the IR invariants (C01) and an observable-state snapshot (C06), over a finite universe of
objects.  Used by the bounded stand-ins and as the replay arbiter; runs under /venv/bin/python."""
import collections

import onnx_ir as ir
from onnx_ir import _core


class Universe:
    def __init__(self, graphs=(), nodes=(), values=()):
        self.graphs, self.nodes, self.values = list(graphs), list(nodes), list(values)
        self.names = {}
        for i, g in enumerate(self.graphs):
            self.names[id(g)] = f"g{i}"
        for i, n in enumerate(self.nodes):
            self.names[id(n)] = f"n{i}"
        for i, v in enumerate(self.values):
            self.names[id(v)] = f"v{i}"

    def nm(self, o):
        if o is None:
            return None
        return self.names.get(id(o), f"<{type(o).__name__}@?>")

    def absorb(self):
        """Objects created by operations (new outputs, new nodes) join the universe."""
        for n in list(self.nodes):
            for v in list(n._inputs) + list(n._outputs):
                if v is not None and id(v) not in self.names:
                    self.names[id(v)] = f"v{len(self.values)}"
                    self.values.append(v)
        for g in self.graphs:
            for n in g._nodes:
                if id(n) not in self.names:
                    self.names[id(n)] = f"n{len(self.nodes)}"
                    self.nodes.append(n)
            for v in list(g._inputs.data) + list(g._outputs.data) + list(g._initializers.data.values()):
                if v is not None and id(v) not in self.names and isinstance(v, _core.Value):
                    self.names[id(v)] = f"v{len(self.values)}"
                    self.values.append(v)


def invariant_violations(u: Universe):
    """C01: both directions of every relationship agree. Returns a list of human-readable violations."""
    u.absorb()
    out = []
    nm = u.nm
    # I1 use-def
    for v in u.values:
        for use in v._uses:
            n, i = use.node, use.idx
            if not (0 <= i < len(n._inputs) and n._inputs[i] is v):
                out.append(f"I1: {nm(v)} lists use ({nm(n)},{i}) but that node input is {nm(n._inputs[i]) if 0 <= i < len(n._inputs) else 'out of range'}")
    for n in u.nodes:
        for i, v in enumerate(n._inputs):
            if v is not None and _core.Usage(n, i) not in v._uses:
                out.append(f"I1: {nm(n)}.inputs[{i}] is {nm(v)} but the value does not list that use")
    # I2 def
    for n in u.nodes:
        for k, o in enumerate(n._outputs):
            if o is None or o._producer is not n or o._index != k:
                out.append(f"I2: {nm(n)}.outputs[{k}] = {nm(o)} has producer {nm(o._producer) if o is not None else None} index {o._index if o is not None else None}")
    # I3 nodes
    for g in u.graphs:
        seq = list(g._nodes)
        if len(seq) != len(set(map(id, seq))):
            out.append(f"I3: {nm(g)} node sequence has duplicates")
        if len(seq) != len(g._nodes) or list(reversed(list(reversed(g._nodes)))) != seq:
            out.append(f"I3: {nm(g)} forward/backward/len views disagree: fwd={[nm(x) for x in seq]} bwd={[nm(x) for x in reversed(g._nodes)]} len={len(g._nodes)}")
        for n in seq:
            if n._graph is not g:
                out.append(f"I3: {nm(n)} is in {nm(g)}'s node sequence but names graph {nm(n._graph)}")
    for n in u.nodes:
        if n._graph is not None:
            if sum(1 for x in n._graph._nodes if x is n) != 1:
                out.append(f"I3: {nm(n)} names graph {nm(n._graph)} but is not (once) in its node sequence")
    # I4 ownership
    for g in u.graphs:
        for kind, cont, flag in (("input", g._inputs, "_is_graph_input"), ("output", g._outputs, "_is_graph_output")):
            cnt = collections.Counter(map(id, cont.data))
            for v in cont.data:
                if not isinstance(v, _core.Value):
                    out.append(f"I4: {nm(g)}.{kind}s contains a non-Value {v!r}")
                    continue
                if not getattr(v, flag) or v._graph is not g:
                    out.append(f"I4: {nm(v)} is in {nm(g)}.{kind}s but reports {flag}={getattr(v, flag)} graph={nm(v._graph)}")
            for v in u.values:
                if cont._ref_counter.get(v, 0) != cnt.get(id(v), 0):
                    out.append(f"I4: {nm(g)}.{kind}s ref counter for {nm(v)} is {cont._ref_counter.get(v, 0)} but it occurs {cnt.get(id(v), 0)} times")
        for k, v in g._initializers.data.items():
            if not isinstance(v, _core.Value):
                out.append(f"I4: {nm(g)}.initializers[{k!r}] is a non-Value")
                continue
            if k != v._name:
                out.append(f"I4: {nm(g)}.initializers[{k!r}] holds {nm(v)} whose name is {v._name!r}")
            if not v._is_initializer or v._graph is not g:
                out.append(f"I4: {nm(v)} is an initializer of {nm(g)} but reports is_initializer={v._is_initializer} graph={nm(v._graph)}")
            if v._producer is not None:
                out.append(f"I5: initializer {nm(v)} of {nm(g)} has producer {nm(v._producer)}")
        for v in g._inputs.data:
            if isinstance(v, _core.Value) and v._producer is not None:
                out.append(f"I5: graph input {nm(v)} of {nm(g)} has producer {nm(v._producer)}")
    for v in u.values:
        g = v._graph
        if v._is_graph_input and (g is None or not any(x is v for x in g._inputs.data)):
            out.append(f"I4: {nm(v)} reports is_graph_input but is not in {nm(g)}.inputs")
        if v._is_graph_output and (g is None or not any(x is v for x in g._outputs.data)):
            out.append(f"I4: {nm(v)} reports is_graph_output but is not in {nm(g)}.outputs")
        if v._is_initializer and (g is None or not any(x is v for x in g._initializers.data.values())):
            out.append(f"I4: {nm(v)} reports is_initializer but is not in {nm(g)}.initializers")
        if (g is None) != (not (v._is_graph_input or v._is_graph_output or v._is_initializer)):
            out.append(f"I4: {nm(v)} graph={nm(g)} but flags in/out/init = {v._is_graph_input}/{v._is_graph_output}/{v._is_initializer}")
    return out


def snapshot(u: Universe, ids=True):
    """Every observable property of every object of the universe (C06: a rejected edit changes none of them)."""
    nm = u.nm
    s = {}
    for v in u.values:
        s[nm(v)] = ("value", v._name, nm(v._graph), v._is_graph_input, v._is_graph_output, v._is_initializer,
                    nm(v._producer), v._index, tuple((nm(x.node), x.idx) for x in v._uses),
                    (id(v._const_value) if ids else "tensor") if v._const_value is not None else None,
                    getattr(v._const_value, "name", None), repr(v._type), repr(v._shape), v.doc_string)
    for n in u.nodes:
        s[nm(n)] = ("node", n._name, nm(n._graph), tuple(nm(x) for x in n._inputs), tuple(nm(x) for x in n._outputs),
                    n._op_type, n._domain, tuple(sorted(n._attributes.keys())), repr(n.device_configurations))
    for g in u.graphs:
        na = g._name_authority
        s[nm(g)] = ("graph", g.name, tuple(nm(x) for x in g._inputs.data), tuple(nm(x) for x in g._outputs.data),
                    tuple((k, nm(x)) for k, x in g._initializers.data.items()), tuple(nm(x) for x in g._nodes),
                    tuple(sorted(map(str, g._inputs._ref_counter.items()))) and tuple(sorted((nm(k), c) for k, c in g._inputs._ref_counter.items() if c)),
                    tuple(sorted((nm(k), c) for k, c in g._outputs._ref_counter.items() if c)),
                    na._value_counter, na._node_counter, tuple(sorted(na._value_names)), tuple(sorted(na._node_names)))
    return s


def diff(a, b):
    out = []
    for k in sorted(set(a) | set(b)):
        if a.get(k) != b.get(k):
            out.append(f"{k}: {a.get(k)} -> {b.get(k)}")
    return out
