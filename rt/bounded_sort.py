"""Bounded stand-in for C12 (never counted as proved): every digraph on <= 4 main-graph nodes (DAGs and cyclic ones,
repeated and optional inputs, a 2-output node), every initial permutation (quick: <= 3 nodes exhaustively, 4 sampled),
with/without a nested subgraph (depth <= 2) capturing values produced in enclosing graphs, with/without a detached
consumer left in uses().  Oracle = the statement: producers (in the same graph) before users incl. nested users,
per-graph node sets unchanged, already ordered => unchanged, two runs equal, cycle => ValueError and no order changed.
Last stdout line: JSON."""
import argparse
import itertools
import json
import os
import random
import sys
import time

import onnx_ir as ir

ROOT = os.path.dirname(os.path.dirname(os.path.abspath(__file__)))


def build(n, edges, perm, nested, stale):
    """n main nodes; edges: set of (src, dst) meaning dst uses an output of src (cycles allowed)."""
    x = ir.Value(name="x")
    nodes = [ir.Node("", "Op", inputs=[], num_outputs=2 if i == 0 else 1, name=f"m{i}") for i in range(n)]
    for i, nd in enumerate(nodes):
        for k, o in enumerate(nd.outputs):
            o.name = f"m{i}_o{k}"
    for i, nd in enumerate(nodes):
        ins = [x, None]
        for (s, d) in sorted(edges):
            if d == i:
                ins.append(nodes[s].outputs[0])
                if s == 0:
                    ins.append(nodes[0].outputs[1])      # second output, and a repeated producer
        nd.resize_inputs(len(ins))
        for k, v in enumerate(ins):
            nd.replace_input_with(k, v)
    graphs = []
    if nested and n >= 2:
        # the owner is main node n-1; its subgraph captures the output of main node `cap`
        for depth in range(nested):
            pass
        cap = nested_cap = (n - 2)
        inner_a = ir.Node("", "Inner", inputs=[nodes[cap].outputs[0]], num_outputs=1, name="s_a")
        inner_a.outputs[0].name = "s_a_o"
        inner_b = ir.Node("", "Inner", inputs=[inner_a.outputs[0]], num_outputs=1, name="s_b")
        inner_b.outputs[0].name = "s_b_o"
        sub_nodes = [inner_b, inner_a]          # unsorted on purpose
        sub_out = inner_b.outputs[0]
        if nested == 2:
            deep = ir.Node("", "Deep", inputs=[nodes[cap].outputs[0], inner_a.outputs[0]], num_outputs=1, name="d_a")
            deep.outputs[0].name = "d_a_o"
            dg = ir.Graph([], [deep.outputs[0]], nodes=[deep], name="deep")
            holder = ir.Node("", "Holder", inputs=[], num_outputs=1, name="s_h", attributes=[ir.AttrGraph("body", dg)])
            holder.outputs[0].name = "s_h_o"
            sub_nodes = [holder, inner_b, inner_a]
            graphs.append(dg)
        extra = None
        if stale:
            extra = ir.Node("", "Consumer", inputs=[sub_out], num_outputs=1, name="s_consumer")
            sub_nodes.append(extra)
        sg = ir.Graph([], [sub_out], nodes=sub_nodes, name="sub")
        if extra is not None:
            sg.remove(extra)                    # default safe=False: the detached node stays in uses()
        nodes[n - 1].attributes.add(ir.AttrGraph("body", sg))
        graphs.append(sg)
    order = [nodes[i] for i in perm]
    g = ir.Graph([x], [nodes[n - 1].outputs[0]], nodes=order, name="main")
    graphs.insert(0, g)
    return g, graphs, nodes



def nested_cycle_cases(failures):
    """Directed: the cycle is confined to ONE nested graph while the enclosing graph and the sibling branches are acyclic
    but out of order.  A rejected sort (ValueError) must leave every graph of the hierarchy exactly as it was.
    Also: a capture made two or three levels down must still order the outer producer before the control-flow node."""
    count = 0

    def op(name, inputs, n_out=1, attrs=()):
        nd = ir.Node("", "Op", inputs=list(inputs), num_outputs=n_out, name=name, attributes=list(attrs))
        for k, o in enumerate(nd.outputs):
            o.name = f"{name}_o{k}"
        return nd

    for n_branches in (1, 2, 3):
        for cyclic in range(n_branches):
            for outer_perm in ((0, 1, 2, 3), (3, 2, 1, 0), (2, 3, 0, 1)):
                count += 1
                x = ir.Value(name="x")
                prep = op("prep", [x])
                cond = op("cond", [prep.outputs[0]])
                branches = []
                for b in range(n_branches):
                    a = op(f"b{b}_a", [prep.outputs[0]])
                    c = op(f"b{b}_c", [a.outputs[0]])
                    if b == cyclic:
                        a.replace_input_with(0, c.outputs[0])       # a <-> c
                    branches.append(ir.Graph([], [c.outputs[0]], nodes=[c, a], name=f"branch{b}"))     # unsorted on purpose
                ifn = op("ifn", [cond.outputs[0]], attrs=[ir.AttrGraph(f"g{b}", g) for b, g in enumerate(branches)])
                tail = op("tail", [ifn.outputs[0]])
                outer_nodes = [prep, cond, ifn, tail]
                main = ir.Graph([x], [tail.outputs[0]], nodes=[outer_nodes[i] for i in outer_perm], name="main")
                graphs = [main] + branches
                before = {g.name: [n.name for n in g] for g in graphs}
                try:
                    main.sort()
                    failures.append(f"nested cycle in branch{cyclic} of {n_branches}: no ValueError")
                    continue
                except ValueError:
                    pass
                except Exception as e:  # noqa: BLE001
                    failures.append(f"nested cycle: sort raised {e!r}"[:200])
                    continue
                after = {g.name: [n.name for n in g] for g in graphs}
                if after != before:
                    failures.append(f"nested cycle in branch{cyclic} of {n_branches}, outer order {outer_perm}: ValueError raised but node "
                                    f"orders changed {before} -> {after}")
    # deep captures: the producer `late` sits after the control-flow node; its output is used only `depth` levels down
    for depth in (1, 2, 3):
        count += 1
        x = ir.Value(name="x")
        a = op("a", [x])
        late = op("late", [a.outputs[0]])
        inner = op("use", [late.outputs[0]])
        g = ir.Graph([], [inner.outputs[0]], nodes=[inner], name=f"level{depth}")
        for d in range(depth - 1, 0, -1):
            holder = op(f"hold{d}", [], attrs=[ir.AttrGraph("body", g)])
            g = ir.Graph([], [holder.outputs[0]], nodes=[holder], name=f"level{d}")
        ctl = op("ctl", [a.outputs[0]], attrs=[ir.AttrGraph("body", g)])
        fin = op("fin", [ctl.outputs[0], late.outputs[0]])
        main = ir.Graph([x], [fin.outputs[0]], nodes=[a, ctl, late, fin], name="main")
        try:
            main.sort()
        except Exception as e:  # noqa: BLE001
            failures.append(f"deep capture depth {depth}: sort raised {e!r}"[:200])
            continue
        order = [n.name for n in main]
        if order.index("late") > order.index("ctl"):
            failures.append(f"deep capture at depth {depth}: producer 'late' still after the control-flow node that uses it: {order}")
    # sort, edit, sort again: the second sort must see the graph as it is NOW (no stale per-node information)
    for nested in (False, True):
        for edit in ("new-producer", "rewire", "swap-inputs"):
            count += 1
            x = ir.Value(name="x")
            w = ir.Value(name="w")                      # consumed, no producer yet
            a = op("a", [x])
            b = op("b", [x])
            if nested:
                inner = op("inner", [w, a.outputs[0]])
                body = ir.Graph([], [inner.outputs[0]], nodes=[inner], name="body")
                c = op("c", [x], attrs=[ir.AttrGraph("body", body)])
                consumer = inner
            else:
                c = op("c", [w, a.outputs[0]])
                consumer = c
            main = ir.Graph([x], [c.outputs[0]], nodes=[a, b, c], name="main")
            try:
                main.sort()
                list(c.predecessors()), list(consumer.predecessors())
                if edit == "new-producer":
                    p = ir.Node("", "Op", inputs=[b.outputs[0]], outputs=[w], name="p")     # w now has a producer, placed last
                    main.append(p)
                    must = [("p", "c"), ("b", "p")]
                elif edit == "rewire":
                    late = op("late", [x])
                    main.append(late)
                    consumer.replace_input_with(1, late.outputs[0])
                    must = [("late", "c")]
                else:
                    late = op("late", [b.outputs[0]])
                    main.append(late)
                    consumer.replace_input_with(0, late.outputs[0])
                    must = [("late", "c"), ("b", "late")]
                main.sort()
            except Exception as e:  # noqa: BLE001
                failures.append(f"sort/edit/sort ({edit}, nested={nested}): raised {e!r}"[:200])
                continue
            order = [n.name for n in main]
            for first, second in must:
                if order.index(first) > order.index(second):
                    failures.append(f"sort/edit/sort ({edit}, nested={nested}): after the second sort '{first}' is not before '{second}': {order}")
    return count


def users_ok(graphs):
    """producers located in the same graph come before every node that uses their values directly or in a nested graph."""
    problems = []

    def nested_inputs(node):
        vals = [v for v in node.inputs if v is not None]
        for a in node.attributes.values():
            if a.type == ir.AttributeType.GRAPH:
                for inner in a.as_graph():
                    vals += nested_inputs(inner)
        return vals
    for g in graphs:
        pos = {id(n): i for i, n in enumerate(g)}
        for n in g:
            for v in nested_inputs(n):
                p = v.producer()
                if p is not None and p.graph is g and p is not n and id(p) in pos:
                    if pos[id(p)] >= pos[id(n)]:
                        problems.append(f"in graph {g.name!r} node {n.name} comes before producer {p.name} of {v.name}")
    return problems


def has_cycle(n, edges, nested):
    adj = {i: set() for i in range(n)}
    for s, d in edges:
        adj[s].add(d)
    if nested and n >= 2:
        adj[n - 2].add(n - 1)
    color = {}

    def dfs(u):
        color[u] = 1
        for w in adj[u]:
            if color.get(w) == 1 or (w not in color and dfs(w)):
                return True
        color[u] = 2
        return False
    return any(dfs(u) for u in range(n) if u not in color)


def main():
    ap = argparse.ArgumentParser()
    ap.add_argument("--tier", default="quick")
    ap.add_argument("--seed", type=int, default=0)
    a = ap.parse_args()
    t0 = time.time()
    rnd = random.Random(a.seed)
    failures, evaluations, distinct, samples = [], 0, set(), []
    cases = []
    for n in (1, 2, 3, 4):
        pairs = [(s, d) for s in range(n) for d in range(n) if s != d]
        all_edge_sets = list(itertools.chain.from_iterable(itertools.combinations(pairs, k) for k in range(0, min(len(pairs), 4) + 1)))
        perms = list(itertools.permutations(range(n)))
        for edges in all_edge_sets:
            for perm in perms:
                for nested in (0, 1, 2):
                    for stale in ((False, True) if nested else (False,)):
                        cases.append((n, frozenset(edges), perm, nested, stale))
    if a.tier == "quick":
        small = [c for c in cases if c[0] <= 3]
        big = [c for c in cases if c[0] == 4]
        rnd.shuffle(big)
        cases = small + big[:3000]
    for (n, edges, perm, nested, stale) in cases:
        evaluations += 1
        distinct.add((n, edges, perm, nested, stale))
        tag = f"n={n} edges={sorted(edges)} perm={perm} nested={nested} stale_use={stale}"
        g, graphs, nodes = build(n, edges, perm, nested, stale)
        before = {gr.name: [x.name for x in gr] for gr in graphs}
        cyc = has_cycle(n, edges, nested)
        try:
            g.sort()
            raised = None
        except ValueError as e:
            raised = e
        except Exception as e:  # noqa: BLE001
            failures.append(f"{tag}: sort raised {e!r}"[:200])
            continue
        after = {gr.name: [x.name for x in gr] for gr in graphs}
        if cyc:
            if raised is None:
                failures.append(f"{tag}: dependency cycle but no ValueError (order now {after['main']})")
            elif after != before:
                failures.append(f"{tag}: ValueError for a cycle but node orders changed {before} -> {after}")
            continue
        if raised is not None:
            failures.append(f"{tag}: acyclic but ValueError raised")
            continue
        for k in before:
            if sorted(before[k]) != sorted(after[k]):
                failures.append(f"{tag}: graph {k!r} lost or gained nodes: {before[k]} -> {after[k]}")
        probs = users_ok(graphs)
        if probs:
            failures.append(f"{tag}: {probs[0]}")
        # stability: sorting again changes nothing; an already ordered graph is left as it was
        g.sort()
        again = {gr.name: [x.name for x in gr] for gr in graphs}
        if again != after:
            failures.append(f"{tag}: sorting an already ordered graph changed it {after} -> {again}")
        g2, graphs2, _ = build(n, edges, perm, nested, stale)
        if not users_ok(graphs2):
            b2 = {gr.name: [x.name for x in gr] for gr in graphs2}
            g2.sort()
            a2 = {gr.name: [x.name for x in gr] for gr in graphs2}
            if a2 != b2:
                failures.append(f"{tag}: initial order was already valid but sort changed it {b2} -> {a2}")
        else:
            g2.sort()
            a2 = {gr.name: [x.name for x in gr] for gr in graphs2}
            if a2 != after:
                failures.append(f"{tag}: two runs on identical graphs differ {after} vs {a2}")
        if len(samples) < 4 and nested:
            samples.append({"nodes": n, "edges": sorted(edges), "perm": list(perm), "nested": nested, "stale_use": stale})
        if len(failures) > 30:
            break
    extra_cases = nested_cycle_cases(failures)
    evaluations += extra_cases
    for i in range(extra_cases):
        distinct.add(("directed", i))
    known = {}
    kf = os.path.join(ROOT, "known_findings.json")
    if os.path.exists(kf):
        for k in json.load(open(kf)).get("open", []):
            if k.get("property") == "C12" and k.get("key"):
                known[k["key"]] = k
    new, known_lines = [], []
    for f in failures:
        hit = next((k for key, k in known.items() if key in f), None)
        if hit:
            if hit["what"] not in known_lines:
                known_lines.append(hit["what"])
        else:
            new.append(f)
    out = {"status": "violation" if new else "ok", "evaluations": evaluations, "distinct_nontrivial": len(distinct),
           "rule": "digraphs on <= 4 nodes (<= 4 edges) x permutations x nesting {0,1,2} x stale-use {no,yes}; quick: n <= 3 exhaustive + 3000 "
                   "sampled n = 4; distinct = distinct (graph, permutation, nesting) cases; bounded, not a proof",
           "known_findings": known_lines, "samples": samples, "failures": new[:12], "wall_s": round(time.time() - t0, 2)}
    if new:
        os.makedirs(os.path.join(ROOT, "out", "replay"), exist_ok=True)
        path = os.path.join(ROOT, "out", "replay", "C12_bounded.json")
        json.dump({"property": "C12", "kind": "script",
                   "script": "import subprocess, sys, json\nr = subprocess.run([sys.executable, %r, '--tier', %r, '--seed', %r], capture_output=True, text=True)\n"
                             "d = json.loads(r.stdout.strip().splitlines()[-1])\nVIOLATED = d['status'] == 'violation'\nDETAIL = '\\n'.join(d.get('failures', []))\n"
                             % (os.path.abspath(__file__), a.tier, str(a.seed)), "failures": new[:12]}, open(path, "w"), indent=1)
        out["replay"] = path
    print(json.dumps(out))


if __name__ == "__main__":
    main()
