"""Replay a counterexample against the real code (run under /venv/bin/python, PYTHONPATH=<repo>/src).

exit 1: the real code violates the postcondition on this input (confirmed)
exit 0: the real code satisfies it (the counter-model was an artefact)     exit 2: replay could not run
"""
import importlib
import json
import sys
import traceback


def implies(a, b):
    return (not a) or bool(b)


def iff(a, b):
    return bool(a) == bool(b)


def main():
    path = sys.argv[1]
    with open(path) as f:
        rp = json.load(f)
    kind = rp.get("kind")
    if kind == "pure_call":
        mod = importlib.import_module(rp["module"])
        fn = mod
        for part in rp["function"].split("."):
            fn = getattr(fn, part)
        args = rp.get("args", [])
        kwargs = rp.get("kwargs", {})
        env = dict(rp.get("env", {}))
        env.update({"implies": implies, "iff": iff})
        for r in rp.get("requires", []):
            if not eval(r, env):
                print("precondition does not hold on the candidate input:", r)
                return 0
        try:
            result = fn(*args, **kwargs)
            raised = None
        except Exception as e:  # noqa: BLE001
            result, raised = None, e
        env["result"] = result
        print("input:", args, kwargs, "-> result:", result, "raised:", repr(raised))
        if raised is not None:
            if rp.get("may_raise", False):
                return 0
            print("REPLAY: unexpected exception", repr(raised))
            return 1
        bad = [s for s in rp.get("ensures", []) if not eval(s, env)]
        if bad:
            print("REPLAY: postcondition violated on the real code:", bad)
            return 1
        print("REPLAY: postcondition holds on the real code")
        return 0
    if kind == "script":
        g = {"__name__": "__replay__", "implies": implies, "iff": iff}
        exec(compile(rp["script"], path, "exec"), g)
        print(g.get("DETAIL", ""))
        return 1 if g.get("VIOLATED") else 0
    print("no executable replay in this file (obligation:", rp.get("obligation"), ")")
    return 2


if __name__ == "__main__":
    try:
        sys.exit(main())
    except SystemExit:
        raise
    except Exception:  # noqa: BLE001
        traceback.print_exc()
        sys.exit(2)
