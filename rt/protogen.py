"""Seeded generator of well-formed ONNX protos over the supported feature set (used by the C02/C03/C17 bounded stand-ins)."""
import numpy as np
import onnx
from onnx import AttributeProto, TensorProto, TypeProto, helper

DTYPES_RAW = [TensorProto.FLOAT, TensorProto.UINT8, TensorProto.INT8, TensorProto.UINT16, TensorProto.INT16, TensorProto.INT32, TensorProto.INT64,
              TensorProto.BOOL, TensorProto.FLOAT16, TensorProto.DOUBLE, TensorProto.UINT32, TensorProto.UINT64, TensorProto.COMPLEX64,
              TensorProto.COMPLEX128, TensorProto.BFLOAT16, TensorProto.FLOAT8E4M3FN, TensorProto.FLOAT8E4M3FNUZ, TensorProto.FLOAT8E5M2,
              TensorProto.FLOAT8E5M2FNUZ, TensorProto.UINT4, TensorProto.INT4, TensorProto.FLOAT4E2M1]
for _n in ("FLOAT8E8M0", "UINT2", "INT2"):
    if hasattr(TensorProto, _n):
        DTYPES_RAW.append(getattr(TensorProto, _n))
ITEMSIZE = {TensorProto.FLOAT: 4, TensorProto.UINT8: 1, TensorProto.INT8: 1, TensorProto.UINT16: 2, TensorProto.INT16: 2, TensorProto.INT32: 4,
            TensorProto.INT64: 8, TensorProto.BOOL: 1, TensorProto.FLOAT16: 2, TensorProto.DOUBLE: 8, TensorProto.UINT32: 4, TensorProto.UINT64: 8,
            TensorProto.COMPLEX64: 8, TensorProto.COMPLEX128: 16, TensorProto.BFLOAT16: 2}


class Gen:
    def __init__(self, rnd, ir_version):
        self.r = rnd
        self.ir = ir_version
        self.k = 0

    def fresh(self, p="v"):
        self.k += 1
        return f"{p}{self.k}"

    def maybe(self, p=0.5):
        return self.r.random() < p

    # ---- tensors
    def tensor(self, name=None, allow_external=True):
        r = self.r
        t = TensorProto()
        if name is not None:
            t.name = name
        elif self.maybe(0.7):
            t.name = self.fresh("t")
        kind = r.choice(["raw", "raw", "float_data", "int32_data", "int64_data", "uint64_data", "double_data", "string_data", "external", "int32_packed"])
        if kind == "external" and not allow_external:
            kind = "raw"
        dims = r.choice([[], [0], [1], [2], [2, 3], [1, 2, 2]])
        n = int(np.prod(dims)) if dims else 1
        t.dims.extend(dims)
        if kind == "raw":
            dt = r.choice(DTYPES_RAW)
            t.data_type = dt
            if dt in ITEMSIZE:
                nbytes = n * ITEMSIZE[dt]
            elif dt in (getattr(TensorProto, "UINT2", -1), getattr(TensorProto, "INT2", -1)):
                nbytes = (n + 3) // 4
            elif dt in (TensorProto.UINT4, TensorProto.INT4, TensorProto.FLOAT4E2M1):
                nbytes = (n + 1) // 2
            else:
                nbytes = n
            t.raw_data = bytes(r.randrange(256) if dt != TensorProto.BOOL else r.randrange(2) for _ in range(nbytes))
        elif kind == "float_data":
            dt = r.choice([TensorProto.FLOAT, TensorProto.COMPLEX64])
            t.data_type = dt
            t.float_data.extend(float(r.randrange(-4, 5)) / 2 for _ in range(n * (2 if dt == TensorProto.COMPLEX64 else 1)))
        elif kind == "int32_data":
            dt = r.choice([TensorProto.INT32, TensorProto.INT16, TensorProto.INT8, TensorProto.UINT16, TensorProto.UINT8, TensorProto.BOOL,
                           TensorProto.FLOAT16, TensorProto.BFLOAT16, TensorProto.FLOAT8E4M3FN, TensorProto.FLOAT8E5M2])
            t.data_type = dt
            hi = {TensorProto.BOOL: 2, TensorProto.INT8: 100, TensorProto.UINT8: 200, TensorProto.FLOAT8E4M3FN: 120, TensorProto.FLOAT8E5M2: 120}.get(dt, 1000)
            t.int32_data.extend(r.randrange(0, hi) for _ in range(n))
        elif kind == "int32_packed":
            dt = r.choice([TensorProto.UINT4, TensorProto.INT4])
            t.data_type = dt
            t.int32_data.extend(r.randrange(0, 256) for _ in range((n + 1) // 2))
        elif kind == "int64_data":
            t.data_type = TensorProto.INT64
            t.int64_data.extend(r.randrange(-5, 2 ** 40) for _ in range(n))
        elif kind == "uint64_data":
            dt = r.choice([TensorProto.UINT64, TensorProto.UINT32])
            t.data_type = dt
            t.uint64_data.extend(r.randrange(0, 2 ** 31) for _ in range(n))
        elif kind == "double_data":
            dt = r.choice([TensorProto.DOUBLE, TensorProto.COMPLEX128])
            t.data_type = dt
            t.double_data.extend(float(r.randrange(-4, 5)) / 4 for _ in range(n * (2 if dt == TensorProto.COMPLEX128 else 1)))
        elif kind == "string_data":
            t.data_type = TensorProto.STRING
            t.string_data.extend(r.choice([b"", b"a", b"\xff\x00", "é".encode()]) for _ in range(n))
        else:
            t.data_type = r.choice([TensorProto.FLOAT, TensorProto.INT8, TensorProto.BFLOAT16])
            t.data_location = TensorProto.EXTERNAL
            entries = [("location", r.choice(["w.bin", "sub/dir/w.bin", "weights.data"]))]
            if self.maybe(0.7):
                entries.append(("offset", str(r.choice([0, 4096, 64]))))
            if self.maybe(0.7):
                entries.append(("length", str(r.choice([0, 8, 1024]))))
            for k, v in entries:
                e = t.external_data.add()
                e.key, e.value = k, v
        if self.maybe(0.3):
            t.doc_string = "tensor doc " + self.fresh("d")
        if self.ir >= 10 and self.maybe(0.3):
            for k in r.sample(["m_b", "m_a", "m_c"], r.randint(1, 2)):
                e = t.metadata_props.add()
                e.key, e.value = k, "val_" + k
        return t

    # ---- types
    def dim(self, d):
        kind = self.r.choice(["value", "param", "unset"])
        if kind == "value":
            d.dim_value = self.r.choice([0, 1, 3, 224])
        elif kind == "param":
            d.dim_param = self.r.choice(["N", "batch", "seq_len", "N + 1", "2*N"])
        if self.maybe(0.25):
            d.denotation = self.r.choice(["DATA_BATCH", "DATA_CHANNEL", "x"])

    def type(self, depth=0):
        tp = TypeProto()
        kind = self.r.choice(["tensor"] * 4 + ["sparse", "sequence", "optional"]) if depth < 3 else "tensor"
        if kind in ("tensor", "sparse"):
            tt = tp.tensor_type if kind == "tensor" else tp.sparse_tensor_type
            tt.elem_type = self.r.choice([TensorProto.FLOAT, TensorProto.INT64, TensorProto.BOOL, TensorProto.STRING, TensorProto.BFLOAT16, TensorProto.UINT4])
            if self.maybe(0.8):
                rank = self.r.choice([0, 1, 2, 3])
                if rank == 0:
                    tt.shape.SetInParent()
                for _ in range(rank):
                    self.dim(tt.shape.dim.add())
        elif kind == "sequence":
            tp.sequence_type.elem_type.CopyFrom(self.type(depth + 1))
        else:
            tp.optional_type.elem_type.CopyFrom(self.type(depth + 1))
        if self.maybe(0.2):
            tp.denotation = self.r.choice(["TENSOR", "IMAGE", "den"])
        return tp

    def value_info(self, name, typed=None):
        vi = onnx.ValueInfoProto()
        vi.name = name
        if typed if typed is not None else self.maybe(0.85):
            vi.type.CopyFrom(self.type())
        if self.maybe(0.2):
            vi.doc_string = "doc of " + name
        if self.ir >= 10 and self.maybe(0.2):
            e = vi.metadata_props.add()
            e.key, e.value = "vk", "vv" + name
        return vi

    # ---- attributes
    def attribute(self, name, scope, depth, in_function_params=()):
        r = self.r
        a = AttributeProto()
        a.name = name
        kinds = ["f", "i", "s", "t", "floats", "ints", "strings", "tensors", "tp", "tps"]
        if depth < 2:
            kinds += ["g", "graphs"]
        if in_function_params and self.maybe(0.3):
            a.ref_attr_name = r.choice(list(in_function_params))
            a.type = r.choice([AttributeProto.FLOAT, AttributeProto.INT, AttributeProto.STRING, AttributeProto.INTS, AttributeProto.TENSOR])
            if self.maybe(0.3):
                a.doc_string = "ref doc"
            return a
        k = r.choice(kinds)
        if k == "f":
            a.type, a.f = AttributeProto.FLOAT, r.choice([0.0, 1.5, -2.25])
        elif k == "i":
            a.type, a.i = AttributeProto.INT, r.choice([0, 1, -7, 2 ** 40])
        elif k == "s":
            a.type, a.s = AttributeProto.STRING, r.choice([b"", b"abc", "é".encode(), "名前".encode()])      # the spec makes attribute strings UTF-8
        elif k == "t":
            a.type = AttributeProto.TENSOR
            a.t.CopyFrom(self.tensor())
        elif k == "floats":
            a.type = AttributeProto.FLOATS
            a.floats.extend([0.5, -1.0][: r.randint(0, 2)])
        elif k == "ints":
            a.type = AttributeProto.INTS
            a.ints.extend([1, 2, 3][: r.randint(0, 3)])
        elif k == "strings":
            a.type = AttributeProto.STRINGS
            a.strings.extend([b"a", b"", "ü".encode()][: r.randint(0, 3)])
        elif k == "tensors":
            a.type = AttributeProto.TENSORS
            for _ in range(r.randint(0, 2)):
                a.tensors.add().CopyFrom(self.tensor())
        elif k == "tp":
            a.type = AttributeProto.TYPE_PROTO
            a.tp.CopyFrom(self.type())
        elif k == "tps":
            a.type = AttributeProto.TYPE_PROTOS
            for _ in range(r.randint(0, 2)):
                a.type_protos.add().CopyFrom(self.type())
        elif k == "g":
            a.type = AttributeProto.GRAPH
            a.g.CopyFrom(self.graph(scope, depth + 1))
        else:
            a.type = AttributeProto.GRAPHS
            for _ in range(r.randint(1, 2)):
                a.graphs.add().CopyFrom(self.graph(scope, depth + 1))
        if self.maybe(0.2):
            a.doc_string = "attr doc " + name
        return a

    # ---- graphs
    def graph(self, outer_scope=(), depth=0, fparams=(), n_nodes=None, as_function=False):
        r = self.r
        g = onnx.GraphProto()
        g.name = self.fresh("g")
        if self.maybe(0.3):
            g.doc_string = "graph doc"
        scope = list(outer_scope)
        own = []
        for _ in range(r.randint(0 if depth else 1, 2)):
            nm = self.fresh("in")
            g.input.add().CopyFrom(self.value_info(nm))
            own.append(nm)
        init_names = []
        for _ in range(r.randint(0, 2)):
            nm = self.fresh("w")
            g.initializer.add().CopyFrom(self.tensor(nm))
            own.append(nm)
            init_names.append(nm)
        if init_names and self.maybe(0.3):
            # an initializer that is also a graph input
            g.input.add().CopyFrom(self.value_info(init_names[0]))
        produced = []
        n_nodes = r.randint(1, 4) if n_nodes is None else n_nodes
        for ni in range(n_nodes):
            n = g.node.add()
            n.op_type = r.choice(["Add", "Relu", "Custom", "If", "Loop"])
            n.domain = r.choice(["", "", "ai.onnx", "custom.domain"])
            if self.maybe(0.7):
                n.name = self.fresh("node")
            if self.ir >= 10 and n.domain == "custom.domain" and self.maybe(0.3):
                n.overload = "ov1"
            avail = scope + own + produced
            for _ in range(r.randint(0, 3)):
                n.input.append(r.choice(avail + [""]) if avail else "")
            while len(n.input) and n.input[-1] == "":
                del n.input[-1]
            outs = r.randint(1, 3)
            names = [self.fresh("o") for _ in range(outs)]
            if outs >= 2 and self.maybe(0.3):
                names[r.randrange(outs - 1)] = ""            # an optional output in the middle
            n.output.extend(names)
            produced += [x for x in names if x]
            for ai in range(r.randint(0, 3)):
                n.attribute.add().CopyFrom(self.attribute(f"attr{ai}", avail, depth, fparams))
            if self.maybe(0.2):
                n.doc_string = "node doc"
            if self.ir >= 10 and self.maybe(0.25):
                e = n.metadata_props.add()
                e.key, e.value = "nk", "nv"
        # outputs: produced values (or an input passed through)
        cands = produced or own
        for nm in r.sample(cands, min(len(cands), r.randint(1, 2))):
            g.output.add().CopyFrom(self.value_info(nm))
        # value_info for some intermediate values (only referenced ones)
        used = {i for n in g.node for i in n.input if i} | {o.name for o in g.output}
        for nm in produced:
            if nm in used and nm not in {o.name for o in g.output} and self.maybe(0.4):
                g.value_info.add().CopyFrom(self.value_info(nm, typed=True))
        if self.ir >= 10 and self.maybe(0.3):
            for k in ("gk2", "gk1"):
                e = g.metadata_props.add()
                e.key, e.value = k, "gv"
        if self.maybe(0.2) and produced:
            qa = g.quantization_annotation.add()
            qa.tensor_name = r.choice(produced + own)
            e = qa.quant_parameter_tensor_names.add()
            e.key, e.value = "SCALE_TENSOR", r.choice(own + produced)
        return g

    def function(self, idx, overload=""):
        r = self.r
        f = onnx.FunctionProto()
        f.name = f"Fn{idx}"
        f.domain = "custom.domain"
        if overload:
            f.overload = overload
        params = ["alpha", "beta"][: r.randint(0, 2)]
        f.attribute.extend(params)
        if self.maybe(0.4):
            ap = f.attribute_proto.add()
            ap.name, ap.type, ap.f = "gamma", AttributeProto.FLOAT, 1.0
        body = self.graph((), depth=1, fparams=params + (["gamma"] if len(f.attribute_proto) else []))
        ins = [vi.name for vi in body.input if vi.name not in {t.name for t in body.initializer}]
        # functions have no initializers: turn them into inputs
        ins += [t.name for t in body.initializer if t.name not in ins]
        f.input.extend(ins)
        f.output.extend(o.name for o in body.output)
        f.node.extend(body.node)
        f.opset_import.add(domain="", version=18)
        f.opset_import.add(domain="custom.domain", version=1)
        if self.maybe(0.3):
            f.doc_string = "function doc"
        if self.ir >= 10 and self.maybe(0.4):
            for vi in body.value_info:
                f.value_info.add().CopyFrom(vi)
        if self.ir >= 10 and self.maybe(0.3):
            e = f.metadata_props.add()
            e.key, e.value = "fk", "fv"
        return f

    def model(self):
        r = self.r
        m = onnx.ModelProto()
        m.ir_version = self.ir
        m.graph.CopyFrom(self.graph())
        m.opset_import.add(domain=r.choice(["", "ai.onnx"]), version=r.choice([13, 18, 21]))
        m.opset_import.add(domain="custom.domain", version=1)
        if self.maybe(0.5):
            m.producer_name, m.producer_version = "gen", "1.2"
        if self.maybe(0.3):
            m.domain, m.model_version, m.doc_string = "org.test", 7, "model doc"
        if self.maybe(0.4):
            for k in ("zk", "ak"):
                e = m.metadata_props.add()
                e.key, e.value = k, "mv" + k
        if self.ir >= 8:
            nf = r.randint(0, 2)
            for i in range(nf):
                m.functions.add().CopyFrom(self.function(i))
            if nf and self.ir >= 10 and self.maybe(0.4):
                m.functions.add().CopyFrom(self.function(0, overload="ov1"))
        if self.ir >= 11 and self.maybe(0.6) and hasattr(m, "configuration"):
            cfg = m.configuration.add()
            cfg.name = "tp"
            cfg.num_devices = 2
            cfg.device.extend(["d0", "d1"])
            for n in m.graph.node:
                if self.maybe(0.5) and (n.input or n.output):
                    nc = n.device_configurations.add()
                    nc.configuration_id = "tp"
                    if self.maybe(0.5):
                        nc.pipeline_stage = r.choice([0, 1])
                    tn = r.choice([x for x in list(n.input) + list(n.output) if x] or [""])
                    if tn:
                        ss = nc.sharding_spec.add()
                        ss.tensor_name = tn
                        ss.device.extend([0, 1])
                        sd = ss.sharded_dim.add()
                        sd.axis = r.choice([0, 1, -1])
                        sim = sd.simple_sharding.add()
                        if self.maybe(0.5):
                            sim.dim_value = 4
                        else:
                            sim.dim_param = "N"
                        sim.num_shards = 2
        return m


def models(rnd, count, ir_versions=range(3, 14)):
    irs = list(ir_versions)
    for i in range(count):
        ir = irs[i % len(irs)]
        yield ir, Gen(rnd, ir).model()
