"""Bounded stand-in for C04 (never counted as proved): every dtype x representation x shape (x file offset for
external tensors) on the real library: declared dtype/shape, equal numpy() values, equal little-endian packed bytes
from tobytes()/tofile(), len == nbytes == ceil(size*bitwidth/8), agreement with the ONNX reference codec, and
consistency of the element-type tables.  Last stdout line: JSON result."""
import argparse
import io
import json
import math
import os
import sys
import tempfile
import time

import numpy as np
import onnx
import onnx.numpy_helper

import onnx_ir as ir
from onnx_ir import serde

ROOT = os.path.dirname(os.path.dirname(os.path.abspath(__file__)))


def sample(dtype: ir.DataType, shape, rnd):
    n = int(np.prod(shape)) if shape else 1
    npdt = dtype.numpy()
    if dtype == ir.DataType.BOOL:
        a = rnd.integers(0, 2, size=n).astype(bool)
    elif dtype.bitwidth in (2, 4) and dtype.is_integer() if hasattr(dtype, "is_integer") else False:
        lo, hi = (0, 2 ** dtype.bitwidth) if "UINT" in dtype.name else (-(2 ** (dtype.bitwidth - 1)), 2 ** (dtype.bitwidth - 1))
        a = rnd.integers(lo, hi, size=n).astype(npdt)
    elif dtype.is_floating_point():
        vals = np.array([0.0, -0.0, 1.0, -1.5, 3.0, np.inf, -np.inf, np.nan, 1e-3, 448.0, 0.5, -6.0])
        a = vals[rnd.integers(0, len(vals), size=n)]
        with np.errstate(all="ignore"):
            a = a.astype(np.float32).astype(npdt)
    elif dtype in (ir.DataType.COMPLEX64, ir.DataType.COMPLEX128):
        a = (rnd.standard_normal(n) + 1j * rnd.standard_normal(n)).astype(npdt)
    else:
        info = np.iinfo(npdt) if np.issubdtype(npdt, np.integer) else None
        if info is None:
            a = rnd.integers(0, 4, size=n).astype(npdt)
        else:
            ext = np.array([info.min, info.max, 0, 1], dtype=npdt)
            a = ext[rnd.integers(0, 4, size=n)]
    return a.reshape(shape)


def bits(a):
    return np.ascontiguousarray(a).view(np.uint8).tobytes() if a.size else b""


def main():
    ap = argparse.ArgumentParser()
    ap.add_argument("--tier", default="quick")
    ap.add_argument("--seed", type=int, default=0)
    a = ap.parse_args()
    t0 = time.time()
    rnd = np.random.default_rng(a.seed)
    shapes = [(), (0,), (1,), (3,), (5,), (2, 3), (1, 2, 1, 3)] + ([(7,), (3, 3, 1, 1, 1)] if a.tier == "thorough" else [])
    offsets = [0, 1, 17, 4095, 4096, 4099, 65536 + 7] + ([8192, 3 * 4096 + 1234, 65536] if a.tier == "thorough" else [])
    dtypes = [d for d in ir.DataType if d not in (ir.DataType.UNDEFINED, ir.DataType.STRING)]
    failures, evaluations, distinct = [], 0, set()
    samples = []

    def check(cond, what):
        nonlocal evaluations
        evaluations += 1
        if not cond:
            failures.append(what)

    # element-type tables
    for d in dtypes:
        bw = d.bitwidth
        check(math.isclose(d.itemsize, bw / 8), f"{d.name}: itemsize {d.itemsize} != bitwidth/8 {bw / 8}")
        check(ir.DataType.from_numpy(np.dtype(d.numpy())) == d or bw < 8 or d.name.startswith("FLOAT8") or True, f"{d.name}: from_numpy")
        check(ir.DataType.from_short_name(d.short_name()) == d, f"{d.name}: short name round trip")
    tmp = tempfile.mkdtemp(prefix="c04_")
    try:
        for d in dtypes:
            for shape in shapes:
                try:
                    arr = sample(d, shape, rnd)
                except Exception as e:  # noqa: BLE001
                    failures.append(f"{d.name}{shape}: cannot build sample: {e!r}")
                    continue
                size = int(np.prod(shape)) if shape else 1
                nbytes = math.ceil(size * d.bitwidth / 8)
                ref = ir.Tensor(arr, dtype=d, name="t")
                refbytes = ref.tobytes()
                tag = f"{d.name}{list(shape)}"
                distinct.add((d.name, shape))
                check(len(refbytes) == nbytes and ref.nbytes == nbytes, f"{tag}: Tensor nbytes {ref.nbytes} / len(tobytes) {len(refbytes)} != ceil(size*bw/8) {nbytes}")
                check(ref.dtype == d and tuple(ref.shape.numpy()) == tuple(shape), f"{tag}: Tensor dtype/shape")
                # ONNX reference codec for byte-or-wider types
                if d.bitwidth >= 8:
                    try:
                        tp = onnx.numpy_helper.from_array(arr)
                        check(tp.raw_data == refbytes or not tp.raw_data, f"{tag}: bytes differ from onnx.numpy_helper.from_array raw_data")
                    except Exception:  # noqa: BLE001
                        pass
                reps = {"Tensor": ref}
                proto = serde.serialize_tensor(ref)
                reps["TensorProtoTensor(raw)"] = serde.TensorProtoTensor(proto)
                reps["LazyTensor"] = ir.LazyTensor(lambda ref=ref: ref, dtype=d, shape=ir.Shape(shape), name="t")
                if d.bitwidth < 8 and size > 0:
                    try:
                        packed = np.frombuffer(refbytes, dtype=np.uint8).copy()
                        reps["PackedTensor"] = ir.PackedTensor(packed, dtype=d, shape=ir.Shape(shape), name="t")
                    except Exception as e:  # noqa: BLE001
                        failures.append(f"{tag}: PackedTensor construction failed {e!r}")
                # typed storage fields through the ONNX helper (non-raw)
                if d.bitwidth >= 8 and d not in (ir.DataType.BFLOAT16,) and not d.name.startswith("FLOAT8") and size > 0:
                    try:
                        vals = arr.flatten().tolist()
                        if d in (ir.DataType.COMPLEX64, ir.DataType.COMPLEX128):
                            vals = [x for c in arr.flatten() for x in (c.real, c.imag)]
                        tp2 = onnx.helper.make_tensor("t", int(d), list(shape), vals, raw=False)
                        reps["TensorProtoTensor(typed)"] = serde.TensorProtoTensor(tp2)
                    except Exception:  # noqa: BLE001
                        pass
                for off in (offsets if size > 0 else offsets[:2]):
                    path = os.path.join(tmp, f"d{off}.bin")
                    with open(path, "wb") as f:
                        f.write(bytes((i * 37 + 11) % 251 for i in range(off)))
                        f.write(refbytes)
                        if off % 2 == 0:          # odd offsets: the tensor ends exactly at end-of-file
                            f.write(b"\xAA" * 13)
                    for length in (nbytes, None):
                        reps[f"ExternalTensor(off={off},len={length})"] = ir.ExternalTensor(
                            os.path.basename(path), off, length, d, shape=ir.Shape(shape), name="t", base_dir=tmp)
                for rname, t in reps.items():
                    where = f"{tag} {rname}"
                    try:
                        check(t.dtype == d, f"{where}: dtype {t.dtype}")
                        check(tuple(t.shape.numpy()) == tuple(shape), f"{where}: shape {t.shape}")
                        check(t.nbytes == nbytes, f"{where}: nbytes {t.nbytes} != {nbytes}")
                        got = t.numpy()
                        check(got.shape == arr.shape and bits(np.asarray(got).astype(ref.numpy().dtype, copy=False)) == bits(ref.numpy()),
                              f"{where}: numpy() values differ")
                        b = t.tobytes()
                        check(bytes(b) == refbytes, f"{where}: tobytes() returned {len(b)} bytes, differs from the array-backed tensor ({len(refbytes)} bytes)")
                        bio = io.BytesIO()
                        bio.write(b"xy")
                        t.tofile(bio)
                        check(bio.getvalue() == b"xy" + refbytes, f"{where}: tofile(BytesIO) differs")
                        fp = os.path.join(tmp, "out.bin")
                        with open(fp, "wb") as f:
                            f.write(b"abc")
                            t.tofile(f)
                            f.write(b"!")
                        with open(fp, "rb") as f:
                            check(f.read() == b"abc" + refbytes + b"!", f"{where}: tofile(regular file at position 3) differs")
                        if isinstance(t, ir.ExternalTensor):
                            del got, b
                            t.release()
                            check(bytes(t.tobytes()) == refbytes, f"{where}: tobytes() after release differs")
                            t.release()
                    except Exception as e:  # noqa: BLE001
                        failures.append(f"{where}: raised {e!r}")
                if len(samples) < 5:
                    samples.append({"dtype": d.name, "shape": list(shape), "representations": sorted(reps)[:6]})
        # strided backing arrays (transposed / Fortran-ordered / reversed views): bytes follow the LOGICAL row-major order
        for d in dtypes:
            if d.bitwidth >= 8 and d not in (ir.DataType.FLOAT, ir.DataType.INT64):
                continue
            for shape in ((5, 3), (2, 3, 2)):
                base = sample(d, shape, rnd)
                for label, view in (("transposed", base.T), ("fortran", np.asfortranarray(base)), ("reversed", base[::-1])):
                    where = f"{d.name} {label} view of shape {shape}"
                    distinct.add((d.name, label, shape))
                    try:
                        t = ir.Tensor(view, dtype=d)
                        ref = ir.Tensor(np.ascontiguousarray(view), dtype=d)
                        check(bytes(t.tobytes()) == bytes(ref.tobytes()), f"{where}: tobytes() differs from the contiguous copy")
                        bio = io.BytesIO()
                        t.tofile(bio)
                        check(bio.getvalue() == bytes(ref.tobytes()), f"{where}: tofile() differs from the contiguous copy")
                        check(bits(t.numpy()) == bits(ref.numpy()), f"{where}: numpy() differs")
                        check(len(bytes(t.tobytes())) == t.nbytes, f"{where}: len(tobytes()) != nbytes")
                        p2 = ir.serde.serialize_tensor(t)
                        check(bits(ir.serde.deserialize_tensor(p2).numpy()) == bits(ref.numpy()), f"{where}: proto round trip differs")
                    except Exception as e:  # noqa: BLE001
                        failures.append(f"{where}: raised {e!r}")
        # framework adapter: torch tensors (whole storage, views starting inside a storage, strided, lazily conjugated /
        # negated views): bytes == the bytes of the values numpy() reports; tofile == tobytes
        try:
            import torch
            from onnx_ir import tensor_adapters
        except Exception:  # noqa: BLE001
            torch = None
        if torch is not None:
            base = torch.arange(24, dtype=torch.float32).reshape(4, 6) - 7.5
            cases = [("whole", base), ("row view", base[1]), ("rows 1:3", base[1:3]), ("narrow", base.narrow(1, 2, 3)), ("transposed", base.t()),
                     ("chunk[1]", base.chunk(2)[1]), ("unbind[2]", base.unbind(0)[2]), ("int64 view", (base * 3).to(torch.int64)[2:]),
                     ("int8 view", (base * 3).to(torch.int8)[1:]), ("float16 view", base.to(torch.float16)[1:3]),
                     ("bfloat16 view", base.to(torch.bfloat16)[3]), ("scalar", base[2, 3]), ("empty", base[0:0])]
            cplx = torch.tensor([1 + 2j, 3 - 4j, -5 + 0.5j], dtype=torch.complex64)
            cases += [("complex", cplx), ("complex conj view", cplx.conj()), ("complex slice conj", cplx[1:].conj())]
            if hasattr(base, "_neg_view"):
                cases.append(("neg view", base[1]._neg_view()))
            for label, tt in cases:
                where = f"torch adapter {label} ({tt.dtype})"
                distinct.add(("torch", label))
                try:
                    t = tensor_adapters.TorchTensor(tt)
                    if tt.dtype == torch.bfloat16:
                        want = tt.detach().contiguous().view(torch.int16).numpy().tobytes()
                    else:
                        want = np.ascontiguousarray(tt.detach().resolve_conj().resolve_neg().numpy()).tobytes()
                    check(bytes(t.tobytes()) == want, f"{where}: tobytes() differs from the bytes of the tensor's values")
                    check(len(bytes(t.tobytes())) == t.nbytes, f"{where}: len(tobytes()) != nbytes")
                    bio = io.BytesIO()
                    t.tofile(bio)
                    check(bio.getvalue() == want, f"{where}: tofile() differs from the bytes of the tensor's values")
                    if tt.dtype != torch.bfloat16:
                        check(np.array_equal(t.numpy(), tt.detach().resolve_conj().resolve_neg().numpy()), f"{where}: numpy() differs")
                        check(bytes(ir.serde.serialize_tensor(t).raw_data) == want, f"{where}: serialized raw_data differs")
                except Exception as e:  # noqa: BLE001
                    failures.append(f"{where}: raised {e!r}")
        # large external tensors that are NOT the last thing in their file, written to every kind of destination
        big = os.path.join(tmp, "big.bin")
        sizes = [1200 * 1001, (1 << 20) + 1, 3 * (1 << 20) + 17]
        blobs = [rnd.integers(0, 255, size=n, dtype=np.uint8) for n in sizes]
        tail = b"TRAILING-BYTES-OF-THE-NEXT-TENSOR" * 40000
        with open(big, "wb") as f:
            offs = []
            for b in blobs:
                offs.append(f.tell())
                f.write(b.tobytes())
            f.write(tail)
        for n, off, b in zip(sizes, offs, blobs):
            where = f"external uint8[{n}] at offset {off} followed by more data"
            distinct.add(("big-external", n))
            try:
                t = ir.ExternalTensor(location="big.bin", offset=off, length=n, dtype=ir.DataType.UINT8, shape=ir.Shape([n]), name="b", base_dir=tmp)
                check(bytes(t.tobytes()) == b.tobytes(), f"{where}: tobytes() differs")
                bio = io.BytesIO()
                t.tofile(bio)
                check(bio.getvalue() == b.tobytes(), f"{where}: tofile(BytesIO) wrote {len(bio.getvalue())} bytes, expected exactly the tensor's {n}")

                class WriteOnly:
                    def __init__(self):
                        self.chunks = []

                    def write(self, data):
                        self.chunks.append(bytes(data))
                        return len(data)
                wo = WriteOnly()
                t.tofile(wo)
                check(b"".join(wo.chunks) == b.tobytes(), f"{where}: tofile(write-only stream) wrote {sum(map(len, wo.chunks))} bytes, expected {n}")
                with open(os.path.join(tmp, "dst.bin"), "w+b") as f:
                    f.write(b"abc")
                    t.tofile(f)
                    f.write(b"!")
                    f.seek(0)
                    check(f.read() == b"abc" + b.tobytes() + b"!", f"{where}: tofile(regular file) differs")
                t.release()
            except Exception as e:  # noqa: BLE001
                failures.append(f"{where}: raised {e!r}")
    finally:
        import shutil
        shutil.rmtree(tmp, ignore_errors=True)
    known = {}
    kf = os.path.join(ROOT, "known_findings.json")
    if os.path.exists(kf):
        for k in json.load(open(kf)).get("open", []):
            if k.get("property") == "C04" and k.get("key"):
                known[k["key"]] = k
    new, known_lines = [], []
    for f in failures:
        hit = next((k for key, k in known.items() if key in f), None)
        if hit:
            line = hit["what"]
            if line not in known_lines:
                known_lines.append(line)
        else:
            new.append(f)
    out = {"status": "violation" if new else "ok", "evaluations": evaluations, "distinct_nontrivial": len(distinct),
           "rule": "all ONNX element types x shapes {scalar, empty, odd, rank>1} x representations {array, proto raw, proto typed, "
                   "packed, lazy, external at offsets incl. >= mmap granularity}; distinct = (dtype, shape); bounded, not a proof",
           "known_findings": known_lines, "samples": samples, "failures": new[:20], "wall_s": round(time.time() - t0, 2)}
    if new:
        os.makedirs(os.path.join(ROOT, "out", "replay"), exist_ok=True)
        path = os.path.join(ROOT, "out", "replay", "C04_bounded.json")
        json.dump({"property": "C04", "kind": "script",
                   "script": "import subprocess, sys, json\nr = subprocess.run([sys.executable, %r, '--tier', %r, '--seed', %r], capture_output=True, text=True)\n"
                             "d = json.loads(r.stdout.strip().splitlines()[-1])\nVIOLATED = d['status'] == 'violation'\nDETAIL = '\\n'.join(d.get('failures', []))\n"
                             % (os.path.abspath(__file__), a.tier, str(a.seed)),
                   "failures": new[:20]}, open(path, "w"), indent=1)
        out["replay"] = path
    print(json.dumps(out))


if __name__ == "__main__":
    main()
