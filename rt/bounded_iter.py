"""Bounded stand-in for C11 (never counted as proved): random interleavings of iterator steps (several iterators, both
directions, created early and stepped late) with append / extend / insert_before / insert_after / remove / move / sort on
a real Graph, against an executable reference of the statement:

  the list is a sequence of *places*; removing or moving a node leaves its place behind as a tombstone; a new place is put
  immediately after the anchor's place (forward view) / immediately before the successor's place (backward view); an iterator
  is a cursor on a place and a step yields the first live place beyond it.

After every operation: len, list(graph), reversed, indexing and membership agree with the reference; every step of every
iterator yields what the reference yields (or stops when it stops); a yielded node belongs to the graph at that moment.
Last stdout line: JSON."""
import argparse
import json
import os
import random
import sys
import time

import onnx_ir as ir

ROOT = os.path.dirname(os.path.dirname(os.path.abspath(__file__)))


class Place:
    __slots__ = ("node", "live")

    def __init__(self, node):
        self.node, self.live = node, True


class Ref:
    """Executable reference: two orders over the same places (forward and backward views)."""

    def __init__(self, nodes):
        self.fwd = [Place(n) for n in nodes]
        self.bwd = list(self.fwd)
        self.root = Place(None)

    def live(self):
        return [p.node for p in self.fwd if p.live]

    def _place(self, node):
        for p in self.fwd:
            if p.live and p.node is node:
                return p
        return None

    def _kill(self, node):
        p = self._place(node)
        if p is not None:
            p.live = False

    def insert_after(self, anchor, nodes):
        """anchor: a live node or None (= the head sentinel). The k-th new node goes after the (k-1)-th."""
        ap = self.root if anchor is None else self._place(anchor)
        for n in nodes:
            if ap is not self.root and ap.node is n and ap.live:
                continue                                     # inserting a node after itself: nothing moves
            # successor live place of the anchor, before the move
            self._kill(n)
            new = Place(n)
            # forward view: immediately after the anchor's place
            i = -1 if ap is self.root else self.fwd.index(ap)
            self.fwd.insert(i + 1, new)
            # backward view: immediately before the next LIVE place after the anchor (i.e. after the tombstones of the gap)
            j = -1 if ap is self.root else self.bwd.index(ap)
            k = j + 1
            while k < len(self.bwd) and not self.bwd[k].live:
                k += 1
            self.bwd.insert(k, new)
            ap = new

    def prev_live(self, node):
        lv = [p for p in self.fwd if p.live]
        i = [p.node for p in lv].index(node) if any(p.node is node for p in lv) else None
        idx = next(k for k, p in enumerate(lv) if p.node is node)
        return None if idx == 0 else lv[idx - 1].node

    def last_live(self):
        lv = self.live()
        return lv[-1] if lv else None

    def remove(self, node):
        self._kill(node)

    # iterators: cursor is a place (or the root); direction +1 / -1
    def step(self, cur, direction):
        order = self.fwd if direction > 0 else self.bwd
        if direction > 0:
            i = -1 if cur is self.root else order.index(cur)
            for p in order[i + 1:]:
                if p.live:
                    return p
        else:
            i = len(order) if cur is self.root else order.index(cur)
            for p in reversed(order[:i]):
                if p.live:
                    return p
        return None


def fresh(k):
    return ir.Node("", "Op", inputs=[], num_outputs=1, name=f"n{k}")


def run_case(rnd, steps, failures, stats, tag):
    counter = [0]

    def new():
        counter[0] += 1
        return fresh(counter[0])
    n0 = rnd.randint(0, 4)
    nodes = [new() for _ in range(n0)]
    g = ir.Graph([], [], nodes=nodes, name="g")
    ref = Ref(nodes)
    detached = []
    iters = []        # (real iterator, cursor place, direction, exhausted)
    hist = []

    def check_state():
        want = ref.live()
        got = list(g)
        if [id(x) for x in got] != [id(x) for x in want]:
            failures.append(f"{tag}: after {hist}: list(graph) = {[x.name for x in got]}, expected {[x.name for x in want]}")
            return False
        if len(g) != len(want):
            failures.append(f"{tag}: after {hist}: len(graph) = {len(g)}, expected {len(want)}")
            return False
        if [id(x) for x in reversed(g)] != [id(x) for x in reversed(want)]:
            failures.append(f"{tag}: after {hist}: reversed(graph) = {[x.name for x in reversed(g)]}, expected {[x.name for x in reversed(want)]}")
            return False
        for i in range(-len(want), len(want)):
            if g[i] is not want[i]:
                failures.append(f"{tag}: after {hist}: graph[{i}] is {g[i].name}, expected {want[i].name}")
                return False
        return True

    for _ in range(steps):
        stats[0] += 1
        live = ref.live()
        r = rnd.random()
        try:
            if r < 0.12 and len(iters) < 4:
                d = rnd.choice((1, -1))
                iters.append([iter(g) if d > 0 else reversed(g), ref.root, d, False])
                hist.append(f"new {'fwd' if d > 0 else 'bwd'} iterator #{len(iters) - 1}")
            elif r < 0.45 and iters:
                k = rnd.randrange(len(iters))
                it, cur, d, done = iters[k]
                if done:
                    continue
                want = ref.step(cur, d)
                hist.append(f"step #{k}")
                try:
                    got = next(it)
                except StopIteration:
                    got = None
                if want is None:
                    iters[k][3] = True
                    if got is not None:
                        failures.append(f"{tag}: after {hist}: iterator #{k} yields {got.name}, expected it to stop")
                        return
                else:
                    iters[k][1] = want
                    if got is None or got is not want.node:
                        failures.append(f"{tag}: after {hist}: iterator #{k} yields {None if got is None else got.name}, expected {want.node.name}")
                        return
                    if got.graph is not g:
                        failures.append(f"{tag}: after {hist}: iterator #{k} yields {got.name}, which does not belong to the graph")
                        return
            elif r < 0.55:
                n = new()
                hist.append(f"append {n.name}")
                g.append(n)
                ref.insert_after(ref.last_live(), [n])
            elif r < 0.62 and live:
                a = rnd.choice(live)
                ns = [new() for _ in range(rnd.randint(1, 2))]
                hist.append(f"insert_after {a.name} {[x.name for x in ns]}")
                g.insert_after(a, ns)
                ref.insert_after(a, ns)
            elif r < 0.69 and live:
                a = rnd.choice(live)
                ns = [new() for _ in range(rnd.randint(1, 2))]
                hist.append(f"insert_before {a.name} {[x.name for x in ns]}")
                g.insert_before(a, ns)
                ref.insert_after(ref.prev_live(a), ns)
            elif r < 0.80 and live:
                x = rnd.choice(live)
                hist.append(f"remove {x.name}")
                g.remove(x)
                ref.remove(x)
                detached.append(x)
            elif r < 0.88 and len(live) >= 2:
                x, a = rnd.sample(live, 2)
                kind = rnd.choice(("after", "before", "append"))
                hist.append(f"move {x.name} {kind} {a.name}")
                if kind == "after":
                    g.insert_after(a, x)
                    ref.insert_after(a, [x])
                elif kind == "before":
                    g.insert_before(a, x)
                    pl = ref.prev_live(a)
                    if pl is not x:
                        ref.insert_after(pl, [x])
                else:
                    g.append(x)
                    if ref.last_live() is not x:
                        ref.insert_after(ref.last_live(), [x])
            elif r < 0.92 and detached:
                x = detached.pop()
                hist.append(f"re-append {x.name}")
                g.append(x)
                ref.insert_after(ref.last_live(), [x])
            elif r < 0.96 and live:
                hist.append("sort")
                g.sort()
                for x in list(g):          # independent nodes: the order is kept, every node is re-appended in that order
                    if ref.last_live() is not x:
                        ref.insert_after(ref.last_live(), [x])
                    else:
                        # moving the last node after itself keeps its place
                        pass
            elif live:
                xs = rnd.sample(live, min(len(live), 2))
                hist.append(f"extend {[x.name for x in xs]}")
                g.extend(xs)
                for x in xs:
                    if ref.last_live() is not x:
                        ref.insert_after(ref.last_live(), [x])
            else:
                continue
        except Exception as e:  # noqa: BLE001
            failures.append(f"{tag}: after {hist}: raised {e!r}"[:400])
            return
        if not check_state():
            return
    # edits have stopped: every iterator terminates and yields exactly what the reference yields
    for k, (it, cur, d, done) in enumerate(iters):
        if done:
            continue
        for _ in range(200):
            want = ref.step(cur, d)
            try:
                got = next(it)
            except StopIteration:
                got = None
            except Exception as e:  # noqa: BLE001
                failures.append(f"{tag}: after {hist}: draining iterator #{k} raised {e!r}"[:400])
                return
            if (want is None) != (got is None) or (want is not None and got is not want.node):
                failures.append(f"{tag}: after {hist}: draining iterator #{k} yields {None if got is None else got.name}, "
                                f"expected {None if want is None else want.node.name}")
                return
            if want is None:
                break
            cur = want
        else:
            failures.append(f"{tag}: after {hist}: iterator #{k} does not terminate after edits stopped")
            return


def main():
    ap = argparse.ArgumentParser()
    ap.add_argument("--tier", default="quick")
    ap.add_argument("--seed", type=int, default=0)
    a = ap.parse_args()
    t0 = time.time()
    rnd = random.Random(a.seed)
    failures, stats = [], [0]
    cases = 1500 if a.tier == "quick" else 20000
    for c in range(cases):
        run_case(rnd, rnd.randint(4, 14), failures, stats, f"case {c}")
        if len(failures) >= 5:
            break
    out = {"status": "violation" if failures else "ok", "evaluations": stats[0], "distinct_nontrivial": cases,
           "rule": f"{cases} seeded random interleavings (4-14 steps, <= 4 simultaneous iterators, both directions, iterators created early and "
                   "stepped late) of append/extend/insert_before/insert_after/remove/move/sort on graphs of 0-4 initial nodes; distinct = cases; "
                   "bounded, not a proof",
           "known_findings": [], "samples": [{"ops": ["new fwd iterator", "append n1", "step #0", "remove n1", "insert_after ...", "step #0"]}],
           "failures": [f[:500] for f in failures[:10]], "wall_s": round(time.time() - t0, 2)}
    if failures:
        os.makedirs(os.path.join(ROOT, "out", "replay"), exist_ok=True)
        path = os.path.join(ROOT, "out", "replay", "C11_bounded.json")
        json.dump({"property": "C11", "kind": "script",
                   "script": "import subprocess, sys, json\nr = subprocess.run([sys.executable, %r, '--tier', %r, '--seed', %r], capture_output=True, text=True)\n"
                             "d = json.loads(r.stdout.strip().splitlines()[-1])\nVIOLATED = d['status'] == 'violation'\nDETAIL = '\\n'.join(d.get('failures', []))\n"
                             % (os.path.abspath(__file__), a.tier, str(a.seed)), "failures": failures[:10]}, open(path, "w"), indent=1)
        out["replay"] = path
    print(json.dumps(out))


if __name__ == "__main__":
    main()
