"""Bounded stand-in for C13 (never counted as proved): clone models/graphs/functions, check the clone serializes like the
original and shares no graph/node/value/shape/type/metadata container with it (tensors may be shared), then apply every
setter of the statement to one copy and compare a deep snapshot of the other; functionalize(pass) never alters its input.
Last stdout line: JSON."""
import argparse
import json
import os
import sys
import time

sys.path.insert(0, os.path.dirname(os.path.abspath(__file__)))
import onnx_ir as ir  # noqa: E402
import onnx_ir.passes.common as P  # noqa: E402

import models  # noqa: E402

ROOT = os.path.dirname(os.path.dirname(os.path.abspath(__file__)))


def ser(m):
    return ir.to_proto(m).SerializeToString(deterministic=True)


def objects(model):
    """ids of every mutable container an edit can write through."""
    out = {}
    graphs = list(model.graphs()) + [f.graph for f in model.functions.values()]
    for g in graphs:
        out[id(g)] = f"graph {g.name}"
        out[id(g.inputs)] = "inputs"
        out[id(g.outputs)] = "outputs"
        out[id(g.initializers)] = "initializers"
        out[id(g.opset_imports)] = "opset_imports"
        out[id(g.metadata_props)] = "graph metadata_props"
        vals = list(g.inputs) + list(g.initializers.values())
        for n in g:
            out[id(n)] = f"node {n.name}"
            out[id(n.attributes)] = "attributes"
            out[id(n.metadata_props)] = "node metadata_props"
            vals += list(n.outputs)
        for v in vals:
            out[id(v)] = f"value {v.name}"
            if v.shape is not None:
                out[id(v.shape)] = f"shape of {v.name} (frozen={v.shape.frozen})"
            if v.type is not None:
                out[id(v.type)] = f"type of {v.name}"
            out[id(v.metadata_props)] = f"metadata_props of {v.name}"
    return out


def edits(model):
    """Apply every kind of edit to `model` (names, types, shapes, constants, metadata, attributes, connections)."""
    graphs = list(model.graphs()) + [f.graph for f in model.functions.values()]
    k = 0
    for g in graphs:
        vals = list(g.inputs) + list(g.initializers.values()) + [o for n in g for o in n.outputs]
        for v in vals:
            k += 1
            try:
                v.dtype = ir.DataType.INT64
            except Exception:  # noqa: BLE001
                pass
            if v.shape is not None:
                for i in range(len(v.shape)):
                    try:
                        v.shape.set_denotation(i, f"DEN{k}")
                    except Exception:  # noqa: BLE001
                        pass
                    try:
                        v.shape[i] = 7
                    except Exception:  # noqa: BLE001
                        pass
            v.metadata_props[f"edited{k}"] = "1"
            v.doc_string = f"doc{k}"
            # (initializers too: the name setter also renames the - possibly shared - backing tensor; the other copy must
            # still serialize under its own names)
            try:
                v.name = f"renamed_{k}"
            except Exception:  # noqa: BLE001
                pass
        for n in list(g):
            n.name = (n.name or "") + "_edited"
            n.metadata_props["edited"] = "1"
            n.attributes.add(ir.AttrInt64("edited_attr", 1))
            n.doc_string = "edited"
        nodes = list(g)
        if nodes:
            extra = ir.Node("", "Identity", [nodes[0].inputs[0]] if nodes[0].inputs else [], num_outputs=1, name="extra")
            g.append(extra)
        g.metadata_props["edited"] = "1"
        g.opset_imports["edited.domain"] = 1
        g.doc_string = "edited"


def m_deep_capture():
    """A branch whose own nested branch reads values of the main graph (a capture two scopes up)."""
    from onnx import TensorProto, helper
    vi = models.vi
    inner_then = helper.make_graph([helper.make_node("Abs", ["x"], ["t2"], name="abs2")], "inner_then", [], [vi("t2")])
    inner_else = helper.make_graph([helper.make_node("Neg", ["h"], ["e2"], name="neg2")], "inner_else", [], [vi("e2")])
    # the body's own (depth 0) nodes read only local values; only the nodes one level further down capture x and h
    cc = helper.make_tensor("cc_value", TensorProto.BOOL, [], [True])
    then_g = helper.make_graph([helper.make_node("Constant", [], ["cc"], name="const_cc", value=cc),
                                helper.make_node("If", ["cc"], ["t1"], name="inner_if", then_branch=inner_then, else_branch=inner_else)],
                               "outer_then", [], [vi("t1")])
    else_g = helper.make_graph([helper.make_node("Neg", ["x"], ["e1"], name="neg1")], "outer_else", [], [vi("e1")])
    nodes = [helper.make_node("Relu", ["x"], ["h"], name="relu"),
             helper.make_node("If", ["c"], ["y"], name="outer_if", then_branch=then_g, else_branch=else_g)]
    g = helper.make_graph(nodes, "deep_capture", [vi("x"), helper.make_tensor_value_info("c", TensorProto.BOOL, [])], [vi("y")])
    return helper.make_model(g, opset_imports=[helper.make_opsetid("", 18)], ir_version=10)


def main():
    ap = argparse.ArgumentParser()
    ap.add_argument("--tier", default="quick")
    ap.add_argument("--seed", type=int, default=0)
    a = ap.parse_args()
    t0 = time.time()
    failures, evaluations, distinct, samples = [], 0, set(), []
    for mname, mk in list(models.ALL.items()) + [("deep_capture", m_deep_capture)]:
        if mname in ("names", "unsorted_subgraph"):
            # a graph (or nested body) whose nodes are not in topological order: the cloner documents sortedness as its
            # precondition and rejects such a graph with an error, which the statement allows
            continue
        for how in ("from_proto", "rebuilt-shapes"):
            proto = mk()
            base = ir.from_proto(proto)
            if how == "rebuilt-shapes":
                # non-frozen shapes and explicit metadata
                for g in base.graphs():
                    for v in list(g.inputs) + [o for n in g for o in n.outputs]:
                        if v.shape is not None:
                            v.shape = ir.Shape(list(v.shape))
                        v.metadata_props["k"] = "v"
            for kind in ("model", "graph"):
                evaluations += 1
                distinct.add((mname, how, kind))
                tag = f"{mname}/{how}/{kind}"
                try:
                    if kind == "model":
                        clone = base.clone()
                        s_base, s_clone = ser(base), ser(clone)
                        if s_base != s_clone:
                            failures.append(f"{tag}: the clone does not serialize like the original")
                        shared = set(objects(base)) & set(objects(clone))
                        if shared:
                            names = sorted(objects(base)[i] for i in shared)
                            failures.append(f"{tag}: clone shares mutable objects with the original: {names[:4]}")
                        edits(clone)
                        if ser(base) != s_base:
                            failures.append(f"{tag}: editing the clone changed the original's serialization")
                        clone2 = base.clone()
                        s2 = ser(clone2)
                        edits(base)
                        if ser(clone2) != s2:
                            failures.append(f"{tag}: editing the original changed the clone's serialization")
                    else:
                        g = base.graph
                        gc = g.clone()
                        m1 = ir.Model(gc, ir_version=base.ir_version)
                        s_before = ser(base)
                        edits(m1)
                        if ser(base) != s_before:
                            failures.append(f"{tag}: editing a cloned graph changed the original")
                except Exception as e:  # noqa: BLE001
                    failures.append(f"{tag}: raised {e!r}"[:200])
                if len(samples) < 4:
                    samples.append({"model": mname, "construction": how, "cloned": kind})
        # every nested body on its own: cloning it either raises (it captures values that are not part of the clone and
        # outer-scope values were not allowed) or yields a graph none of whose node inputs is a value of the original
        base = ir.from_proto(mk())
        orig_values = {}
        for g0 in base.graphs():
            for v in list(g0.inputs) + list(g0.initializers.values()) + [o for n in g0 for o in n.outputs]:
                orig_values[id(v)] = v
        for g0 in list(base.graphs())[1:]:
            evaluations += 1
            distinct.add((mname, "nested-body", g0.name))
            try:
                gc = g0.clone()
            except Exception:  # noqa: BLE001
                continue            # a clear error is allowed
            for n in ir.traversal.RecursiveGraphIterator(gc):
                for inp in n.inputs:
                    if inp is not None and id(inp) in orig_values and orig_values[id(inp)] is inp:
                        failures.append(f"{mname}/nested body {g0.name!r}: the clone's node {n.name!r} reads the ORIGINAL value {inp.name!r} "
                                        "although outer-scope values were not allowed")
        # functionalized passes never alter their input
        for pname in P.__all__:
            cls = getattr(P, pname)
            try:
                inst = cls() if pname != "DeduplicateHashedInitializersPass" else cls(size_limit=0)
            except TypeError:
                continue
            evaluations += 1
            distinct.add((mname, "functionalize", pname))
            model = ir.from_proto(mk())
            before = ser(model)
            ids_before = objects(model)
            try:
                res = ir.passes.functionalize(inst)(model)
            except Exception:  # noqa: BLE001
                res = None
            if ser(model) != before:
                failures.append(f"{mname}: functionalize({pname}) altered its input model")
            if res is not None and res.model is model:
                failures.append(f"{mname}: functionalize({pname}) returned the input object")
    known = {}
    kf = os.path.join(ROOT, "known_findings.json")
    if os.path.exists(kf):
        for k in json.load(open(kf)).get("open", []):
            if k.get("property") == "C13" and k.get("key"):
                known[k["key"]] = k
    new, known_lines = [], []
    for f in failures:
        hit = next((k for key, k in known.items() if key in f), None)
        if hit:
            if hit["what"] not in known_lines:
                known_lines.append(hit["what"])
        else:
            new.append(f)
    out = {"status": "violation" if new else "ok", "evaluations": evaluations, "distinct_nontrivial": len(distinct),
           "rule": "5 models x {as deserialized (frozen shapes), rebuilt (mutable shapes, metadata)} x {Model.clone, Graph.clone} + every built-in "
                   "pass functionalized; distinct = (model, construction, operation); bounded, not a proof",
           "known_findings": known_lines, "samples": samples, "failures": new[:15], "wall_s": round(time.time() - t0, 2)}
    if new:
        os.makedirs(os.path.join(ROOT, "out", "replay"), exist_ok=True)
        path = os.path.join(ROOT, "out", "replay", "C13_bounded.json")
        json.dump({"property": "C13", "kind": "script",
                   "script": "import subprocess, sys, json\nr = subprocess.run([sys.executable, %r], capture_output=True, text=True)\n"
                             "d = json.loads(r.stdout.strip().splitlines()[-1])\nVIOLATED = d['status'] == 'violation'\nDETAIL = '\\n'.join(d.get('failures', []))\n"
                             % (os.path.abspath(__file__),), "failures": new[:15]}, open(path, "w"), indent=1)
        out["replay"] = path
    print(json.dumps(out))


if __name__ == "__main__":
    main()
