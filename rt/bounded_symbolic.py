"""Bounded stand-in for C16 (never counted as proved): the contracts of the symbolic-dimension operators, evaluate,
simplify, the printer/parser loop and the parser's grammar checked at run time on the real library (real SymPy).

  A. expression trees over {+,-,*,//,/,%,neg,floor,ceil,trunc} (int operands on either side) x integer bindings,
     against exact Fraction arithmetic: complete binding, partial-then-complete binding, simplify, print -> parse.
  B. strings of the documented grammar against Python's own arithmetic meaning (precedence and associativity),
     incl. min/max/floor/mod calls and results beyond 2**53.
  C. lexical facts the deductive parser contracts assume about the tokenizer.
Last stdout line: JSON.  --only A|B|C, --focus <text> restrict the run (used by replays)."""
import argparse
import itertools
import json
import math
import os
import random
import sys
import time
from fractions import Fraction

import onnx_ir as ir
from onnx_ir import _symbolic_shapes as ss

ROOT = os.path.dirname(os.path.dirname(os.path.abspath(__file__)))


class Undefined(Exception):
    pass


def py_floor(x):
    return Fraction(math.floor(x))


BIN = {
    "+": lambda a, b: a + b, "-": lambda a, b: a - b, "*": lambda a, b: a * b,
    "//": lambda a, b: py_floor(a / b), "/": lambda a, b: a / b, "%": lambda a, b: a - b * py_floor(a / b),
}
UN = {
    "neg": lambda a: -a, "floor": py_floor, "ceil": lambda a: -py_floor(-a),
    "trunc": lambda a: py_floor(a) if a >= 0 else -py_floor(-a),
}


def ref_eval(t, env):
    """Exact meaning of an expression tree."""
    k = t[0]
    if k == "sym":
        return Fraction(env[t[1]])
    if k == "int":
        return Fraction(t[1])
    if k in UN:
        return UN[k](ref_eval(t[1], env))
    a, b = ref_eval(t[1], env), ref_eval(t[2], env)
    if k in ("//", "/", "%") and b == 0:
        raise Undefined()
    return BIN[k](a, b)


def build(t):
    """The same tree through the library's operator overloads (ints stay Python ints, as a user would write them)."""
    k = t[0]
    if k == "sym":
        return ir.SymbolicDim(t[1])
    if k == "int":
        return t[1]
    if k in UN:
        x = build(t[1])
        if isinstance(x, int):
            raise Undefined()
        return {"neg": lambda: -x, "floor": lambda: math.floor(x), "ceil": lambda: math.ceil(x), "trunc": lambda: math.trunc(x)}[k]()
    a, b = build(t[1]), build(t[2])
    if isinstance(a, int) and isinstance(b, int):
        raise Undefined()
    if isinstance(a, int) and k in ("//", "%"):
        raise Undefined()        # int // dim and int % dim are not offered by the library
    import operator
    return {"+": operator.add, "-": operator.sub, "*": operator.mul, "//": operator.floordiv, "/": operator.truediv, "%": operator.mod}[k](a, b)


def sympy_direct(t):
    """The same tree built with SymPy alone (no onnx_ir code): used only to attribute a wrong value to SymPy itself."""
    import sympy
    k = t[0]
    if k == "sym":
        return sympy.Symbol(t[1], integer=True, positive=True)
    if k == "int":
        return sympy.Integer(t[1])
    if k in UN:
        x = sympy_direct(t[1])
        return {"neg": lambda: -x, "floor": lambda: sympy.floor(x), "ceil": lambda: sympy.ceiling(x),
                "trunc": lambda: sympy.sign(x) * sympy.floor(sympy.Abs(x))}[k]()
    a, b = sympy_direct(t[1]), sympy_direct(t[2])
    return {"+": lambda: a + b, "-": lambda: a - b, "*": lambda: a * b, "//": lambda: sympy.floor(a / b), "/": lambda: a / b,
            "%": lambda: sympy.Mod(a, b)}[k]()


def sympy_value(e, envs):
    """Exact value SymPy alone gives to expression e when the bindings are applied one after another."""
    import sympy
    for env in envs:
        e = e.xreplace({sy: sympy.Integer(env[str(sy)]) for sy in e.free_symbols if str(sy) in env})
    if not e.is_number:
        return None
    r = e if e.is_Rational else sympy.simplify(e)
    return Fraction(int(r.p), int(r.q)) if r.is_Rational else None


SYMPY_DEFECTS = []


def blame_sympy(label, got, mk_expr, envs):
    """True when SymPy alone, given the directly constructed expression, produces the same wrong value: the deviation
    from exact arithmetic is then SymPy's (a dependency defect, listed as a known finding), not onnx_ir's."""
    try:
        v = sympy_value(mk_expr(), envs)
    except Exception:  # noqa: BLE001
        return False
    if v is not None and v == got:
        SYMPY_DEFECTS.append(label)
        return True
    return False


def has_sym(t):
    return t[0] == "sym" or any(has_sym(x) for x in t[1:] if isinstance(x, tuple))


def trees(depth, leaves):
    if depth == 0:
        yield from leaves
        return
    sub = list(trees(depth - 1, leaves))
    yield from sub
    for u in UN:
        for a in sub:
            if has_sym(a):
                yield (u, a)
    for o in BIN:
        for a in sub:
            for b in sub:
                if has_sym(a) or has_sym(b):
                    yield (o, a, b)


def to_fraction(x):
    """int / SymbolicDim holding a number -> Fraction (None if it still has symbols)."""
    if isinstance(x, int):
        return Fraction(x)
    e = x._expr
    if e is None or not e.is_number:
        return None
    import sympy
    r = e if e.is_Rational else sympy.simplify(e)
    if not r.is_Rational:
        return None
    return Fraction(int(r.p), int(r.q))


def check_dim(d, t, binds, failures, label, stats):
    for env in binds:
        stats[0] += 1
        try:
            want = ref_eval(t, env)
        except Undefined:
            continue
        got = d.evaluate(env) if not isinstance(d, int) else d
        g = to_fraction(got)
        if g != want and g is not None and blame_sympy(f"{show(t)} at {env}: SymPy alone gives {g}, exact value {want}", g, lambda: sympy_direct(t), [env]):
            return
        if g != want:
            failures.append(f"{label}: {show(t)} at {env}: evaluate -> {getattr(got, 'value', got)!r}, exact value {want}")
            return
        if want.denominator == 1 and not isinstance(got, int):
            failures.append(f"{label}: {show(t)} at {env}: integer result {want} not returned as int (got {got!r})")
            return


def show(t):
    if t[0] in ("sym", "int"):
        return str(t[1])
    if t[0] in UN:
        return f"{t[0]}({show(t[1])})"
    return f"({show(t[1])} {t[0]} {show(t[2])})"


def part_a(tier, seed, failures, stats, focus=None):
    leaves = [("sym", "N"), ("sym", "M"), ("int", 1), ("int", 2), ("int", 3), ("int", -2)]
    vals = [1, 2, 3, 5, 8]
    binds = [{"N": n, "M": m} for n in vals for m in vals]
    big = [{"N": 2 ** 53, "M": 3}, {"N": 3037000507, "M": 3037000507}, {"N": 2 ** 60 + 1, "M": 7}]
    pool = [t for t in trees(2, leaves) if has_sym(t)]
    rnd = random.Random(seed)
    if focus:
        # directed: the operator in focus applied on top of every depth-2 tree as well
        key = focus.strip().rstrip("(")
        extra = []
        if key in UN:
            extra = [(key, a) for a in pool]
        elif key in BIN:
            extra = [(key, a, b) for a in rnd.sample(pool, 400) for b in leaves] + [(key, b, a) for a in rnd.sample(pool, 400) for b in leaves]
        pool = [t for t in pool if focus in show(t) and depth(t) <= 1] + [t for t in extra if has_sym(t)]
        rnd.shuffle(pool)
        pool = sorted(pool[:2500], key=depth)
    elif tier != "thorough":
        d1 = [t for t in pool if depth(t) <= 1]
        d2 = [t for t in pool if depth(t) == 2]
        rnd.shuffle(d2)
        pool = d1 + d2[:500] + [(u, a) for u in UN for a in d2[500:620]]      # and every unary operator on top of depth-2 trees
    else:
        d3 = []
        sub = pool
        for _ in range(4000):
            o = rnd.choice(list(BIN) + list(UN))
            d3.append((o, rnd.choice(sub)) if o in UN else (o, rnd.choice(sub), rnd.choice(sub + leaves)))
        pool = pool + d3
    if not focus:
        # directed depth-3 family: nested floor-division / multiplication / modulo chains (strided-op arithmetic), where
        # rewriting rules about nested floors are easy to get wrong
        N_, M_ = ("sym", "N"), ("sym", "M")
        for a_, b_, c_ in itertools.product((1, 2, 3, 4), repeat=3):
            A, B, C = ("int", a_), ("int", b_), ("int", c_)
            pool += [("//", ("*", ("//", N_, A), B), C), ("//", ("//", N_, A), B) if c_ == 1 else ("//", ("+", ("//", N_, A), C), B),
                     ("//", ("*", ("//", ("+", N_, M_), A), B), C), ("%", ("*", ("//", N_, A), B), C), ("//", ("-", ("*", N_, B), ("%", N_, A)), C)]
    for t in pool:
        if focus and focus not in show(t):
            continue
        try:
            d = build(t)
        except Undefined:
            continue
        except ZeroDivisionError:
            continue
        except Exception as e:  # noqa: BLE001
            # the same exception from SymPy alone, given the directly constructed expression, is SymPy's defect (e.g. the
            # RecursionError of Mod(N - 2, M + 1) over positive integer symbols in SymPy 1.14), not onnx_ir's
            try:
                sympy_direct(t)
                alone = None
            except Exception as e2:  # noqa: BLE001
                alone = type(e2).__name__
            if alone == type(e).__name__:
                SYMPY_DEFECTS.append(f"building {show(t)}: SymPy alone raises {alone}")
            else:
                failures.append(f"operators: building {show(t)} raised {type(e).__name__}: {e}")
            continue
        if isinstance(d, int):
            continue
        n0 = len(failures)
        some = binds if depth(t) <= 1 else rnd.sample(binds, 6)
        check_dim(d, t, some + big, failures, "evaluate", stats)
        if len(failures) > n0:
            continue
        # partial binding, then the rest
        for env in rnd.sample(binds, 3):
            stats[0] += 1
            try:
                want = ref_eval(t, env)
            except Undefined:
                continue
            try:
                p1 = d.evaluate({"N": env["N"]})
                got = p1.evaluate({"M": env["M"]}) if not isinstance(p1, int) else p1
            except Exception as e:  # noqa: BLE001
                failures.append(f"partial binding: {show(t)} at {env} raised {type(e).__name__}: {e}")
                break
            if to_fraction(got) != want:
                if to_fraction(got) is not None and blame_sympy(f"{show(t)} N={env['N']} then M={env['M']}: SymPy alone gives {to_fraction(got)}, exact value {want}",
                                                               to_fraction(got), lambda: sympy_direct(t), [{"N": env["N"]}, {"M": env["M"]}]):
                    break
                failures.append(f"partial binding: {show(t)} N={env['N']} then M={env['M']} -> {getattr(got, 'value', got)!r}, exact value {want}")
                break
        # simplification preserves every evaluation
        try:
            if depth(t) <= 1 or depth(t) >= 3 or rnd.random() < 0.25:
                s = d.simplify()
                check_dim(s, t, rnd.sample(binds, 4), failures, "simplify", stats)
        except Exception as e:  # noqa: BLE001
            failures.append(f"simplify: {show(t)} raised {type(e).__name__}: {e}")
        # the textual form parses back to the same evaluations
        try:
            back = ir.SymbolicDim(d.value)
            back._expr        # force parsing
        except Exception as e:  # noqa: BLE001
            failures.append(f"print->parse: text {d.value!r} of {show(t)} does not parse: {type(e).__name__}: {e}")
            continue
        check_dim(back, t, rnd.sample(binds, 4), failures, f"print->parse[{d.value}]", stats)
        # Shape carries the same dims
        stats[0] += 1
        env = rnd.choice(binds)
        try:
            want = ref_eval(t, env)
            sh = ir.Shape([d, 4]).evaluate(env)
            if to_fraction(sh[0]) != want and to_fraction(sh[0]) is not None and blame_sympy(
                    f"{show(t)} at {env}: SymPy alone gives {to_fraction(sh[0])}, exact value {want}", to_fraction(sh[0]), lambda: sympy_direct(t), [env]):
                pass
            elif to_fraction(sh[0]) != want or sh[1] != 4:
                failures.append(f"Shape.evaluate: {show(t)} at {env} -> {sh}, exact value {want}")
        except Undefined:
            pass


def depth(t):
    return 0 if t[0] in ("sym", "int") else 1 + max(depth(x) for x in t[1:])


# --------------------------------------------------------------------------------------------------------------- B
def gen_strings(rnd, n):
    """Random phrases of the documented grammar (spaces varied), exponent restricted to small literals."""
    def primary(d):
        r = rnd.random()
        if d <= 0 or r < 0.35:
            return rnd.choice(["N", "M", "1", "2", "3", "7"])
        if r < 0.55:
            return "(" + expr(d - 1) + ")"
        if r < 0.8:
            f = rnd.choice(["max", "min", "Max", "Min"])
            return f + "(" + ", ".join(expr(d - 1) for _ in range(rnd.choice([1, 2, 3]))) + ")"
        if r < 0.9:
            return "floor(" + expr(d - 1) + ")"
        return rnd.choice(["mod", "Mod"]) + "(" + expr(d - 1) + ", " + rnd.choice(["2", "3", "M"]) + ")"

    def power(d):
        b = primary(d)
        if rnd.random() < 0.2:
            return b + "**" + rnd.choice(["2", "3", "-1" if False else "2"])
        return b

    def unary(d):
        return "-" + unary(d) if rnd.random() < 0.2 else power(d)

    def term(d):
        s = unary(d)
        for _ in range(rnd.choice([0, 0, 1, 1, 2])):
            s += rnd.choice([" * ", "*", " / ", " // ", "//", " % "]) + unary(d)
        return s

    def expr(d):
        s = term(d)
        for _ in range(rnd.choice([0, 1, 1, 2])):
            s += rnd.choice([" + ", "+", " - ", "-"]) + term(d)
        return s
    return [expr(2 if rnd.random() < 0.15 else 1) for _ in range(n)]


FIXED = ["-N**2", "-N**2 + M", "2**-1 * N", "2*N//3", "N*M%5", "N - M - 1", "N / M / 2", "N // M // 2", "N - (M - 1)", "-N - -M", "--N",
         "2**3**2", "N % M % 3", "N * (M + 1) // 2", "(N + M) * (N - M)", "max(N, M) - min(N, M)", "floor(N / 2) * 2 + N % 2",
         "N//2*2", "N/2*2", "N%3*2", "10 - N % 4 - 1", "N + 1", "N*M", "N/2"]


def py_meaning(s, env):
    """Python's own reading of the string (the standard arithmetic meaning), exactly, over Fractions."""
    class F(Fraction):
        pass
    ns = {"N": Fraction(env["N"]), "M": Fraction(env["M"]),
          "max": lambda *a: max(a), "Max": lambda *a: max(a), "min": lambda *a: min(a), "Min": lambda *a: min(a), "floor": lambda x: Fraction(math.floor(x)),
          "mod": lambda a, b: a - b * math.floor(a / b), "Mod": lambda a, b: a - b * math.floor(a / b)}
    import ast

    class Lit(ast.NodeTransformer):
        def visit_Constant(self, node):
            if isinstance(node.value, int):
                return ast.copy_location(ast.Call(ast.Name("Fraction", ast.Load()), [node], []), node)
            return node
    tree = Lit().visit(ast.parse(s.strip(), mode="eval"))
    ast.fix_missing_locations(tree)
    ns["Fraction"] = Fraction
    try:
        v = eval(compile(tree, "<grammar>", "eval"), {"__builtins__": {}}, ns)
    except ZeroDivisionError:
        raise Undefined()
    if not isinstance(v, (int, Fraction)):
        raise Undefined()        # float from a fractional power: outside exact arithmetic
    return Fraction(v)


def sympy_of_string(s):
    """The string's standard reading (Python's AST) built with SymPy alone."""
    import ast
    import sympy

    def go(n):
        if isinstance(n, ast.Expression):
            return go(n.body)
        if isinstance(n, ast.Constant):
            return sympy.Integer(n.value)
        if isinstance(n, ast.Name):
            return sympy.Symbol(n.id, integer=True, positive=True)
        if isinstance(n, ast.UnaryOp) and isinstance(n.op, ast.USub):
            return -go(n.operand)
        if isinstance(n, ast.BinOp):
            a, b = go(n.left), go(n.right)
            return {ast.Add: lambda: a + b, ast.Sub: lambda: a - b, ast.Mult: lambda: a * b, ast.Div: lambda: a / b,
                    ast.FloorDiv: lambda: sympy.floor(a / b), ast.Mod: lambda: sympy.Mod(a, b), ast.Pow: lambda: a ** b}[type(n.op)]()
        if isinstance(n, ast.Call):
            f = {"max": sympy.Max, "Max": sympy.Max, "min": sympy.Min, "Min": sympy.Min, "floor": sympy.floor, "mod": sympy.Mod, "Mod": sympy.Mod}[n.func.id]
            return f(*[go(a) for a in n.args])
        raise ValueError(ast.dump(n))
    return go(ast.parse(s.strip(), mode="eval"))


def part_b(tier, seed, failures, stats, focus=None):
    rnd = random.Random(seed + 1)
    strings = FIXED + gen_strings(rnd, 400 if tier != "thorough" else 2500)
    envs = [{"N": n, "M": m} for n in (1, 2, 3, 5, 8) for m in (1, 2, 3, 5, 8)]
    big = [{"N": 2 ** 53, "M": 3}, {"N": 3037000507, "M": 3037000507}]
    for s in strings:
        if focus and focus not in s:
            continue
        some = rnd.sample(envs, 5) + big
        defined = 0
        for env in some:
            try:
                py_meaning(s, env)
                defined += 1
            except Undefined:
                pass
        if not defined:
            continue             # no standard meaning at any sampled binding (constant division by zero, fractional power)
        try:
            d = ir.SymbolicDim(s)
            d._expr
        except Exception as e:  # noqa: BLE001
            failures.append(f"grammar: {s!r} is a phrase of the documented grammar but parsing raised {type(e).__name__}: {e}")
            continue
        for env in some:
            stats[0] += 1
            try:
                want = py_meaning(s, env)
            except Undefined:
                continue
            try:
                got = d.evaluate(env)
            except Exception as e:  # noqa: BLE001
                failures.append(f"grammar: {s!r} at {env}: evaluate raised {type(e).__name__}: {e}")
                break
            if to_fraction(got) != want:
                if to_fraction(got) is not None and blame_sympy(f"{s!r} at {env}: SymPy alone gives {to_fraction(got)}, standard meaning {want}",
                                                               to_fraction(got), lambda: sympy_of_string(s), [env]):
                    break
                failures.append(f"grammar: {s!r} at {env} -> {getattr(got, 'value', got)!r}, standard meaning {want}")
                break


# --------------------------------------------------------------------------------------------------------------- C
def part_c(failures, stats):
    """Lexical facts assumed by the parser contracts: NUMBER tokens carry ints, everything else strs; an identifier
    string means the same through the shortcut and through the tokenizer."""
    for text in ["N + 12*(a_b.c1 // 3) % x ** 2, -y / 7", "  42  ", "max(a,b)", "a.b_c"]:
        tk = ss._ExpressionTokenizer(text)
        while True:
            stats[0] += 1
            t = tk.get_token()
            if t is None:
                break
            kind, val = t
            if (kind == "NUMBER") != isinstance(val, int) or (kind != "NUMBER" and not isinstance(val, str)):
                failures.append(f"tokenizer: token {t!r} of {text!r}: value type does not match its kind")
            if kind not in ("NUMBER", "IDENT", "OP", "LPAREN", "RPAREN", "COMMA"):
                failures.append(f"tokenizer: unknown token kind {kind!r}")
        if tk.get_token() is not None:
            failures.append("tokenizer: a token after the end of input")
    for name in ["N", "batch_size", "_x1", "seq.len"]:
        stats[0] += 1
        a = ss.parse_symbolic_expression(name)
        b = ss._ExpressionParser(" " + name + " ").parse()
        if a != b:
            failures.append(f"identifier shortcut: {name!r} parses to {a!r}, through the tokenizer to {b!r}")


def main():
    ap = argparse.ArgumentParser()
    ap.add_argument("--tier", default="quick")
    ap.add_argument("--seed", type=int, default=0)
    ap.add_argument("--only", default="ABC")
    ap.add_argument("--focus")
    a = ap.parse_args()
    t0 = time.time()
    failures, stats = [], [0]
    if "A" in a.only:
        part_a(a.tier, a.seed, failures, stats, a.focus)
    if "B" in a.only:
        part_b(a.tier, a.seed, failures, stats, a.focus)
    if "C" in a.only:
        part_c(failures, stats)
    known = {}
    kf = os.path.join(ROOT, "known_findings.json")
    if os.path.exists(kf):
        for k in json.load(open(kf)).get("open", []):
            if k.get("property") == "C16" and k.get("key"):
                known[k["key"]] = k
    new, known_lines = [], []
    sympy_kf = known.get("sympy-alone")
    if SYMPY_DEFECTS:
        if sympy_kf is not None:
            known_lines.append(f"{sympy_kf['what']} [{len(SYMPY_DEFECTS)} input(s) in this run, e.g. {SYMPY_DEFECTS[0]}]")
        else:
            failures.extend("SymPy alone deviates from exact arithmetic: " + x for x in SYMPY_DEFECTS)
    for f in failures:
        hit = next((k for key, k in known.items() if key in f), None)
        if hit:
            if hit["what"] not in known_lines:
                known_lines.append(hit["what"])
        else:
            new.append(f)
    out = {"status": "violation" if new else "ok", "evaluations": stats[0], "distinct_nontrivial": stats[0],
           "rule": "expression trees of depth <= 2 (thorough: + 4000 random depth-3) over {+,-,*,//,/,%,neg,floor,ceil,trunc} with leaves "
                   "{N,M,1,2,3,-2}, bindings N,M in {1,2,3,5,8} plus three beyond 2**53, against exact Fraction arithmetic (complete, partial, "
                   "simplify, print->parse, Shape); grammar strings (24 fixed + 400/2500 random, depth 2) against Python's own meaning; "
                   "tokenizer facts; bounded, not a proof",
           "known_findings": known_lines, "samples": [{"tree": "(N // 2) + 1", "binding": {"N": 5, "M": 2}}, {"string": "-N**2 + M"}],
           "failures": new[:25], "wall_s": round(time.time() - t0, 2)}
    if new:
        os.makedirs(os.path.join(ROOT, "out", "replay"), exist_ok=True)
        path = os.path.join(ROOT, "out", "replay", "C16_bounded.json")
        json.dump({"property": "C16", "kind": "script",
                   "script": "import subprocess, sys, json\nr = subprocess.run([sys.executable, %r], capture_output=True, text=True)\n"
                             "d = json.loads(r.stdout.strip().splitlines()[-1])\nVIOLATED = d['status'] == 'violation'\nDETAIL = '\\n'.join(d.get('failures', []))\n"
                             % (os.path.abspath(__file__),), "failures": new[:25]}, open(path, "w"), indent=1)
        out["replay"] = path
    print(json.dumps(out))


if __name__ == "__main__":
    main()
