"""Bounded stand-in for C17 (never counted as proved): structure-aware, field-level and byte-level mutations of valid protos.
For each mutant p:  from_proto(p) terminates (alarm) and either raises or returns an IR on which the C01 invariants and
value/producer ownership agree; to_proto(ir) either raises or yields p1 with to_proto(from_proto(p1)) == p1; deserialization and
inspecting name/dtype/shape/size of every resulting tensor touch no file (open/os/mmap/numpy file primitives patched to raise).
Last stdout line: JSON."""
import argparse
import builtins
import contextlib
import copy
import io
import json
import logging
import mmap
import os
import random
import signal
import sys
import time

import numpy as np
import onnx
from onnx import TensorProto, helper

sys.path.insert(0, os.path.dirname(os.path.abspath(__file__)))
import onnx_ir as ir  # noqa: E402

import irstate  # noqa: E402
import models  # noqa: E402

logging.disable(logging.CRITICAL)
ROOT = os.path.dirname(os.path.dirname(os.path.abspath(__file__)))


class FsAccess(BaseException):
    pass


@contextlib.contextmanager
def fs_guard(log):
    saved = []

    def patch(obj, name):
        if not hasattr(obj, name):
            return
        orig = getattr(obj, name)

        def blocked(*a, **k):
            import traceback
            fr = [f for f in traceback.extract_stack()[:-1] if "/onnx_ir/" in f.filename]
            if not fr:
                return orig(*a, **k)          # not on behalf of the library (importlib, logging, ...)
            log.append(f"{getattr(obj, '__name__', obj)}.{name}({', '.join(repr(x)[:40] for x in a[:1])}) from {fr[-1].name}:{fr[-1].lineno}")
            raise FsAccess(name)
        saved.append((obj, name, orig))
        setattr(obj, name, blocked)
    for nm in ("open",):
        patch(builtins, nm)
        patch(io, nm)
    for nm in ("open", "stat", "lstat", "listdir", "scandir", "remove", "rename", "replace", "makedirs", "mkdir", "readlink", "access"):
        patch(os, nm)
    for nm in ("exists", "isfile", "isdir", "getsize", "realpath", "islink", "lexists", "getmtime", "samefile"):
        patch(os.path, nm)
    patch(mmap, "mmap")
    for nm in ("memmap", "fromfile", "load"):
        patch(np, nm)
    try:
        yield
    finally:
        for obj, name, orig in reversed(saved):
            setattr(obj, name, orig)


class Timeout(Exception):
    pass


def _alarm(_s, _f):
    raise Timeout()


def base_protos():
    out = {k: mk() for k, mk in models.ALL.items()}
    # an external-data initializer and tensor attributes
    m = models.m_if()
    t = m.graph.initializer[0]
    t.ClearField("raw_data")
    t.data_location = TensorProto.EXTERNAL
    for k, v in (("location", "weights.bin"), ("offset", "0"), ("length", "24")):
        e = t.external_data.add()
        e.key, e.value = k, v
    out["if_external"] = m
    m2 = models.m_basic()
    m2.graph.node[0].attribute.append(helper.make_attribute("strs", ["a", "b"]))
    m2.graph.node[0].attribute.append(helper.make_attribute("ts", [helper.make_tensor("t1", TensorProto.FLOAT, [2], [1.0, 2.0])]))
    m2.graph.node[0].attribute.append(helper.make_attribute("tp", helper.make_tensor_type_proto(TensorProto.FLOAT, [1, "N"])))
    out["basic_attrs"] = m2
    return out


def graphs_of(g):
    yield g
    for n in g.node:
        for a in n.attribute:
            if a.HasField("g"):
                yield from graphs_of(a.g)
            for sg in a.graphs:
                yield from graphs_of(sg)


def directed_mutants(name, proto):
    """(label, mutated proto) — each applies one structural defect at one site."""
    def mut(label, fn):
        p = copy.deepcopy(proto)
        try:
            fn(p)
        except Exception:  # noqa: BLE001  (the mutation itself is not applicable at that site)
            return None
        return (f"{name}:{label}", p)
    gs = list(graphs_of(proto.graph))
    for gi, g in enumerate(gs):
        def G(p, gi=gi):
            return list(graphs_of(p.graph))[gi]
        for ni, n in enumerate(g.node):
            for ii in range(len(n.input)):
                yield mut(f"g{gi}.n{ni}.in{ii}=dangling", lambda p, ni=ni, ii=ii, gi=gi: G(p).node[ni].input.__setitem__(ii, "no_such_value"))
                yield mut(f"g{gi}.n{ni}.in{ii}=empty", lambda p, ni=ni, ii=ii: G(p).node[ni].input.__setitem__(ii, ""))
                yield mut(f"g{gi}.n{ni}.in{ii}=own-output", lambda p, ni=ni, ii=ii: G(p).node[ni].input.__setitem__(ii, G(p).node[ni].output[0]))
                yield mut(f"g{gi}.n{ni}.in{ii}=last-output", lambda p, ni=ni, ii=ii: G(p).node[ni].input.__setitem__(ii, G(p).node[-1].output[0]))
            for oi in range(len(n.output)):
                yield mut(f"g{gi}.n{ni}.out{oi}=dup-of-first", lambda p, ni=ni, oi=oi: G(p).node[ni].output.__setitem__(oi, G(p).node[0].output[0]))
                yield mut(f"g{gi}.n{ni}.out{oi}=empty", lambda p, ni=ni, oi=oi: G(p).node[ni].output.__setitem__(oi, ""))
                if g.input:
                    yield mut(f"g{gi}.n{ni}.out{oi}=graph-input-name", lambda p, ni=ni, oi=oi: G(p).node[ni].output.__setitem__(oi, G(p).input[0].name))
                if g.initializer:
                    yield mut(f"g{gi}.n{ni}.out{oi}=initializer-name", lambda p, ni=ni, oi=oi: G(p).node[ni].output.__setitem__(oi, G(p).initializer[0].name))
                if gi > 0:
                    yield mut(f"g{gi}.n{ni}.out{oi}=outer-name", lambda p, ni=ni, oi=oi: G(p).node[ni].output.__setitem__(oi, p.graph.node[0].output[0]))
            yield mut(f"g{gi}.n{ni}.dup-node", lambda p, ni=ni: G(p).node.append(G(p).node[ni]))
            yield mut(f"g{gi}.n{ni}.op_type=empty", lambda p, ni=ni: setattr(G(p).node[ni], "op_type", ""))
            for ai, a in enumerate(n.attribute):
                yield mut(f"g{gi}.n{ni}.attr{ai}.type=99", lambda p, ni=ni, ai=ai: setattr(G(p).node[ni].attribute[ai], "type", 99))
                yield mut(f"g{gi}.n{ni}.attr{ai}.type=UNDEFINED", lambda p, ni=ni, ai=ai: setattr(G(p).node[ni].attribute[ai], "type", 0))
                yield mut(f"g{gi}.n{ni}.attr{ai}.dup", lambda p, ni=ni, ai=ai: G(p).node[ni].attribute.append(G(p).node[ni].attribute[ai]))
                yield mut(f"g{gi}.n{ni}.attr{ai}.name=empty", lambda p, ni=ni, ai=ai: setattr(G(p).node[ni].attribute[ai], "name", ""))
                yield mut(f"g{gi}.n{ni}.attr{ai}.s=invalid-utf8", lambda p, ni=ni, ai=ai: (setattr(G(p).node[ni].attribute[ai], "s", b"\xff\xfe\xc3("), setattr(G(p).node[ni].attribute[ai], "type", onnx.AttributeProto.STRING)))
                yield mut(f"g{gi}.n{ni}.attr{ai}.ref-and-value", lambda p, ni=ni, ai=ai: setattr(G(p).node[ni].attribute[ai], "ref_attr_name", "nope"))
        yield mut(f"g{gi}.reverse-nodes", lambda p: (lambda ns: (G(p).ClearField("node"), G(p).node.extend(reversed(ns))))([copy.deepcopy(x) for x in G(p).node]))
        for oi in range(len(g.output)):
            yield mut(f"g{gi}.output{oi}=unproduced", lambda p, oi=oi: setattr(G(p).output[oi], "name", "never_produced"))
            yield mut(f"g{gi}.output{oi}=empty-name", lambda p, oi=oi: setattr(G(p).output[oi], "name", ""))
            yield mut(f"g{gi}.output{oi}.no-type", lambda p, oi=oi: G(p).output[oi].ClearField("type"))
            yield mut(f"g{gi}.output{oi}.dup", lambda p, oi=oi: G(p).output.append(G(p).output[oi]))
            yield mut(f"g{gi}.output{oi}.elem_type=999", lambda p, oi=oi: setattr(G(p).output[oi].type.tensor_type, "elem_type", 999))
            if gi > 0:
                yield mut(f"g{gi}.output{oi}=outer-value", lambda p, oi=oi: setattr(G(p).output[oi], "name", p.graph.node[0].output[0] if p.graph.node[0].output[0] else p.graph.input[0].name))
                yield mut(f"g{gi}.output{oi}=outer-input", lambda p, oi=oi: setattr(G(p).output[oi], "name", p.graph.input[0].name))
        for ii in range(len(g.input)):
            yield mut(f"g{gi}.input{ii}.dup", lambda p, ii=ii: G(p).input.append(G(p).input[ii]))
            yield mut(f"g{gi}.input{ii}=empty-name", lambda p, ii=ii: setattr(G(p).input[ii], "name", ""))
            yield mut(f"g{gi}.input{ii}.no-type", lambda p, ii=ii: G(p).input[ii].ClearField("type"))
            yield mut(f"g{gi}.input{ii}.dim=-5", lambda p, ii=ii: setattr(G(p).input[ii].type.tensor_type.shape.dim[0], "dim_value", -5))
        if gi > 0 and proto.graph.input:
            yield mut(f"g{gi}.add-input-shadowing-outer", lambda p: G(p).input.add().CopyFrom(p.graph.input[0]))
        for ti, t in enumerate(g.initializer):
            yield mut(f"g{gi}.init{ti}.dup", lambda p, ti=ti: G(p).initializer.append(G(p).initializer[ti]))
            yield mut(f"g{gi}.init{ti}=empty-name", lambda p, ti=ti: setattr(G(p).initializer[ti], "name", ""))
            if g.input:
                yield mut(f"g{gi}.init{ti}=input-name", lambda p, ti=ti: setattr(G(p).initializer[ti], "name", G(p).input[0].name))
            if g.node:
                yield mut(f"g{gi}.init{ti}=node-output-name", lambda p, ti=ti: setattr(G(p).initializer[ti], "name", G(p).node[0].output[0]))
            yield mut(f"g{gi}.init{ti}.data_type=99", lambda p, ti=ti: setattr(G(p).initializer[ti], "data_type", 99))
            yield mut(f"g{gi}.init{ti}.data_type=0", lambda p, ti=ti: setattr(G(p).initializer[ti], "data_type", 0))
            yield mut(f"g{gi}.init{ti}.dims-mismatch", lambda p, ti=ti: G(p).initializer[ti].dims.append(7))
            yield mut(f"g{gi}.init{ti}.dims-negative", lambda p, ti=ti: G(p).initializer[ti].dims.__setitem__(0, -3))
            yield mut(f"g{gi}.init{ti}.dims-huge", lambda p, ti=ti: G(p).initializer[ti].dims.__setitem__(0, 2 ** 40))
            yield mut(f"g{gi}.init{ti}.raw+float", lambda p, ti=ti: G(p).initializer[ti].float_data.extend([1.0, 2.0]))
            yield mut(f"g{gi}.init{ti}.raw-truncated", lambda p, ti=ti: setattr(G(p).initializer[ti], "raw_data", G(p).initializer[ti].raw_data[:-3]))
            yield mut(f"g{gi}.init{ti}.string-type-with-raw", lambda p, ti=ti: setattr(G(p).initializer[ti], "data_type", TensorProto.STRING))
            for loc, off, ln in (("../../etc/passwd", "0", "8"), ("/etc/passwd", "-1", "8"), ("w.bin", "abc", "xyz"), ("", "0", str(2 ** 62)), ("w.bin", str(2 ** 70), "-5")):
                def ext(p, ti=ti, loc=loc, off=off, ln=ln):
                    t = G(p).initializer[ti]
                    t.ClearField("raw_data")
                    t.ClearField("external_data")
                    t.data_location = TensorProto.EXTERNAL
                    for k, v in (("location", loc), ("offset", off), ("length", ln), ("location", "second.bin"), ("bogus", "1")):
                        e = t.external_data.add()
                        e.key, e.value = k, v
                yield mut(f"g{gi}.init{ti}.external({loc!r},{off},{ln})", ext)
            yield mut(f"g{gi}.init{ti}.external-no-location", lambda p, ti=ti: (G(p).initializer[ti].ClearField("raw_data"), setattr(G(p).initializer[ti], "data_location", TensorProto.EXTERNAL)))
    for fi, f in enumerate(proto.functions):
        yield mut(f"func{fi}.dup", lambda p, fi=fi: p.functions.append(p.functions[fi]))
        yield mut(f"func{fi}.self-call", lambda p, fi=fi: p.functions[fi].node.add(op_type=p.functions[fi].name, domain=p.functions[fi].domain, input=list(p.functions[fi].input), output=["zz"]))
        yield mut(f"func{fi}.output-unproduced", lambda p, fi=fi: p.functions[fi].output.__setitem__(0, "nowhere"))
        yield mut(f"func{fi}.dup-input", lambda p, fi=fi: p.functions[fi].input.append(p.functions[fi].input[0]))
        yield mut(f"func{fi}.no-opset", lambda p, fi=fi: p.functions[fi].ClearField("opset_import"))
    yield mut("opset.dup", lambda p: p.opset_import.append(p.opset_import[0]))
    yield mut("opset.none", lambda p: p.ClearField("opset_import"))
    yield mut("ir_version=0", lambda p: setattr(p, "ir_version", 0))
    yield mut("ir_version=99", lambda p: setattr(p, "ir_version", 99))
    yield mut("no-graph", lambda p: p.ClearField("graph"))
    yield mut("metadata.dup-key", lambda p: (p.metadata_props.add(key="k", value="1"), p.metadata_props.add(key="k", value="2")))


def random_field_mutants(name, proto, rnd, count):
    """Random field-level edits anywhere in the message tree."""
    from google.protobuf.descriptor import FieldDescriptor as FD
    for k in range(count):
        p = copy.deepcopy(proto)
        label = []
        for _ in range(rnd.randint(1, 3)):
            msg = p
            path = []
            for _depth in range(rnd.randint(0, 6)):
                subs = []
                for fd, val in msg.ListFields():
                    if fd.type == FD.TYPE_MESSAGE:
                        if fd.is_repeated:
                            subs += [(f"{fd.name}[{i}]", v) for i, v in enumerate(val)]
                        else:
                            subs.append((fd.name, val))
                if not subs:
                    break
                nm, msg = rnd.choice(subs)
                path.append(nm)
            fields = list(msg.DESCRIPTOR.fields)
            if not fields:
                continue
            fd = rnd.choice(fields)
            try:
                if fd.is_repeated:
                    cont = getattr(msg, fd.name)
                    op = rnd.choice(["clear", "dup", "swap", "drop"])
                    if op == "clear":
                        msg.ClearField(fd.name)
                    elif op == "dup" and len(cont):
                        if fd.type == FD.TYPE_MESSAGE:
                            cont.add().CopyFrom(cont[rnd.randrange(len(cont))])
                        else:
                            cont.append(cont[rnd.randrange(len(cont))])
                    elif op == "swap" and len(cont) >= 2 and fd.type != FD.TYPE_MESSAGE:
                        i, j = rnd.sample(range(len(cont)), 2)
                        cont[i], cont[j] = cont[j], cont[i]
                    elif op == "drop" and len(cont):
                        del cont[rnd.randrange(len(cont))]
                elif fd.type == FD.TYPE_MESSAGE:
                    msg.ClearField(fd.name)
                elif fd.type == FD.TYPE_STRING:
                    setattr(msg, fd.name, rnd.choice(["", "x", "no_such", "dup", "é中", "a/b/../c", "val_0", getattr(msg, fd.name) + "_"]))
                elif fd.type == FD.TYPE_BYTES:
                    setattr(msg, fd.name, rnd.choice([b"", b"\xff\xfe", b"\x00" * 5, getattr(msg, fd.name)[:-1]]))
                elif fd.type in (FD.TYPE_ENUM,):
                    setattr(msg, fd.name, rnd.choice([0, 1, 5, 99, 23]))
                elif fd.type in (FD.TYPE_INT32, FD.TYPE_INT64):
                    setattr(msg, fd.name, rnd.choice([0, -1, 1, 99, 2 ** 31 - 1, 7]))
                elif fd.type in (FD.TYPE_FLOAT, FD.TYPE_DOUBLE):
                    setattr(msg, fd.name, rnd.choice([0.0, float("nan"), float("inf"), -1.5]))
                else:
                    continue
                label.append("/".join(path + [fd.name]))
            except Exception:  # noqa: BLE001
                continue
        if label:
            yield (f"{name}:random#{k}:{';'.join(label)}", p)


def byte_mutants(name, proto, rnd, count):
    data = bytearray(proto.SerializeToString())
    for k in range(count):
        d = bytearray(data)
        for _ in range(rnd.randint(1, 4)):
            op = rnd.choice(["flip", "trunc", "ins", "del"])
            if op == "flip":
                i = rnd.randrange(len(d))
                d[i] ^= 1 << rnd.randrange(8)
            elif op == "trunc" and len(d) > 10:
                d = d[: rnd.randrange(10, len(d))]
            elif op == "ins":
                d.insert(rnd.randrange(len(d)), rnd.randrange(256))
            elif len(d) > 10:
                del d[rnd.randrange(len(d))]
        p = onnx.ModelProto()
        try:
            p.ParseFromString(bytes(d))
        except Exception:  # noqa: BLE001
            continue
        yield (f"{name}:bytes#{k}", p)


def all_tensors(model, graphs):
    out = []
    for g in graphs:
        for v in g.initializers.values():
            if v.const_value is not None:
                out.append(v.const_value)
        for n in g:
            for a in n.attributes.values():
                if a.is_ref():
                    continue
                if a.type == ir.AttributeType.TENSOR:
                    out.append(a.value)
                elif a.type == ir.AttributeType.TENSORS:
                    out.extend(a.value)
    return out


def universe(model):
    graphs, nodes, values = [], [], []
    seen = set()

    def walk(g):
        if id(g) in seen:
            return
        seen.add(id(g))
        graphs.append(g)
        for v in list(g.inputs) + list(g.outputs) + list(g.initializers.values()):
            if v is not None and id(v) not in seen:
                seen.add(id(v))
                values.append(v)
        for n in g:
            nodes.append(n)
            for v in list(n.inputs) + list(n.outputs):
                if v is not None and id(v) not in seen:
                    seen.add(id(v))
                    values.append(v)
            for a in n.attributes.values():
                if a.is_ref():
                    continue
                if a.type == ir.AttributeType.GRAPH:
                    walk(a.value)
                elif a.type == ir.AttributeType.GRAPHS:
                    for s in a.value:
                        walk(s)
    walk(model.graph)
    for f in model.functions.values():
        walk(f.graph)
    return irstate.Universe(graphs, nodes, values), graphs


def ownership(graphs):
    out = []
    for g in graphs:
        ids = {id(n) for n in g}
        for n in g:
            for o in n.outputs:
                if o.graph is not g:
                    out.append(f"I6: output {o.name!r} of node {n.name!r} in graph {g.name!r} reports graph {getattr(o.graph, 'name', None)!r}")
        for v in g.outputs:
            p = v.producer()
            if p is not None and id(p) not in ids:
                out.append(f"I6: graph output {v.name!r} of {g.name!r} is produced by node {p.name!r} of graph {getattr(p.graph, 'name', None)!r}")
    return out


def main():
    ap = argparse.ArgumentParser()
    ap.add_argument("--tier", default="quick")
    ap.add_argument("--seed", type=int, default=0)
    a = ap.parse_args()
    t0 = time.time()
    rnd = random.Random(a.seed)
    failures, evaluations, distinct, samples = [], 0, set(), []
    outcome = {"raised": 0, "returned": 0, "serialize_raised": 0, "fixpoint": 0}
    signal.signal(signal.SIGALRM, _alarm)
    n_rand, n_bytes = (150, 80) if a.tier == "quick" else (1500, 800)
    for name, proto in base_protos().items():
        muts = [m for m in directed_mutants(name, proto) if m is not None]
        muts += list(random_field_mutants(name, proto, rnd, n_rand))
        muts += list(byte_mutants(name, proto, rnd, n_bytes))
        for label, p in muts:
            evaluations += 1
            key = p.SerializeToString(deterministic=True)
            if key in distinct:
                continue
            distinct.add(key)
            log = []
            model = None
            signal.alarm(30)
            try:
                with fs_guard(log):
                    try:
                        model = ir.from_proto(p)
                    except FsAccess:
                        failures.append(f"{label}: deserialization accessed the file system: {log[-1]}")
                        continue
                    except Timeout:
                        raise
                    except RecursionError:
                        failures.append(f"{label}: deserialization did not terminate normally (RecursionError)")
                        continue
                    except Exception:  # noqa: BLE001
                        outcome["raised"] += 1
                        continue
                    _u0, graphs0 = universe(model)
                    for t in all_tensors(model, graphs0):
                        for attr in ("name", "dtype", "shape", "size"):
                            try:
                                getattr(t, attr)
                            except FsAccess:
                                failures.append(f"{label}: reading .{attr} of a {type(t).__name__} accessed the file system: {log[-1]}")
                            except Timeout:
                                raise
                            except Exception:  # noqa: BLE001
                                pass
            except Timeout:
                failures.append(f"{label}: deserialization did not terminate within 30 s")
                continue
            finally:
                signal.alarm(0)
            outcome["returned"] += 1
            try:
                u, graphs = universe(model)
                bad = irstate.invariant_violations(u) + ownership(graphs)
            except Exception as e:  # noqa: BLE001
                bad = [f"walking the returned IR raised {e!r}"]
            if bad:
                failures.append(f"{label}: returned an inconsistent IR: {bad[0]}"[:400])
                continue
            try:
                p1 = ir.to_proto(model)
            except Exception:  # noqa: BLE001
                outcome["serialize_raised"] += 1
                continue
            try:
                m2 = ir.from_proto(p1)
                p2 = ir.to_proto(m2)
            except Exception as e:  # noqa: BLE001
                failures.append(f"{label}: serialized result does not deserialize+serialize again: {e!r}"[:300])
                continue
            if p1.SerializeToString(deterministic=True) != p2.SerializeToString(deterministic=True):
                d = first_diff(p1, p2)
                failures.append(f"{label}: serialize(deserialize(.)) is not a fixed point: {d}"[:400])
                continue
            outcome["fixpoint"] += 1
            if len(samples) < 5 and "random" not in label and "bytes" not in label and evaluations % 37 == 0:
                samples.append(label)
            if len(failures) > 60:
                break
    uniq, seenk = [], set()
    for f in failures:
        k = f.split(": ", 1)[-1][:70]
        if k not in seenk:
            seenk.add(k)
            uniq.append(f)
    known = {}
    kf = os.path.join(ROOT, "known_findings.json")
    if os.path.exists(kf):
        for k in json.load(open(kf)).get("open", []):
            if k.get("property") == "C17" and k.get("key"):
                known[k["key"]] = k
    new, known_lines = [], []
    for f in uniq:
        hit = next((k for key, k in known.items() if key in f), None)
        if hit:
            if hit["what"] not in known_lines:
                known_lines.append(hit["what"])
        else:
            new.append(f)
    out = {"status": "violation" if new else "ok", "evaluations": evaluations, "distinct_nontrivial": len(distinct),
           "rule": f"7 base models x (one structural defect at every applicable site + {n_rand} seeded random field-level edits + {n_bytes} byte-level edits that "
                   "still parse); distinct = distinct mutated protos; bounded, not a proof", "outcomes": outcome,
           "known_findings": known_lines, "samples": samples, "failures": new[:15], "wall_s": round(time.time() - t0, 2)}
    if new:
        os.makedirs(os.path.join(ROOT, "out", "replay"), exist_ok=True)
        path = os.path.join(ROOT, "out", "replay", "C17_bounded.json")
        json.dump({"property": "C17", "kind": "script",
                   "script": "import subprocess, sys, json\nr = subprocess.run([sys.executable, %r, '--tier', %r, '--seed', %r], capture_output=True, text=True)\n"
                             "d = json.loads(r.stdout.strip().splitlines()[-1])\nVIOLATED = d['status'] == 'violation'\nDETAIL = '\\n'.join(d.get('failures', []))\n"
                             % (os.path.abspath(__file__), a.tier, str(a.seed)), "failures": new[:15]}, open(path, "w"), indent=1)
        out["replay"] = path
    print(json.dumps(out))


def first_diff(a, b, path=""):
    for fd in a.DESCRIPTOR.fields:
        va, vb = getattr(a, fd.name), getattr(b, fd.name)
        if fd.is_repeated:
            if len(va) != len(vb):
                return f"{path}/{fd.name}: {len(va)} vs {len(vb)} entries"
            for i, (x, y) in enumerate(zip(va, vb)):
                if fd.type == fd.TYPE_MESSAGE:
                    d = first_diff(x, y, f"{path}/{fd.name}[{i}]")
                    if d:
                        return d
                elif x != y:
                    return f"{path}/{fd.name}[{i}]: {x!r} vs {y!r}"
        elif fd.type == fd.TYPE_MESSAGE:
            if a.HasField(fd.name) != b.HasField(fd.name):
                return f"{path}/{fd.name}: presence {a.HasField(fd.name)} vs {b.HasField(fd.name)}"
            if a.HasField(fd.name):
                d = first_diff(va, vb, f"{path}/{fd.name}")
                if d:
                    return d
        elif va != vb and not (va != va and vb != vb):
            return f"{path}/{fd.name}: {va!r} vs {vb!r}"
    return None


if __name__ == "__main__":
    main()
